"""C16 (second part) -- where shared arrays come from and that the generated text really locks them.

_BlockTreeBuilder.new_empty_array_for_evaluable   the DECISION which result arrays are shared between the worker processes, as a
        function of block ids (a block id is a tuple; all but its last entry name the enclosing loops, so len-1 is the loop
        depth; ids are ordered lexicographically = program order):  with B the block id of the array and s_i those of its
        shape entries (each in scope of B),
          * the allocation statement `out = alloc(shape, dtype=...)` is emitted exactly once, into a block K in which every
            shape entry is in scope, K <= the returned out_block_id O;
          * O lies in the loop nest of the array (O[:-1] == B[:-1]) and O <= B: `out` is never handed to a writer outside the loop
            in which the array lives, nor before it is allocated;
          * parallel and depth(B) == 0 (the array lives outside every loop, so writers inside a forked outermost loop are worker
            processes whose updates the parent must see)  =>  out is registered in _shared_arrays with a lock of its own (not the
            lock of any other array, created by `lock = multiprocessing.Lock()` in block (0,), i.e. before every loop and before
            the allocation) and allocated through parallel.shempty, outside every loop;
          * depth(B) >= 1 (the array lives inside a loop: every worker needs its own copy) => not registered, numpy.empty;
          * serial compile => nothing registered, numpy.empty;
          * every other entry of _shared_arrays is untouched.
        The helpers get_variable_for_evaluable / get_lock_for_evaluable / _get_evaluable_index / get_block_for_evaluable and
        _BlockBuilder.__init__/assign_to/_block_for/_iter_locks are executed from their real bodies in line.
_BlockBuilder.array_copy/array_iadd/array_imul/array_add_at/array_fill_zeros/eval/assert_equal
        every leaf statement that ends up in the block tree sits inside `with lock` of ALL shared variables it mentions (ghost `held`
        = the With blocks above it), no lock twice; the statement uses every operand; eval binds a NEW private variable.
evaluable.compile (the statements `compile_parallel = ...` and the loop-generating `for` up to `assert not blocks`, run on fixed loop nests)
        parallel.ctxrange only around outermost loops and exactly when maxprocs > 1 and no stats; nested loops iterate
        treelog.iter.percentage(range(length)); the for statement iterates the range object the context hands out (`as`), over its
        own length, around its own body block; the loop nest and the program order of all blocks follow the block ids.
_pyast Block/With/If/ForLoop/CommentBlock/Assign/Exec/Assert/Raise `.lines` and `__bool__`
        the printed text, read back by CPython's parser, is the statement tree: children in order, bodies inside their suites.
topology.Topology._locate   sequential bookkeeping of the shared ielems/points: every point index this process claims is stored exactly
        once (element index or -1), coordinates exactly for located points, nothing else is touched; the call returns normally only
        if no point is marked missing or skip_missing; otherwise LocateError (after the remaining indices were skipped).
Interleavings, visibility of stores between processes and kill faults are outside this family (see NOT_COVERED).
"""
import itertools, os
import z3
from pyvc.contract import Contract, State
from pyvc.core import Obligation
from pyvc.values import SInt, SBool, SObj, SOpaque, Sym, Unsupported, PyRaise, zint, zbool
from pyvc.ops import ClassRef
from pyvc import ops, extract
from pyvc.inproc import InProc

PROP = 'C16'
HERE = os.path.dirname(os.path.dirname(os.path.abspath(__file__)))


def _native(call):
    return "import sys; sys.path.insert(0, %r)\nfrom native import c16b\nc16b.%s\n" % (HERE, call)


# ---- _pyast as tagged nodes; Variable compares and hashes BY NAME (it is a frozen dataclass) ------------------------------

class _Node(Sym):
    def vars(self):
        return []

    def truth(self, ctx):
        return True

    def getattr(self, ctx, name):
        if name == 'variables':
            return tuple(self.vars())
        if name == 'call':
            return lambda ctx, *a, **k: E('call', (self,) + tuple(a) + tuple(k.values()), kw=tuple(k))
        if name == 'get_attr':
            return lambda ctx, n: E('attr:%s' % (n,), (self,))
        if name == 'get_item':
            return lambda ctx, item: E('item', (self, item))
        raise Unsupported('_pyast expression attribute ' + name)


class V(_Node):
    def __init__(self, name):
        if not isinstance(name, str):
            raise Unsupported('variable name is not a concrete string: %r' % (name,))
        self.name = name

    def __eq__(self, other):
        return isinstance(other, V) and other.name == self.name

    def __ne__(self, other):
        return not self.__eq__(other)

    def __hash__(self):
        return hash(('V', self.name))

    def vars(self):
        return [self]

    def compare(self, ctx, op, other, reflected):
        if op == '==':
            return self == other
        if op == '!=':
            return self != other
        return NotImplemented

    def isinstance_(self, ctx, types):
        return any(getattr(t, '__name__', None) in ('Variable', 'Expression') for t in types)

    def __repr__(self):
        return 'V(%s)' % self.name


class E(_Node):
    def __init__(self, kind, children=(), kw=()):
        self.kind, self.children, self.kw = kind, tuple(children), tuple(kw)

    def vars(self):
        out = []
        for c in self.children:
            for v in (c.vars() if isinstance(c, _Node) else []):
                if v not in out:
                    out.append(v)
        return out

    def isinstance_(self, ctx, types):
        return any(getattr(t, '__name__', None) == 'Expression' for t in types)

    def __repr__(self):
        return 'E(%s%s)' % (self.kind, ''.join(', %r' % (c,) for c in self.children))


def is_call_of(e, *path):
    """e == Variable(path[0]).get_attr(path[1])...call(...)"""
    if not (isinstance(e, E) and e.kind == 'call' and e.children):
        return False
    f = e.children[0]
    for attr in reversed(path[1:]):
        if not (isinstance(f, E) and f.kind == 'attr:' + attr and len(f.children) == 1):
            return False
        f = f.children[0]
    return isinstance(f, V) and f.name == path[0]


class Blk(Sym):
    """_pyast.Block"""

    def __init__(self, items=()):
        self.items = list(items)

    def getattr(self, ctx, name):
        if name == 'append':
            return lambda ctx, x: self.items.append(x)
        raise Unsupported('Block.' + name)

    def truth(self, ctx):
        raise Unsupported('truth of a Block in the builder')


class St(Sym):
    def __init__(self, kind, *parts, **kw):
        self.kind, self.parts, self.kw = kind, parts, kw

    def __repr__(self):
        return 'St(%s, %s)' % (self.kind, ', '.join(map(repr, self.parts)))


class PyAstB:
    def sym_getattr(self, ctx, name):
        if name == 'Block':
            return lambda ctx, items=(): Blk(ops.iterate(ctx, items))
        if name == 'Variable':
            return ClassRef('Variable', construct=lambda ctx, n: V(n))
        if name == 'Expression':
            return ClassRef('Expression')
        if name == 'BinOp':
            return lambda ctx, a, op, b: E('binop', (a, b))
        if name in ('LiteralInt', 'LiteralStr', 'LiteralBool', 'LiteralFloat'):
            return lambda ctx, v: E('lit', ())
        if name == 'Tuple':
            return lambda ctx, items: E('tuple', tuple(ops.iterate(ctx, items)))
        if name in ('With', 'Exec', 'Assign', 'Assert', 'Raise', 'If', 'CommentBlock', 'ForLoop'):
            return lambda ctx, *parts, **kw: St(name, *parts, **kw)
        raise Unsupported('_pyast.' + name)


def leaves(item, held=()):
    """all (leaf statement, locks held) below a statement / block, looking through Block, CommentBlock, With, If, ForLoop"""
    if isinstance(item, Blk):
        for it in item.items:
            yield from leaves(it, held)
    elif isinstance(item, St) and item.kind == 'CommentBlock':
        yield from leaves(item.parts[1], held)
    elif isinstance(item, St) and item.kind == 'With':
        body = item.parts[1] if len(item.parts) > 1 else item.kw.get('body')
        yield from leaves(body, held + (item.parts[0],))
    elif isinstance(item, St) and item.kind == 'If':
        yield item, held
        yield from leaves(item.parts[1], held)
    elif isinstance(item, St) and item.kind == 'ForLoop':
        yield from leaves(item.parts[2], held)
    else:
        yield item, held


class NS:
    def __init__(self, **kw):
        self.d = kw

    def sym_getattr(self, ctx, name):
        if name in self.d:
            return self.d[name]
        raise Unsupported('external %s is not modelled' % name)


class DictStub:
    def sym_getattr(self, ctx, name):
        if name == 'fromkeys':
            def fromkeys(ctx, it):
                d = {}
                for x in ops.iterate(ctx, it):
                    d.setdefault(x, None)
                return d
            return fromkeys
        raise Unsupported('dict.' + name)


def real_method(ref, S=None):
    """the REAL body of `ref`, re-extracted; through the harness `call` (so that it is listed in the evidence) when there is one"""
    def m(ctx, s, *a, **k):
        call = getattr(S, 'call', None) if S is not None else None
        if call is not None:
            return call(ref, s, *a, **k)
        return ctx.interp.call_function(extract.get(ref).node, (s,) + a, k)
    return m


BB_METHODS = ('_needs_lock', '_iter_locks', '_block_for', 'exec', 'assign_to', 'eval', 'assert_true', 'assert_equal', 'if_', 'raise_',
              'array_copy', 'array_iadd', 'array_imul', 'array_add_at', 'array_fill_zeros')


def block_builder_class(S=None):
    """_BlockBuilder: the real __init__ and the real methods, on a record"""
    def construct(ctx, parent, block):
        me = SObj('_BlockBuilder')
        for m in BB_METHODS:
            me.methods[m] = real_method('evaluable:_BlockBuilder.' + m, S)
        real_method('evaluable:_BlockBuilder.__init__', S)(ctx, me, parent, block)
        return me
    return ClassRef('_BlockBuilder', construct=construct)


def builder_globals(S=None):
    return {'_pyast': PyAstB(), 'dict': DictStub(), '_BlockBuilder': block_builder_class(S),
            'filter': lambda ctx, f, it: [x for x in ops.iterate(ctx, it) if x is not None] if f is None else _unsupported('filter with a predicate'),
            'map': lambda ctx, f, *its: [ctx.interp.call(f, list(a), {}) for a in zip(*[ops.iterate(ctx, it) for it in its])]}


def _unsupported(msg):
    raise Unsupported(msg)


def concrete_format_hooks(cx):
    """'v{}'.format(7) and f'e{index}' with concrete parts are the concrete strings; anything else stays opaque"""
    def fmt(template, a, k):
        if all(isinstance(x, (int, str)) and not isinstance(x, bool) for x in list(a) + list(k.values())):
            try:
                return template.format(*a, **k)
            except Exception:
                return SOpaque('str')
        return SOpaque('str')

    def fstr(parts):
        out = ''
        for p in parts:
            if isinstance(p, str):
                out += p
            elif isinstance(p[1], (int, str)) and not isinstance(p[1], bool):
                out += str(p[1])
            else:
                return SOpaque('str')
        return out
    cx.format_hook, cx.fstring_hook = fmt, fstr


# ---- block ids ---------------------------------------------------------------------------------------------------------

def zi(x):
    return x if isinstance(x, z3.ExprRef) else zint(x) if isinstance(x, Sym) else z3.IntVal(x)


def is_id(t):
    return isinstance(t, tuple) and all(isinstance(x, SInt) or (isinstance(x, int) and not isinstance(x, bool)) for x in t)


def lex_gt(a, b):
    """Python's ordering of tuples of ints: a > b"""
    alts = []
    n = min(len(a), len(b))
    for k in range(n):
        alts.append(z3.And(*[zi(a[j]) == zi(b[j]) for j in range(k)], zi(a[k]) > zi(b[k])))
    if len(a) > len(b):
        alts.append(z3.And(*[zi(a[j]) == zi(b[j]) for j in range(n)]) if n else z3.BoolVal(True))
    return z3.Or(*alts) if alts else z3.BoolVal(False)


def lex_eq(a, b):
    if len(a) != len(b):
        return z3.BoolVal(False)
    return z3.And(*[zi(x) == zi(y) for x, y in zip(a, b)]) if a else z3.BoolVal(True)


def lex_le(a, b):
    return z3.Not(lex_gt(a, b))


def in_scope(s, K):
    """a value computed in block s can be used in block K: s is not later than K and lies in K's loop nest (all loops enclosing
    s enclose K) -- the scope rule asserted by _BlockTreeBuilder.get_block_id"""
    if len(s) > len(K):
        return z3.BoolVal(False)
    return z3.And(lex_le(s, K), *[zi(s[j]) == zi(K[j]) for j in range(len(s) - 1)])


def lexmax(ctx, *args, **kw):
    """builtins.max on block ids (tuples of ints): the first maximal element in the lexicographic order"""
    if kw:
        raise Unsupported('max with key/default')
    xs = ops.iterate(ctx, args[0]) if len(args) == 1 else list(args)
    if not xs:
        raise PyRaise('ValueError', note='max() of empty')
    if not all(is_id(x) for x in xs):
        raise Unsupported('builtins.max of something that is not a block id')
    r = xs[0]
    for x in xs[1:]:
        if ctx.branch(lex_gt(x, r)):
            r = x
    return r


def lexmin(ctx, *args, **kw):
    if kw:
        raise Unsupported('min with key/default')
    xs = ops.iterate(ctx, args[0]) if len(args) == 1 else list(args)
    if not xs:
        raise PyRaise('ValueError', note='min() of empty')
    if not all(is_id(x) for x in xs):
        raise Unsupported('builtins.min of something that is not a block id')
    r = xs[0]
    for x in xs[1:]:
        if ctx.branch(lex_gt(r, x)):
            r = x
    return r


class Ev(SObj):
    """an evaluable: identity only (plus the attributes the builder reads)"""

    def pytype(self, ctx):
        return ClassRef(self.clsname)


class BlocksMap(Sym):
    """the `blocks` dict of compile(): block id -> Block; every append is recorded with the id it went to"""

    def __init__(self, S):
        self.S = S

    def getitem(self, ctx, key):
        if not is_id(key):
            raise Unsupported('blocks[...] with a key that is not a block id: %r' % (key,))
        S = self.S

        class At(Sym):
            def getattr(s, ctx, name):
                if name == 'append':
                    return lambda ctx, x: S.appended.append((key, x))
                raise Unsupported('Block.' + name)
        return At()


# ---- new_empty_array_for_evaluable ----------------------------------------------------------------------------------------

class Alloc(InProc, Contract):
    prop = PROP
    fn = 'evaluable:_BlockTreeBuilder.new_empty_array_for_evaluable'

    def __init__(self, lenB, shape_lens):
        self.lenB, self.shape_lens = lenB, tuple(shape_lens)
        self.label = 'depth%d|shape-depths:%s' % (lenB - 1, ','.join(str(n - 1) for n in shape_lens) or '-')
        self.bounded = 'array at loop depth %d, rank %d with shape entries at loop depths %s (block-id entries symbolic)' % (lenB - 1, len(shape_lens), list(n - 1 for n in shape_lens))

    def setup(self, cx):
        concrete_format_hooks(cx)
        B = tuple(cx.int('B%d' % j) for j in range(self.lenB))
        shp = [tuple(cx.int('s%d_%d' % (i, j)) for j in range(n)) for i, n in enumerate(self.shape_lens)]
        par = cx.bool('parallel')
        for t in [B] + shp:
            for x in t:
                cx.assume(x >= 0)
        for s in shp:  # ASSUMPTION: every shape entry is in scope where the array is evaluated
            cx.assume(in_scope(s, B))
        S = State(B=B, shp=shp, par=par, appended=[], compiled=[])
        shape_evs = [Ev('Array', attrs={}) for _ in shp]
        array = Ev('Inflate', attrs=dict(shape=tuple(shape_evs), ndim=len(shp), ast_dtype=E('dtype')), classes=('Inflate', 'Array', 'Evaluable'))
        first = Ev('Constant', attrs=dict(shape=(), ndim=0, ast_dtype=E('dtype')), classes=('Constant', 'Array', 'Evaluable'))  # an earlier rank-0 array outside every loop
        ids = {id(array): tuple(SInt(b) for b in B), id(first): (0,)}
        for ev, s in zip(shape_evs, shp):
            ids[id(ev)] = tuple(SInt(x) for x in s)

        def get_block_id(ctx, s, ev):
            if id(ev) not in ids:
                raise Unsupported('get_block_id of an unknown evaluable')
            return ids[id(ev)]

        def compile_(ctx, s, ev):
            if isinstance(ev, tuple) and not ev:
                S.shape_expr = E('tuple', ())
                return S.shape_expr
            if not (isinstance(ev, tuple) and len(ev) == len(shape_evs) and all(a is b for a, b in zip(ev, shape_evs))):
                raise Unsupported('compile of something other than array.shape')
            S.shape_expr = E('tuple', tuple(V('n%d' % i) for i in range(len(shape_evs))))
            return S.shape_expr
        other = Ev('Array')
        S.shared = {V('v3'): V('lock3')}
        counter = ops.IterObj(range(7, 40))
        me = SObj('_BlockTreeBuilder', attrs=dict(_parallel=SBool(par), _shared_arrays=S.shared, _blocks=BlocksMap(S), _evaluables={other: 3}, _new_index=counter,
                                                  _globals={}, _origin=None, _stats=False, _evaluable_block_map={},
                                                  new_var=lambda ctx: V('v%d' % counter.sym_next(ctx))))
        me.methods.update(get_block_id=get_block_id, compile=compile_)
        for m in ('get_variable_for_evaluable', 'get_lock_for_evaluable', '_get_evaluable_index', 'get_block_for_evaluable', 'get_block'):
            me.methods[m] = real_method('evaluable:_BlockTreeBuilder.' + m, S)
        S.me, S.array, S.first = me, array, first
        S.args = (me, array)
        S.globals = dict(builder_globals(S), builtins=NS(max=lexmax, min=lexmin))
        return S

    def body(self, cx, S, call):
        S.call = call
        call(self.fn, S.me, S.first)  # the same real code has placed an earlier array: its lock must differ from the one handed out now
        S.old_shared = dict(S.shared)
        S.appended_before = len(S.appended)
        return call(self.fn, *S.args)

    def raises(self, cx, S, e):
        return False

    def facts(self, S, result):
        """structural reading of what was emitted (Python level); None where the shape is not as expected"""
        F = State(ok=False)
        if not (isinstance(result, tuple) and len(result) == 2 and isinstance(result[0], V) and is_id(result[1])):
            return F
        F.out, F.O = result
        F.allocs, F.locks = [], []
        for pos, (key, item) in enumerate(S.appended):
            if pos < S.appended_before:
                continue
            for st, held in leaves(item):
                if isinstance(st, St) and st.kind == 'Assign' and len(st.parts) == 2 and isinstance(st.parts[0], V):
                    if st.parts[0] == F.out:
                        F.allocs.append((pos, key, st.parts[1], held))
                    elif is_call_of(st.parts[1], 'multiprocessing', 'Lock'):
                        F.locks.append((pos, key, st.parts[0]))
        F.registered = F.out in S.shared
        F.lock = S.shared.get(F.out)
        F.ok = True
        return F

    def ensures(self, cx, S, result):
        T, Fa = z3.BoolVal(True), z3.BoolVal(False)
        B = tuple(SInt(b) for b in S.B)
        shp = [tuple(SInt(x) for x in s) for s in S.shp]
        F = self.facts(S, result)
        names = ['returns-the-allocated-variable-and-a-block-id', 'allocated-exactly-once-where-every-shape-entry-is-in-scope', 'usable-only-after-the-allocation',
                 'usable-only-inside-the-loop-where-the-array-lives', 'shared-when-parallel-and-outside-every-loop', 'private-inside-a-loop', 'nothing-shared-in-a-serial-compile',
                 'shared-array-has-a-lock-of-its-own-created-before-every-loop', 'allocated-through-shempty-iff-shared', 'other-shared-arrays-untouched']
        if not F.ok or len(F.allocs) != 1:
            return [(n, Fa) for n in names]
        pos, K, rhs, held = F.allocs[0]
        outer = self.lenB == 1
        sh_alloc, np_alloc = is_call_of(rhs, 'parallel', 'shempty'), is_call_of(rhs, 'numpy', 'empty')
        alloc_args_ok = isinstance(rhs, E) and len(rhs.children) == 3 and rhs.children[1] is getattr(S, 'shape_expr', None) and rhs.kw == ('dtype',) and rhs.children[2] is S.array.attrs['ast_dtype'] and not held
        out = [(names[0], z3.BoolVal(bool(alloc_args_ok))),
               (names[1], z3.And(*[in_scope(s, K) for s in shp]) if shp else T),
               (names[2], in_scope(K, F.O)),
               (names[3], z3.And(z3.BoolVal(len(F.O) == len(B)), lex_eq(F.O[:-1], B[:-1]), lex_le(F.O, B)) if len(F.O) == len(B) else Fa)]
        reg = z3.BoolVal(bool(F.registered))
        out += [(names[4], z3.Implies(z3.And(S.par, z3.BoolVal(outer)), z3.And(reg, z3.BoolVal(len(K) == 1)))),
                (names[5], z3.Implies(z3.BoolVal(not outer), z3.Not(reg))),
                (names[6], z3.Implies(z3.Not(S.par), z3.Not(reg)))]
        if F.registered:
            mine = [(p, k) for p, k, v in F.locks if v == F.lock]
            own = isinstance(F.lock, V) and F.lock not in S.old_shared.values() and F.lock not in S.shared and F.lock != F.out and len(mine) == 1
            before = z3.And(z3.BoolVal(len(mine[0][1]) == 1 and mine[0][0] < pos), lex_le(mine[0][1], K)) if own else Fa
            out.append((names[7], z3.And(z3.BoolVal(bool(own)), before)))
        else:
            out.append((names[7], z3.BoolVal(not F.locks)))
        out.append((names[8], z3.BoolVal(bool(sh_alloc if F.registered else np_alloc))))
        untouched = all(k in S.shared and S.shared[k] == v for k, v in S.old_shared.items()) and set(S.shared) - set(S.old_shared) <= {F.out}
        out.append((names[9], z3.BoolVal(bool(untouched))))
        return out

    def replay(self, ob):
        m = ob.model or {}

        def val(n):
            try:
                return max(int(str(m.get(n, 0))), 0)
            except ValueError:
                return 0
        B = tuple(val('B%d' % j) for j in range(self.lenB))
        shp = [tuple(val('s%d_%d' % (i, j)) for j in range(n)) for i, n in enumerate(self.shape_lens)]
        par = str(m.get('parallel', 'True')) == 'True'
        return _native('run_alloc(%r, %r, %r, %r)' % (B, shp, par, ob.clause))


def alloc_contracts():
    cs = []
    for lenB in (1, 2, 3):
        for rank in (0, 1, 2):
            for lens in itertools.product(range(1, lenB + 1), repeat=rank):
                cs.append(Alloc(lenB, lens))
    return cs


# ---- remaining _BlockBuilder emitters -------------------------------------------------------------------------------------

def mentioned(st):
    """variables a leaf statement reads or writes through (a bare Variable on the left of an assignment is a plain rebinding)"""
    parts = list(st.parts) + list(st.kw.values())
    if st.kind == 'Assign' and isinstance(parts[0], V):
        parts = parts[1:]
    if st.kind == 'If':
        parts = parts[:1]
    out = []
    for p in parts:
        for v in (p.vars() if isinstance(p, _Node) else []):
            if v not in out:
                out.append(v)
    return out


SHARED = {'a': 'lock_a', 'b': 'lock_b'}  # two shared arrays with distinct locks; 'p' is private


class Emit(InProc, Contract):
    """One emitter of _BlockBuilder on operands mentioning given subsets of {a, b, p}: every leaf statement that ends up in the block
    tree sits inside `with lock` of ALL shared variables it mentions, no lock is taken twice on the way down."""
    prop = PROP

    def __init__(self, method, subsets):
        self.method, self.subsets = method, tuple(tuple(s) for s in subsets)
        self.fn = 'evaluable:_BlockBuilder.' + method
        self.label = '|'.join(','.join(s) or '-' for s in self.subsets)
        self.bounded = 'operands over three variables (a, b shared with distinct locks, p private): subsets %s' % self.label

    def setup(self, cx):
        concrete_format_hooks(cx)
        S = State(counter=[0])
        S.shared = {V(n): V(l) for n, l in SHARED.items()}

        def new_var(ctx):
            S.counter[0] += 1
            return V('tmp%d' % S.counter[0])
        S.parent = SObj('_BlockTreeBuilder', attrs=dict(_shared_arrays=S.shared, new_var=new_var))
        S.block = Blk()
        S.globals = builder_globals(S)
        S.operands = [E('operand', [V(n) for n in sub]) for sub in self.subsets]
        return S

    def body(self, cx, S, call):
        S.call = call
        me = cx.interp.call(S.globals['_BlockBuilder'], [S.parent, S.block], {})  # the real __init__
        S.me = me
        return call(self.fn, me, *S.operands)

    def raises(self, cx, S, e):
        return False

    def ensures(self, cx, S, result):
        ok_locks, ok_once, n = True, True, 0
        for st, held in leaves(S.block):
            if not isinstance(st, St):
                return [(c, z3.BoolVal(False)) for c in ('statement-emitted', 'shared-variables-only-under-their-locks', 'no-lock-taken-twice')]
            n += 1
            need = [S.shared[v] for v in mentioned(st) if v in S.shared]
            if any(l not in held for l in need):
                ok_locks = False
            if len(set(held)) != len(held) or any(not isinstance(h, V) for h in held):
                ok_once = False
        out = [('statement-emitted', z3.BoolVal(n >= 1)), ('shared-variables-only-under-their-locks', z3.BoolVal(ok_locks)), ('no-lock-taken-twice', z3.BoolVal(ok_once))]
        if self.method == 'eval':
            fresh = isinstance(result, V) and result not in S.shared and result.name not in ('a', 'b', 'p') and any(st.kind == 'Assign' and st.parts[0] == result and st.parts[1] is S.operands[0] for st, _ in leaves(S.block))
            out.append(('value-bound-to-a-new-private-variable', z3.BoolVal(bool(fresh))))
        else:
            used = set(v for st, _ in leaves(S.block) for v in mentioned(st))
            out.append(('statement-uses-every-operand', z3.BoolVal(all(V(n) in used for sub in self.subsets for n in sub))))
        return out

    def replay(self, ob):
        return _native('run_emit(%r, %r, %r)' % (self.method, self.subsets, ob.clause))


def emit_contracts():
    names = ('a', 'b', 'p')
    subsets = [tuple(c) for r in range(0, 4) for c in itertools.combinations(names, r)]
    cs = []
    for m in ('array_fill_zeros', 'eval'):
        cs += [Emit(m, (s,)) for s in subsets]
    for m in ('array_copy', 'array_iadd', 'array_imul', 'assert_equal'):
        cs += [Emit(m, (s1, s2)) for s1 in subsets for s2 in subsets]
    cs += [Emit('array_add_at', (s1, s2, s3)) for s1 in subsets for s2 in subsets for s3 in subsets if len(s1) + len(s2) + len(s3) <= 3]
    return cs


# ---- compile(): loop generation ----------------------------------------------------------------------------------------------

def compile_fragment():
    """the statements of the REAL evaluable.compile that decide compile_parallel and generate the loops (selected by what they
    assign/iterate, re-read on every run): `compile_parallel = ...`, `for loop_id, ... in sorted(loop_length_index.items() ...)`,
    and the statements that follow it up to `assert not blocks`"""
    import ast
    f = extract.get('evaluable:compile')
    body = f.node.body
    par = [st for st in body if isinstance(st, ast.Assign) and any(isinstance(t, ast.Name) and t.id == 'compile_parallel' for t in st.targets)]
    loops = [i for i, st in enumerate(body) if isinstance(st, ast.For) and 'loop_length_index' in ast.unparse(st.iter)]
    if len(par) != 1 or len(loops) != 1:
        raise Unsupported('compile(): the compile_parallel assignment / the loop-generating for statement was not found')
    i = loops[0]
    tail = []
    for st in body[i + 1:]:
        if isinstance(st, ast.Assert) or (isinstance(st, ast.Assign) and any(isinstance(t, ast.Name) and t.id == 'main' for t in st.targets)):
            tail.append(st)
        else:
            break
    return f, par[0], [body[i]] + tail


def concrete_sorted(ctx, it, key=None, reverse=False):
    """sorted() on concrete items with concrete keys (the key function is run by the interpreter): Python's own sorted"""
    xs = ops.iterate(ctx, it)
    ks = [ctx.interp.call(key, [x], {}) if key is not None else x for x in xs]
    if ops.has_sym(ks) or any(isinstance(k, Sym) for k in ks) or not isinstance(reverse, bool):
        raise Unsupported('sorted with symbolic keys')
    order = sorted(range(len(xs)), key=lambda n: ks[n], reverse=reverse)
    return [xs[n] for n in order]


LOOP_NESTS = {
    'one-loop': [(0,)],
    'two-in-sequence': [(0,), (1,)],
    'nested': [(0,), (0, 0)],
    'nested-twice-and-sequence': [(0,), (0, 0), (0, 0, 0), (0, 1), (1,), (1, 0)],
    'three-deep-second': [(0,), (1,), (1, 0), (1, 1), (1, 1, 0), (2,)],
}


class LoopGen(InProc, Contract):
    prop = PROP
    fn = 'evaluable:compile'

    def __init__(self, name):
        self.nest = name
        self.label = 'loop-generation|' + name
        self.bounded = 'loop nest fixed to the loop ids %s; maxprocs and stats symbolic' % (LOOP_NESTS[name],)

    def setup(self, cx):
        concrete_format_hooks(cx)
        m, stats = cx.int('maxprocs'), cx.bool('stats')
        cx.assume(m >= 1)  # parallel.maxprocs contract (contracts/c16_fork.py)
        S = State(m=m, stats=stats, counter=[0])
        ids = {(0,)}
        for L in self.loop_ids():
            ids.add((*L, 0))
            ids.add((*L[:-1], L[-1] + 1))
        S.marker = {}
        S.blocks = {}
        for bid in sorted(ids):
            mk = St('Exec', E('marker:%s' % (bid,)))
            S.marker[id(mk)] = bid
            S.blocks[bid] = Blk([mk])
        S.body_of = {L: S.blocks[(*L, 0)] for L in self.loop_ids()}
        S.length_ev = {L: Ev('Constant') for L in self.loop_ids()}
        S.index_var = {L: V('i' + '_'.join(map(str, L))) for L in self.loop_ids()}
        S.lli = {L: (S.length_ev[L], S.index_var[L]) for L in self.loop_ids()}
        S.py_length = {}

        def compile_(ctx, s, ev):
            for L, e in S.length_ev.items():
                if e is ev:
                    S.py_length[L] = E('length:%s' % (L,))
                    return S.py_length[L]
            raise Unsupported('builder.compile of something that is not a loop length')

        def new_var(ctx, s):
            S.counter[0] += 1
            return V('v%d' % (100 + S.counter[0]))
        S.builder = SObj('_BlockTreeBuilder', methods=dict(compile=compile_, new_var=new_var))
        S.globals = {'_pyast': PyAstB(), 'parallel': NS(maxprocs=NS(current=SInt(m))), 'sorted': concrete_sorted}
        return S

    def loop_ids(self):
        return LOOP_NESTS[self.nest]

    def body(self, cx, S, call):
        from pyvc.interp import Env
        f, par_stmt, stmts = compile_fragment()
        it = cx.interp
        it.index_loops(f.node)
        env = Env()
        env.vars.update(loop_length_index=S.lli, blocks=S.blocks, builder=S.builder, stats=SBool(S.stats))
        it.block([par_stmt], env)
        S.compile_parallel = env.lookup('compile_parallel')
        it.block(stmts, env)
        return env.lookup('main')

    def raises(self, cx, S, e):
        return False

    def walk(self, S, item, stack, out):
        """in program order: ('marker', block id, enclosing loops) and ('loop', with-statement, for-statement, enclosing loops)"""
        if isinstance(item, Blk):
            for it in item.items:
                self.walk(S, it, stack, out)
        elif isinstance(item, St) and item.kind == 'With':
            body = item.parts[1] if len(item.parts) > 1 else item.kw.get('body')
            if isinstance(body, St) and body.kind == 'ForLoop':
                L = [l for l, v in S.index_var.items() if len(body.parts) == 3 and body.parts[0] == v]
                out.append(('loop', item, body, tuple(stack), L[0] if L else None))
                self.walk(S, body.parts[2] if len(body.parts) == 3 else None, stack + [L[0] if L else None], out)
            else:
                out.append(('other', item, tuple(stack)))
        elif isinstance(item, St) and id(item) in S.marker:
            out.append(('marker', S.marker[id(item)], tuple(stack)))
        else:
            out.append(('other', item, tuple(stack)))

    def ensures(self, cx, S, result):
        B = z3.BoolVal
        ev = []
        self.walk(S, result, [], ev)
        loops = [e for e in ev if e[0] == 'loop']
        markers = [e for e in ev if e[0] == 'marker']
        par = z3.And(S.m > 1, z3.Not(S.stats))

        def kind(w):
            ctxv = w.parts[0] if w.parts else w.kw.get('item')
            if is_call_of(ctxv, 'parallel', 'ctxrange'):
                return 'ctxrange', ctxv
            if is_call_of(ctxv, 'treelog', 'iter', 'percentage'):
                return 'plain', ctxv
            return 'other', ctxv
        forked = [e for e in loops if kind(e[1])[0] == 'ctxrange']
        nest_ok = not [e for e in ev if e[0] == 'other'] and not S.blocks \
            and [e[1] for e in markers] == sorted(S.marker.values()) \
            and all(list(e[2]) == [bid[:k] for k in range(1, len(bid))] for e in markers for bid in [e[1]]) \
            and sorted(e[4] for e in loops if e[4] is not None) == sorted(self.loop_ids()) and len(loops) == len(self.loop_ids()) \
            and all(list(e[3]) == [e[4][:k] for k in range(1, len(e[4]))] for e in loops if e[4] is not None)
        own = True
        for _, w, f, stack, L in loops:
            k, c = kind(w)
            as_ = w.kw.get('as_')
            length = S.py_length.get(L)
            it_ok = isinstance(as_, V) and is_call_of(f.parts[1], 'map') and len(f.parts[1].children) == 3 and f.parts[1].children[2] == as_ and as_ not in S.index_var.values() \
                and sum(1 for e in loops if e[1].kw.get('as_') == as_) == 1 and f.parts[2] is S.body_of.get(L)
            if k == 'ctxrange':
                len_ok = len(c.children) == 3 and c.children[2] is length
            elif k == 'plain':
                r = c.children[2] if len(c.children) == 3 else None
                len_ok = is_call_of(r, 'range') and len(r.children) == 2 and r.children[1] is length
            else:
                len_ok = False
            own = own and it_ok and len_ok and length is not None
        return [('fork-only-for-outermost-loops', B(all(len(e[3]) == 0 and e[4] is not None and len(e[4]) == 1 for e in forked))),
                ('outermost-loops-forked-iff-several-processes-and-no-stats', z3.And(*[B(kind(e[1])[0] == 'ctxrange') == par for e in loops if len(e[3]) == 0]) if loops else B(False)),
                ('nested-loops-iterate-a-plain-range', B(all(kind(e[1])[0] == 'plain' for e in loops if len(e[3]) > 0))),
                ('loop-nest-follows-the-block-ids', B(bool(nest_ok))),
                ('each-loop-iterates-its-own-range-over-its-own-length-and-body', B(bool(own)))]

    def replay(self, ob):
        return _native('run_loops(%r)' % ob.clause)


def loopgen_contracts():
    return [LoopGen(n) for n in LOOP_NESTS]


# ---- _pyast statement printer ---------------------------------------------------------------------------------------------------

class Tok(Sym):
    """the text of an expression (`py_expr`): an opaque one-line token, never inspected by the printer"""

    def __init__(self, name):
        self.name = name

    def getattr(self, ctx, name):
        if name == 'py_expr':
            return Txt([self])
        raise Unsupported('expression attribute %s in the statement printer' % name)

    def truth(self, ctx):
        return True


class Txt(Sym):
    """a line of text: concrete pieces and expression tokens; only concatenation is allowed"""

    def __init__(self, parts):
        self.parts = list(parts)

    def binop(self, ctx, op, other, reflected):
        if op != '+':
            return NotImplemented
        o = Txt.lift(other)
        return Txt(o.parts + self.parts) if reflected else Txt(self.parts + o.parts)

    @staticmethod
    def lift(v):
        if isinstance(v, Txt):
            return v
        if isinstance(v, str):
            return Txt([v])
        if isinstance(v, CStr):
            return Txt([v.s])
        raise Unsupported('text built from %r' % (v,))

    def render(self):
        return ''.join(p if isinstance(p, str) else p.name for p in self.parts)


class CStr(Sym):
    """a concrete str that offers the two operations CommentBlock uses"""

    def __init__(self, s):
        self.s = s

    def contains(self, ctx, item):
        if not isinstance(item, str):
            raise Unsupported('`in` on a comment with a non-literal')
        return item in self.s

    def getattr(self, ctx, name):
        if name == 'splitlines':
            return lambda ctx: list(self.s.splitlines())
        raise Unsupported('str.' + name)

    def truth(self, ctx):
        return bool(self.s)


PCLASS = {'block': 'Block', 'with': 'With', 'if': 'If', 'for': 'ForLoop', 'comment': 'CommentBlock', 'assign': 'Assign', 'exec': 'Exec', 'assert': 'Assert', 'raise': 'Raise'}


class PNode(Sym):
    """a _pyast statement object: its fields, and `lines` / `__bool__` / helpers run from the REAL class bodies"""

    def __init__(self, S, cls, **attrs):
        self.S, self.cls, self.attrs = S, cls, attrs

    def getattr(self, ctx, name):
        if name in self.attrs:
            return self.attrs[name]
        if name == 'lines':
            return self.S.call('_pyast:%s.lines' % self.cls, self)
        if name == '_get_single_line_statement' and self.cls == 'CommentBlock':
            return lambda ctx: self.S.call('_pyast:CommentBlock._get_single_line_statement', self)
        raise Unsupported('%s.%s in the statement printer' % (self.cls, name))

    def unop(self, ctx, op):
        if op == 'not':
            return not self.truth(ctx)
        raise Unsupported('unary %s on a statement object' % op)

    def truth(self, ctx):
        r = self.S.call('_pyast:%s.__bool__' % self.cls, self)
        if isinstance(r, SBool):
            return r.b
        if not isinstance(r, bool):
            raise Unsupported('__bool__ returned %r' % (r,))
        return r


def build_pnode(S, t):
    k = t[0]
    if k == 'block':
        return PNode(S, 'Block', _items=[build_pnode(S, c) for c in t[1]])
    if k == 'assign':
        return PNode(S, 'Assign', lhs=Tok(t[1]), rhs=Tok(t[2]))
    if k == 'exec':
        return PNode(S, 'Exec', expression=Tok(t[1]))
    if k == 'assert':
        return PNode(S, 'Assert', condition=Tok(t[1]))
    if k == 'raise':
        return PNode(S, 'Raise', exception=Tok(t[1]))
    if k == 'with':
        return PNode(S, 'With', item=Tok(t[1]), body=build_pnode(S, t[4]), as_=Tok(t[2]) if t[2] else None, omit_if_body_is_empty=t[3])
    if k == 'if':
        return PNode(S, 'If', condition=Tok(t[1]), body=build_pnode(S, t[2]), else_body=build_pnode(S, t[3] if t[3] is not None else ('block', [])))
    if k == 'for':
        return PNode(S, 'ForLoop', var=Tok(t[1]), iterable=Tok(t[2]), body=build_pnode(S, t[3]))
    if k == 'comment':
        return PNode(S, 'CommentBlock', comment=CStr(t[1]), statements=build_pnode(S, t[2]))
    raise ValueError(k)


def _first_kind(name):
    from native import c16b
    k = name.split('>')[0] if '>' in name else {'with-empty': 'with', 'with-as-empty': 'with', 'with-omit-empty': 'with', 'if-empty-else': 'if', 'if-empty-both': 'if', 'for-empty': 'for',
                                                 'comment-one-statement': 'comment', 'comment-one-block-statement': 'comment', 'comment-on-with': 'comment', 'comment-empty': 'comment',
                                                 'with-holding-only-an-empty-if': 'with', 'with-omit-holding-only-an-empty-for': 'with', 'lock-pattern': 'with'}[name]
    return PCLASS[k.split('-')[0]]


class Printer(InProc, Contract):
    """The text printed for a statement tree, read back by CPython's own parser, is the same statement tree: what the tree puts
    inside a With/If/ForLoop is inside that statement's suite in the text, in order (expression texts are opaque tokens)."""
    prop = PROP

    def __init__(self, name):
        self.tree_name = name
        self.fn = '_pyast:%s.lines' % _first_kind(name)
        self.label = 'tree:' + name
        self.bounded = 'statement tree %s of the bounded family (nesting depth <= 3 below the root block; expression texts opaque)' % name

    def setup(self, cx):
        from native import c16b

        def fstr(parts):
            out = []
            for p in parts:
                out += [p] if isinstance(p, str) else Txt.lift(p[1]).parts
            return Txt(out)
        cx.fstring_hook = fstr
        S = State(tree=c16b.printer_tree(self.tree_name))
        S.globals = {'Block': ClassRef('Block', construct=lambda ctx, items=(): PNode(S, 'Block', _items=list(ops.iterate(ctx, items))))}
        return S

    def body(self, cx, S, call):
        S.call = call
        S.root = build_pnode(S, S.tree)
        return call('_pyast:Block.lines', S.root)

    def raises(self, cx, S, e):
        return False

    def ensures(self, cx, S, result):
        from native import c16b
        names = ('every-yielded-line-is-one-line', 'printed-text-is-valid-python', 'cpython-reads-the-text-back-as-the-same-statement-tree', 'comments-stay-comments')
        try:
            lines = [Txt.lift(l).render() for l in ops.iterate(cx, result)]
        except Unsupported:
            return [(n, z3.BoolVal(False)) for n in names]
        return [(c, z3.BoolVal(bool(ok))) for c, ok, _ in c16b.printer_verdict(S.tree, lines)]

    def replay(self, ob):
        return _native('run_printer(%r, %r)' % (self.tree_name, ob.clause))


def printer_contracts():
    from native import c16b
    return [Printer(n) for n in c16b.printer_names()]


# ---- Topology._locate: bookkeeping of the shared ielems/points ---------------------------------------------------------------------

class Fl(Sym):
    """a float / float array: arithmetic is opaque, every comparison may come out either way"""

    def binop(self, ctx, op, other, reflected):
        return Fl()

    def unop(self, ctx, op):
        return Fl()

    def compare(self, ctx, op, other, reflected):
        return SBool(ctx.bool('cmp', report=False))

    def getitem(self, ctx, idx):
        return Fl()

    def havoc(self, ctx, name):
        return Fl()

    def truth(self, ctx):
        raise Unsupported('truth of a float array')


class SharedArr(Sym):
    """parallel.shempty(...): every store is recorded; other processes may have stored into it too"""

    def __init__(self, S, name):
        self.S, self.name = S, name
        self.writes = []

    def setitem(self, ctx, idx, value):
        self.writes.append((idx, value))

    def contains(self, ctx, item):
        if not (isinstance(item, int) and item == -1):
            raise Unsupported('membership test on the shared array for something other than -1')
        mine = [zint(v) == -1 for _, v in self.writes if isinstance(v, (int, SInt))]
        return SBool(z3.Or(self.S.others_missing, *mine))

    def compare(self, ctx, op, other, reflected):
        return Fl()

    def getitem(self, ctx, idx):
        self.S.reads.append((self.name, idx))
        return Fl()

    def truth(self, ctx):
        raise Unsupported('truth of an array')


class Locate(InProc, Contract):
    prop = PROP
    fn = 'topology:Topology._locate'

    def __init__(self, nclaimed, nelems):
        from pyvc.interp import Loop
        self.nclaimed, self.nelems = nclaimed, nelems
        self.label = '%d-points-claimed|%d-elements' % (nclaimed, nelems)
        self.bounded = 'this process claims %d point indices from the shared range; the topology has %d elements (candidate loop unrolled); maxdist is None' % (nclaimed, nelems)
        self.loops = {0: Loop(lambda cx, env: z3.BoolVal(True), match='while ex > tol', label='newton')}
        self.expect_return = True

    def setup(self, cx):
        concrete_format_hooks(cx)
        npoints = cx.int('npoints')
        ks = [cx.int('claimed%d' % i) for i in range(self.nclaimed)]
        for a, b in zip([-1] + ks, ks):  # parallel.range.__next__ (contracts/C16.py) hands out increasing indices below stop
            cx.assume(z3.And(b > a, b < npoints))
        skip, others = cx.bool('skip_missing'), cx.bool('another_process_marked_a_point_missing')
        ndims, gdims, maxiter = cx.int('ndims'), cx.int('geom_dims'), cx.int('maxiter')
        cx.assume(z3.And(ndims >= 1, gdims >= ndims))  # checked by Topology.locate before it calls _locate
        S = State(npoints=npoints, ks=ks, skip=skip, others_missing=others, reads=[], handed=[], skipped=[], iterations=[], events=[])
        S.ielems, S.points = SharedArr(S, 'ielems'), SharedArr(S, 'points')
        allocs = []

        def shempty(ctx, shape, dtype=None):
            a = (S.ielems, S.points)[len(allocs)] if len(allocs) < 2 else _unsupported('a third shared array')
            allocs.append((a, shape))
            return a

        class Claims:
            """the shared range seen from this process: the indices it claims, one per next(); lazily consumed"""

            def __init__(s, nested=False):
                s.nested = nested

            def sym_iterate(s, ctx):
                # the first `for ... in ipoints` is the loop over the points; a later one (inside it) consumes what is left
                S.iterations.append(len(S.iterations))
                return Claims(nested=len(S.iterations) > 1)

            def __iter__(s):
                return s

            def __next__(s):
                n = len(S.handed) + len(S.skipped)
                if n >= len(S.ks):
                    raise StopIteration
                k = SInt(S.ks[n])
                (S.skipped if s.nested else S.handed).append(k)
                S.events.append(('skip' if s.nested else 'claim', n))
                return k

        class RangeCM(Sym):
            def sym_enter(s, ctx):
                S.events.append(('enter',))
                return Claims()

            def sym_exit(s, ctx):
                S.events.append(('exit',))

        def ctxrange(ctx, name, n):
            S.range_len = n
            return RangeCM()

        def solve(ctx, A, b):
            if ctx.branch(ctx.bool('singular', report=False)):
                raise PyRaise('LinAlgError')
            return Fl()
        refs = [SObj('Reference', attrs=dict(centroid=Fl()), methods=dict(inside=lambda ctx, s, p, tol: SBool(ctx.bool('inside', report=False)))) for _ in range(self.nelems)]
        centroids = SObj('ndarray', methods={'__len__': lambda ctx, s: self.nelems})
        centroids.length = lambda ctx: self.nelems
        centroids.binop = lambda ctx, op, other, reflected: Fl()
        sample = SObj('Sample', methods=dict(eval=lambda ctx, s, *a, **k: centroids))
        me = SObj('Topology', attrs=dict(ndims=SInt(ndims), references=refs), methods=dict(sample=lambda ctx, s, *a: sample, _lower_args=lambda ctx, s, *a: SOpaque('lower-args')))
        me.length = lambda ctx: self.nelems
        geom = SObj('Array', attrs=dict(shape=(SInt(gdims),)), methods=dict(lower=lambda ctx, s, a: SOpaque('egeom')))
        coords = SObj('ndarray', methods={})
        coords.length = lambda ctx: SInt(npoints)
        coords.getitem = lambda ctx, idx: Fl()
        S.arguments = {}
        xJ = lambda ctx, args: (Fl(), Fl())
        numpy_ = NS(linalg=NS(solve=solve, lstsq=lambda ctx, A, b, rcond=None: (solve(ctx, A, b),), norm=lambda ctx, x, axis=None: Fl(), LinAlgError=ClassRef('LinAlgError')),
                    argsort=lambda ctx, d: list(range(self.nelems)), array=lambda ctx, x: Fl(), inf=Fl())
        S.globals = {'parallel': NS(shempty=shempty, ctxrange=ctxrange), 'numpy': numpy_, 'max': lambda ctx, *a: Fl(),
                     'evaluable': NS(InRange=lambda ctx, *a: SOpaque('InRange'), Argument=lambda ctx, *a, **k: SOpaque('Argument'), constant=lambda ctx, v: SOpaque('constant'),
                                     compile=lambda ctx, fs, stats=None: xJ, derivative=lambda ctx, f, v: SOpaque('derivative'))}
        S.allocs = allocs
        S.args = (me, geom, coords, Fl(), Fl(), S.arguments, SInt(maxiter), None, SBool(skip))
        return S

    def bookkeeping(self, S):
        """each claimed index written exactly once into ielems, in order; coordinates stored exactly for the located ones"""
        B = z3.BoolVal
        wi, wp = S.ielems.writes, S.points.writes
        n = len(S.handed)
        once = len(wi) == n and all(isinstance(i, SInt) and z3.eq(i.v, k.v) for (i, _), k in zip(wi, S.handed))
        values = once and all((isinstance(v, int) and not isinstance(v, bool) and (v == -1 or 0 <= v < self.nelems)) for _, v in wi)
        located = [k for (i, v), k in zip(wi, S.handed) if v != -1] if values else None
        coords = values and len(wp) == len(located) and all(isinstance(i, SInt) and z3.eq(i.v, k.v) for (i, _), k in zip(wp, located))
        missing = values and any(v == -1 for _, v in wi)
        shapes = len(S.allocs) == 2 and getattr(S, 'range_len', None) is not None
        return once, values, coords, missing, shapes

    def ensures(self, cx, S, result):
        B = z3.BoolVal
        once, values, coords, missing, shapes = self.bookkeeping(S)
        return [('every-claimed-point-is-written-exactly-once-and-nothing-else', B(bool(once))),
                ('stored-element-is-a-candidate-or-the-missing-mark', B(bool(values))),
                ('coordinates-stored-exactly-for-the-located-points', B(bool(coords))),
                ('returns-normally-only-if-no-point-is-missing-or-skip_missing', z3.Implies(z3.Or(B(bool(missing)), S.others_missing), S.skip)),
                ('all-claimed-points-were-processed', B(len(S.handed) == len(S.ks) and not S.skipped)),
                ('shared-arrays-and-range-set-up-before-the-loop', B(bool(shapes) and S.events[:1] == [('enter',)] and S.events[-1:] == [('exit',)]))]

    def raises(self, cx, S, e):
        B = z3.BoolVal
        if e.exc.split(':')[0] == 'LocateError':
            once, values, coords, missing, shapes = self.bookkeeping(S)
            # points skipped by the fast-forward after a failure are never written: fine, since the call raises
            return z3.And(z3.Not(S.skip), z3.Or(B(bool(missing)), S.others_missing), B(bool(once and values and coords)), B(S.events[-1:] == [('exit',)]), B(not S.skipped or bool(missing)))
        return False

    def replay(self, ob):
        return _native('run_locate(%r)' % ob.clause)


def locate_contracts():
    return [Locate(1, 1), Locate(1, 2), Locate(2, 1)]


def contracts():
    return alloc_contracts() + emit_contracts() + loopgen_contracts() + printer_contracts() + locate_contracts()


def extra_obligations(tier, seed):
    """ground self-check of the block-id order used in the contracts: lex_gt / in_scope agree with Python's own tuple comparison on every
    pair of ids of length <= 3 with entries < 3 (the axiom is also cross-checked natively, native/axioms.py)"""
    from pyvc.inproc import decide_in_process
    ids = [t for n in (1, 2, 3) for t in itertools.product(range(3), repeat=n)]
    bad = []
    for a in ids:
        for b in ids:
            if z3.is_true(z3.simplify(lex_gt(a, b))) != (a > b) or z3.is_true(z3.simplify(lex_eq(a, b))) != (a == b):
                bad.append((a, b))
            scope = len(a) <= len(b) and a <= b and a[:-1] == b[:len(a) - 1]
            if z3.is_true(z3.simplify(in_scope(a, b))) != scope:
                bad.append(('in_scope', a, b))
    ob = Obligation('C16/evaluable:_BlockTreeBuilder.get_block_id/block-id-order', [], z3.BoolVal(not bad), 'ground', fn='evaluable:_BlockTreeBuilder.get_block_id',
                    clause='contract-side-order-and-scope-agree-with-python-tuples', info={'pairs': len(ids) ** 2, 'disagreements': bad[:5]})
    decide_in_process(ob)
    return [ob]


TRUSTED = ['Python orders tuples of ints lexicographically and builtins.max/min return the first extremal element (model `lexmax`; cross-checked in native/axioms.py and by a ground obligation); sorted() with concrete keys is Python\'s own sorted',
           "str.format / f-strings with concrete int/str parts give the concrete string ('v{}'.format(7) == 'v7'); _pyast.Variable is a frozen dataclass: equal and hashed by name",
           '_pyast constructors as tagged nodes (Block, CommentBlock, With, Assign, ... keep their children in order) in the builder/compile contracts; that these nodes PRINT as nested text is the printer contract; _pyast expression .variables = the Variables below it (frame check in C16.py)',
           'printer: CPython\'s parser (ast.parse, tokenize) is the reader of the generated text; expression texts (py_expr) are opaque one-line tokens that the printer never inspects (an inspection is outside the model = undecided)',
           '_locate: floating point values are opaque (every comparison may come out either way, numpy.linalg.solve may raise LinAlgError), evaluable.compile/lower/sample are opaque; parallel.shempty arrays record their stores; `-1 in ielems` is true iff this process stored -1 or another process did (symbolic)']
ASSUMPTIONS = ['BOUNDED new_empty_array_for_evaluable: loop depth <= 2 (block ids of length <= 3), array rank <= 2, block-id entries symbolic non-negative ints',
               'every shape entry of the array is in scope at the block of the array (get_block_id\'s scope assertion: not later, and in an enclosing loop nest); `_origin` is None and `_stats` is falsy (parallel compiles never collect stats: compile_parallel = ... and not stats)',
               'one other shared array (v3 -> lock3) is registered beforehand and an earlier rank-0 array outside every loop has been placed by the same real code; evaluable indices are handed out by a counter (itertools.count) and are therefore distinct',
               'BOUNDED emitters: operands over two shared variables with distinct locks and one private variable (array_add_at: at most 3 variable occurrences in total)',
               'BOUNDED compile() loop generation: five fixed loop nests (depth <= 3); maxprocs >= 1 (parallel.maxprocs contract) and stats are symbolic; builder.compile(length)/new_var are stubs handing out distinct tokens',
               'BOUNDED printer: 81 two-level nestings of With/With-as/With-omit/If/If-else/ForLoop/CommentBlock/Block with statements before, between and after, and 13 special trees (empty bodies, omit_if_body_is_empty, single-line comments, the lock pattern); nodes are built field by field (If.else_body defaults to an empty Block as in If.__init__)',
               'BOUNDED _locate: this process claims 1 or 2 increasing point indices from the shared range (parallel.range.__next__ contract), 1 or 2 candidate elements, maxdist is None; geom.shape[0] >= ndims (checked by Topology.locate); the Newton loop is cut by the trivial invariant (nothing is claimed about convergence)']
NOT_COVERED = ['that every writer into a shared array goes through the _BlockBuilder of the evaluable that allocated it: _shared_arrays is PER _BlockTreeBuilder instance (one per origin evaluable), so statements of OTHER evaluables that read a shared array are not locked -- they are safe only because they are placed after the loop that writes (block order), which is not under contract',
               'that `out` is only written at block ids >= the returned out_block_id (the _compile_with_out methods of the array classes); get_block_id itself and _define_loop_block_structure',
               'a global acquisition ORDER of the locks: _iter_locks follows argument order and frozenset iteration order, two statements may take the same two locks in opposite orders (deadlock freedom is an interleaving property; see notes/C16-c16.md)',
               'the rest of compile() (cache_const_intermediates filtering, stats wrapper, script assembly `\\n    `.join(lines)); Global statements; _pyast expression printing (py_expr of Call/GetItem/...)',
               '_locate with maxdist, the Newton iteration itself, Topology.locate/_sample, the StructuredTopology fast path; interleavings of several processes storing into ielems/points (each index is stored by the one process that claimed it: composition with range.__next__, meta)']


def install(g):
    """called at the end of contracts/C16.py: append these contracts, obligations and lists to the property module"""
    base_contracts, base_extra = g['contracts'], g.get('extra_obligations')

    def contracts_():
        return base_contracts() + contracts()

    def extra_(tier, seed):
        r = base_extra(tier, seed) if base_extra else {'obligations': [], 'summary': ''}
        mine = extra_obligations(tier, seed)
        if mine:
            r['obligations'] = list(r.get('obligations', [])) + mine
            r['summary'] = (r.get('summary', '') + '; C16b ground obligations: %d' % len(mine)).strip('; ')
        return r
    g['contracts'], g['extra_obligations'] = contracts_, extra_
    g['TRUSTED'].extend(TRUSTED)
    g['ASSUMPTIONS'].extend(ASSUMPTIONS)
    g['NOT_COVERED'][:] = [x for x in g['NOT_COVERED'] if 'new_empty_array_for_evaluable placement logic' not in x] + NOT_COVERED
