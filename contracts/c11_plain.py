"""C11: PlainTransforms (lookup through the id()-sorted object array + searchsorted), EmptyTransforms, and the base-class helpers
Transforms.index / contains / contains_with_tail.

PlainTransforms -- BOUNDED structure: three transforms of lengths 2, 1, 3 (heads of different lengths), each of the 6 possible orders of their
id-tuples in `_sorted` (= each possible `_indices`), user tails of 0 and 2 items.  Symbolic: every item id (items may be shared between
transforms: equal ids), the element index, the ids of the tail items.  Real bodies: __getitem__, __len__, index_with_tail, numeric.normdim.
Class invariants assumed (established by the constructor and the documented precondition of Transforms): `_sorted[s]` is the id-tuple of
`_transforms[_indices[s]]`, `_sorted` is lexicographically increasing, no transform is a head of another one.

Local models: id() = an integer per object (the tail items get unconstrained ids); tuples of ids are compared lexicographically (Python tuple order);
numpy.searchsorted(sorted object array, x, side) = number of entries <= x (right) / < x (left) -- the searchsorted axiom specialised to a concrete
length; numpy.empty((), object) with `a[()] = x`; transform.promote(element + tail, fromdims) == element + NF(tail) (A-NF-P: the elements are canonical
-- asserted by the constructor -- and end in fromdims, so promote leaves them in place and rewrites only the tail).
"""
import itertools
import z3
from pyvc.contract import Contract, State
from pyvc.values import SInt, SBool, SObj, Sym, Unsupported, PyRaise, zint, is_intlike
from pyvc import ops
from contracts.C13 import InlineFn

PROP = 'C11'
I = z3.IntSort()


class PItem(Sym):
    """item `pos` of transform k of the sequence (an interned TransformItem object with address `idterm`)"""

    def __init__(self, k, pos, idterm):
        self.k, self.pos, self.idterm = k, pos, idterm

    def truth(self, ctx):
        return True

    def compare(self, ctx, op, other, reflected):
        if op in ('==', '!='):
            if isinstance(other, PItem):
                e = self.idterm == other.idterm
                return SBool(e if op == '==' else z3.Not(e))
            raise Unsupported('comparison of a sequence item with %r' % (other,))
        return NotImplemented


class NFP(Sym):
    """a tail item as rewritten by promote (equivalent remainder); its address is unconstrained"""

    def __init__(self, x):
        self.x = x

    def compare(self, ctx, op, other, reflected):
        if op in ('==', '!=') and isinstance(other, NFP):
            r = ops.compare(ctx, '==', self.x, other.x)
            return r if op == '==' else ops.unop(ctx, 'not', r)
        return NotImplemented


class ObjScalar(Sym):
    """numpy.empty((), dtype=object)"""

    def __init__(self):
        self.value = None

    def setitem(self, ctx, idx, value):
        if idx != ():
            raise Unsupported('0-d object array store at %r' % (idx,))
        self.value = value

    def getitem(self, ctx, idx):
        if idx != ():
            raise Unsupported('0-d object array subscript %r' % (idx,))
        return self.value


def zi(x):
    return x if z3.is_expr(x) else zint(x)


def lexlt(a, b):
    if not b:
        return z3.BoolVal(False)
    if not a:
        return z3.BoolVal(True)
    return z3.Or(zi(a[0]) < zi(b[0]), z3.And(zi(a[0]) == zi(b[0]), lexlt(a[1:], b[1:])))


def lexle(a, b):
    return z3.Not(lexlt(b, a))


def isprefix(a, b):
    if len(a) > len(b):
        return z3.BoolVal(False)
    return z3.And(*[zi(x) == zi(y) for x, y in zip(a, b)]) if a else z3.BoolVal(True)


class NumpyObj:
    def sym_getattr(self, ctx, name):
        if name == 'empty':
            def empty(ctx, shape, dtype=None):
                if shape != ():
                    raise Unsupported('numpy.empty(%r)' % (shape,))
                return ObjScalar()
            return empty
        if name == 'searchsorted':
            def searchsorted(ctx, a, v, side='left'):
                if not (isinstance(a, tuple) and isinstance(v, ObjScalar) and isinstance(v.value, tuple) and side in ('left', 'right')):
                    raise Unsupported('numpy.searchsorted(%r, %r, %r)' % (a, v, side))
                ctx.used_axioms.add('numpy.searchsorted(a, x, side) on a sorted object array of tuples: the number of entries <= x (right) / < x (left) in Python tuple order')
                n = z3.IntVal(0)
                for e in a:
                    n = n + z3.If(lexle(e, v.value) if side == 'right' else lexlt(e, v.value), 1, 0)
                return SInt(n)
            return searchsorted
        raise Unsupported('numpy.' + name)


idf = z3.Function('id.of-tail-item', z3.DeclareSort('TransformItem'), I)
idnf = z3.Function('id.of-rewritten-tail-item', z3.DeclareSort('TransformItem'), I)


def id_model(ctx, x):
    ctx.used_axioms.add('id(): one integer per object; interned items: the same item is the same object')
    if isinstance(x, PItem):
        return SInt(x.idterm)
    if isinstance(x, NFP):
        return SInt(idnf(x.x.term))
    if hasattr(x, 'term'):
        return SInt(idf(x.term))
    raise Unsupported('id(%r)' % (x,))


A_NF_P = ('A-NF-P: transform.promote(element + tail, fromdims) == element + NF(tail) for a canonical element ending in fromdims '
          '(the constructor asserts iscanonical; promote = canonical(head) + uppermost(rest))')


class TransformP:
    def sym_getattr(self, ctx, name):
        if name == 'promote':
            def promote(ctx, chain, ndims):
                chain = tuple(chain)
                k = 0
                while k < len(chain) and isinstance(chain[k], PItem):
                    k += 1
                if k == 0 or any(isinstance(x, (PItem, NFP)) for x in chain[k:]):
                    raise Unsupported('promote of %r' % (chain,))
                ctx.used_axioms.add(A_NF_P)
                return chain[:k] + tuple(NFP(x) for x in chain[k:])
            return promote
        raise Unsupported('transform.' + name)


class NumericP:
    def sym_getattr(self, ctx, name):
        if name == 'isint':
            return lambda ctx, x: isinstance(x, (int, SInt)) and not isinstance(x, bool)
        if name == 'normdim':
            return InlineFn('numeric:normdim', {'isint': lambda ctx, x: isinstance(x, (int, SInt)) and not isinstance(x, bool)})
        raise Unsupported('numeric.' + name)


LENGTHS = (2, 1, 3)


class PlainLookup(Contract):
    prop = PROP
    fn = 'transformseq:PlainTransforms.index_with_tail'

    def __init__(self, perm, taillen):
        self.perm, self.taillen = tuple(perm), taillen
        self.label = 'roundtrip,indices=%s,tail=%d' % (''.join(map(str, perm)), taillen)
        self.bounded = 'three transforms of 2, 1 and 3 items, _indices == %r, user tail of %d items; item ids, element index symbolic' % (list(perm), taillen)

    def setup(self, cx):
        from contracts.C11 import titem
        S = State()
        ids = [[cx.int('id(transforms[%d][%d])' % (k, p)) for p in range(n)] for k, n in enumerate(LENGTHS)]
        transforms = tuple(tuple(PItem(k, p, ids[k][p]) for p in range(n)) for k, n in enumerate(LENGTHS))
        srt = tuple(tuple(SInt(v) for v in ids[k]) for k in self.perm)
        for a, b in zip(srt, srt[1:]):
            cx.assume(lexlt(a, b))  # class invariant: _sorted = _sorted[argsort]
        for k, l in itertools.permutations(range(len(LENGTHS)), 2):
            cx.assume(z3.Not(isprefix(ids[k], ids[l])))  # documented precondition of Transforms: no transform starts with another one
        o = SObj('PlainTransforms', attrs=dict(_transforms=transforms, _sorted=srt, _indices=tuple(self.perm), fromdims=SInt(cx.int('fromdims')), todims=SInt(cx.int('todims'))))
        o.length = lambda ctx: InlineFn('transformseq:PlainTransforms.__len__')(ctx, o)
        i = cx.int('i')
        cx.assume(z3.And(0 <= i, i < len(LENGTHS)))
        S.self_, S.i, S.ids = o, i, ids
        S.tail = tuple(titem(cx, 'tail%d' % k) for k in range(self.taillen))
        S.globals = {'numeric': NumericP(), 'numpy': NumpyObj(), 'transform': TransformP(), 'id': id_model}
        return S

    def body(self, cx, S, call):
        x = call('transformseq:PlainTransforms.__getitem__', S.self_, SInt(S.i))
        S.elem = x
        return call('transformseq:PlainTransforms.index_with_tail', S.self_, x + S.tail)

    def ensures(self, cx, S, result):
        from contracts.C11 import same_tuple
        j, t = result
        x = S.elem
        iselem = z3.Or(*[z3.And(S.i == k, z3.BoolVal(isinstance(x, tuple) and len(x) == n and all(isinstance(v, PItem) and v.k == k and v.pos == p for p, v in enumerate(x))))
                         for k, n in enumerate(LENGTHS)])
        return [('index-recovered', zint(j) == S.i), ('tail-recovered', same_tuple(cx, t, tuple(NFP(v) for v in S.tail))), ('element-is-transforms[i]', iselem)]

    def replay(self, ob):
        return "import sys; sys.path.insert(0, %r)\nfrom native import c11\nc11.plain_roundtrip()\n" % _here()


class PlainForeign(Contract):
    """a chain none of whose heads is an element is rejected with ValueError (its first item is not the first item of any element)"""
    prop = PROP
    fn = 'transformseq:PlainTransforms.index_with_tail'
    expect_return = False

    def __init__(self, perm):
        self.perm = tuple(perm)
        self.label = 'foreign,indices=%s' % ''.join(map(str, perm))
        self.bounded = 'three transforms of 2, 1 and 3 items, _indices == %r; foreign chain of 2 items' % (list(perm),)

    def setup(self, cx):
        S = PlainLookup(self.perm, 0).setup(cx)
        f = [cx.int('id(foreign[%d])' % p) for p in range(2)]
        for k in range(len(LENGTHS)):
            cx.assume(z3.Not(isprefix(S.ids[k], f)))
        chain = tuple(PItem(-1, p, f[p]) for p in range(2))
        S.globals['transform'] = IdentityPromote()
        S.args = (S.self_, chain)
        return S

    def raises(self, cx, S, e):
        return e.exc == 'ValueError'

    def ensures(self, cx, S, result):
        return [('foreign-chain-is-rejected', z3.BoolVal(False))]

    def replay(self, ob):
        return "import sys; sys.path.insert(0, %r)\nfrom native import c11\nc11.plain_roundtrip()\n" % _here()


class IdentityPromote:
    def sym_getattr(self, ctx, name):
        if name == 'promote':
            def promote(ctx, chain, ndims):
                ctx.used_axioms.add('foreign chain: promote returns some chain none of whose heads is an element (here: the chain itself)')
                return tuple(chain)
            return promote
        raise Unsupported('transform.' + name)


def _here():
    import os
    return os.path.dirname(os.path.dirname(os.path.abspath(__file__)))


# ---------------------------------------------------------------------------------------------- EmptyTransforms --

class EmptyCase(Contract):
    prop = PROP

    def __init__(self, method, exc=None, value=None):
        self.fn = 'transformseq:EmptyTransforms.' + method
        self.method, self.exc, self.value = method, exc, value
        self.expect_return = exc is None

    def setup(self, cx):
        from contracts.C11 import titem
        o = SObj('EmptyTransforms', attrs=dict(todims=SInt(cx.int('todims')), fromdims=SInt(cx.int('fromdims'))))
        S = State()
        if self.method == '__getitem__':
            S.args = (o, SInt(cx.int('index')))
        elif self.method == '__len__':
            S.args = (o,)
        else:
            S.args = (o, (titem(cx, 'item0'), titem(cx, 'item1')))
        S.globals = {'numeric': NumericP()}
        return S

    def raises(self, cx, S, e):
        return self.exc is not None and e.exc == self.exc

    def ensures(self, cx, S, result):
        if self.exc is not None:
            return [('empty-sequence-has-no-element', z3.BoolVal(False))]
        ok = (result == self.value and type(result) == type(self.value))
        return [('empty-sequence-has-no-element', z3.BoolVal(bool(ok)))]

    def replay(self, ob):
        return "import sys; sys.path.insert(0, %r)\nfrom native import c11\nc11.empty_transforms()\n" % _here()


# ------------------------------------------------------------------- Transforms.index / contains / contains_with_tail --

class BaseHelper(Contract):
    """index(t) == i iff index_with_tail(t) == (i, ()) else ValueError; contains(t) / contains_with_tail(t) == "index / index_with_tail returns".
    self.index_with_tail is abstract: it returns (k, tail) with tail one of (), (item,) or raises ValueError (three scenarios)."""
    prop = PROP

    def __init__(self, method, scenario):
        self.fn = 'transformseq:Transforms.' + method
        self.method, self.scenario = method, scenario
        self.label = scenario
        self.expect_return = not (method == 'index' and scenario != 'found')

    def setup(self, cx):
        from contracts.C11 import titem
        S = State()
        k = cx.int('k')
        S.k = k
        item = titem(cx, 'item')
        trans = (titem(cx, 'head'), item) if self.scenario == 'found-with-tail' else (titem(cx, 'head'),)
        S.calls = []

        def iwt(ctx, s, t):
            S.calls.append(t)
            if self.scenario == 'not-found':
                raise PyRaise('ValueError')
            return SInt(k), (item,) if self.scenario == 'found-with-tail' else ()
        o = SObj('Transforms', methods={'index_with_tail': iwt})
        o.methods['index'] = InlineFn('transformseq:Transforms.index')
        S.trans = trans
        S.args = (o, trans)
        S.globals = {}
        return S

    def raises(self, cx, S, e):
        return self.method == 'index' and self.scenario != 'found' and e.exc == 'ValueError'

    def ensures(self, cx, S, result):
        asked = len(S.calls) >= 1 and all(c is S.trans for c in S.calls)
        if self.method == 'index':
            if self.scenario != 'found':
                return [('index-only-for-exact-elements', z3.BoolVal(False))]
            return [('index-is-the-lookup-index', z3.And(z3.BoolVal(asked and is_intlike(result)), zint(result) == S.k))]
        want = {'contains': self.scenario == 'found', 'contains_with_tail': self.scenario != 'not-found'}[self.method]
        return [('answer-is-whether-the-lookup-succeeds', z3.BoolVal(asked and isinstance(result, bool) and result == want))]

    def replay(self, ob):
        return "import sys; sys.path.insert(0, %r)\nfrom native import c11\nc11.base_helpers()\n" % _here()


def contracts():
    cs = []
    perms = list(itertools.permutations(range(3)))
    for p in perms:
        cs.append(PlainLookup(p, 2))
    cs += [PlainLookup(perms[0], 0), PlainLookup(perms[4], 0)]
    cs += [PlainForeign(perms[1]), PlainForeign(perms[3])]
    cs += [EmptyCase('__getitem__', exc='IndexError'), EmptyCase('__len__', value=0), EmptyCase('index_with_tail', exc='ValueError'), EmptyCase('index', exc='ValueError'),
           EmptyCase('contains', value=False), EmptyCase('contains_with_tail', value=False)]
    for m in ('index', 'contains', 'contains_with_tail'):
        for sc in ('found', 'found-with-tail', 'not-found'):
            cs.append(BaseHelper(m, sc))
    return cs
