"""matrix.assemble_block_csr (registered under C15; bounded in the size of the block grid).

Input: a grid of CSR blocks (values V, rowptr P, colidx J, ncols w), grid shape fixed per scenario, block contents symbolic arrays of
symbolic length, every block well-formed (WF of contracts/C15.py).  With, for block row r and block c in it,
    nrows_r = len(P_r0) - 1,  RO_r = nrows_0 + .. + nrows_{r-1},  CO_rc = w_r0 + .. + w_r(c-1),  base_r = number of entries of the block rows before r,
the (values VAL, rowptr RP, colidx COL, ncols) handed to assemble_csr satisfy

  shape            len(RP) = 1 + sum_r nrows_r, ncols = sum_c w_0c
  rowptr[r]        RP[RO_r + t] = base_r + sum_c P_rc[t]                       (0 <= t <= nrows_r)
  entries[r,c]     entry k of row t of block (r,c) (P_rc[t] <= k < P_rc[t+1]) sits at position
                   RP[RO_r+t] + sum_{c'<c} (P_rc'[t+1] - P_rc'[t]) + k - P_rc[t]  with value V_rc[k] and column J_rc[k] + CO_rc
  csr:*            the seven WF clauses (so assemble_csr accepts: by its contract it raises MatrixError iff not WF)
  input-consistent a normal return happens only for consistent input; AssertionError only for inconsistent input
                   (row sizes within a block row, column sizes of the block rows, dtypes); nothing else is raised.

rowptr[r] and entries[r,c] determine the assembled triple completely (the segments of the blocks tile every row).
Proof structure: the row loop `for irow in range(nrows)` carries these clauses restricted to the rows done so far as its invariant
(plus the two facts needed for WF: column range and strict increase within the finished rows); at the call of assemble_csr / empty a
chain of lemmas restates them per block row on the final arrays, then the WF clauses follow by a case split over the block rows.
The lists `values`, `colidx` (lists of arrays) and `rowptr` (list of ints) are append-only symbolic lists (pyvc/chunks.py).
"""
import z3
from pyvc.contract import Contract, State
from pyvc.values import SInt, SOpaque, PyRaise, Unsupported, zint, Sym
from pyvc.nparr import Vec, Numpy, DType, qforall, eq_elem
from pyvc.interp import Loop
from pyvc import chunks, npext

PROP = 'C15'


InputVec = chunks.InputVec


_qa = [0]


def _mentions(e, vs):
    if any(e.eq(v) for v in vs):
        return True
    return any(_mentions(c, vs) for c in e.children())


def QA(nvars, body, pats=None, force=False):
    """qforall with an explicit E-matching multi-pattern when every pattern term is a plain array read A[v] at a bound variable
    (clean reads: loop-head arrays, argument arrays); otherwise the solver chooses."""
    from pyvc import nparr
    if nparr.BOUND is not None or pats is None:
        return qforall(nvars, body)
    _qa[0] += 1
    vs = [z3.Int('a%d!%d' % (_qa[0], k)) for k in range(nvars)]
    ts = [t[0] if isinstance(t, tuple) else t for t in pats(*vs)]
    clean = all(z3.is_app(t) and t.decl().kind() == z3.Z3_OP_SELECT and not _mentions(t.arg(0), vs) and any(t.arg(1).eq(v) for v in vs) for t in ts)
    covered = all(any(t.arg(1).eq(v) for t in ts) for v in vs) if clean else False
    if (force or (clean and covered)) and not any(_has_ite(t) for t in ts):
        try:
            return z3.ForAll(vs, body(*vs), patterns=[z3.MultiPattern(*ts) if len(ts) > 1 else ts[0]])
        except z3.Z3Exception:
            pass
    return z3.ForAll(vs, body(*vs))


def _has_ite(e):
    if z3.is_app(e) and e.decl().kind() == z3.Z3_OP_ITE:
        return True
    return any(_has_ite(c) for c in e.children())


def _sum(xs):
    r = z3.IntVal(0)
    for x in xs:
        r = r + x
    return z3.simplify(r)


def _wf():
    from contracts import C15
    return C15.WF_clauses


class Row:
    """Specification quantities of one block row."""

    def __init__(self, r, cols, RO, base):
        self.r, self.cols, self.RO, self.base = r, cols, RO, base
        self.nrows = cols[0]['P'].n - 1
        self.width = _sum([c['w'] for c in cols])
        self.nnz = _sum([c['V'].n for c in cols])

    def A(self, RP, upto):
        RO, base, cols = self.RO, self.base, self.cols
        return QA(1, lambda p: z3.Implies(z3.And(RO <= p, p <= RO + upto), RP.sel(p) == base + _sum_t([c['P'].sel(p - RO) for c in cols])), lambda p: [RP.sel(p)])

    def pos(self, RP, ci, p, k):
        RO = self.RO
        off = z3.IntVal(0)
        for c in self.cols[:ci]:
            off = off + (c['P'].sel(p - RO + 1) - c['P'].sel(p - RO))
        return RP.sel(p) + off + k - self.cols[ci]['P'].sel(p - RO)

    def F(self, ci, VAL, RP, COL, upto, top, lo=0):
        RO, c = self.RO, self.cols[ci]
        V, P, J, CO = c['V'], c['P'], c['J'], c['CO']

        def body(p, k):
            q = self.pos(RP, ci, p, k)
            return z3.Implies(z3.And(RO + lo <= p, p < RO + upto, P.sel(p - RO) <= k, k < P.sel(p - RO + 1)),
                              z3.And(RP.sel(p) <= q, q < RP.sel(p + 1), q < top, eq_elem(V.kind, VAL.sel(q), V.sel(k)), COL.sel(q) == J.sel(k) + CO))
        return QA(2, body, lambda p, k: [P.sel(p - RO), V.sel(k)], force=True)

    def H(self, RP, COL, upto, lo=0):
        RO = self.RO
        return QA(2, lambda p, q: z3.Implies(z3.And(RO + lo <= p, p < RO + upto, RP.sel(p) <= q, q + 1 < RP.sel(p + 1)), COL.sel(q) < COL.sel(q + 1)), lambda p, q: [RP.sel(p), COL.sel(q)])

    def M(self, RP, upto, top):
        RO = self.RO
        return QA(1, lambda p: z3.Implies(z3.And(RO <= p, p <= RO + upto), z3.And(self.base <= RP.sel(p), RP.sel(p) <= top)), lambda p: [RP.sel(p)])

    def G(self, COL, ncols, lo, hi):
        return qforall(1, lambda q: z3.Implies(z3.And(lo <= q, q < hi), z3.And(0 <= COL.sel(q), COL.sel(q) < ncols)))


def _sum_t(xs):
    r = xs[0]
    for x in xs[1:]:
        r = r + x
    return r


class BlockCSR(Contract):
    prop = PROP
    fn = 'matrix/__init__:assemble_block_csr'
    split_conjunctions = True
    max_paths = 400
    sym_unpack = True  # `i, j = block_rowptr[irow:irow+2]`: fork on the length of the slice (ValueError unless it is 2)

    def __init__(self, grid, kinds=None):
        self.grid = tuple(grid)
        self.kinds = kinds
        self.label = 'grid-' + ('%dx%d' % (len(grid), grid[0]) if len(set(grid)) == 1 else '+'.join(str(n) for n in grid)) + ('-dtype-mismatch' if kinds else '')
        self.bounded = 'block grid with %d block row(s) of %s block(s); block contents are symbolic arrays of symbolic length' % (len(grid), '/'.join(str(n) for n in grid))
        if kinds:
            self.expect_return = False
        self.loops = {0: Loop(self.inv, label='rows', match='in range(nrows)',
                              on_body=self.on_body, on_exit=self.on_exit)}
        self.local_repr = {'values': self.repr_values, 'colidx': self.repr_colidx, 'rowptr': self.repr_rowptr}

    # ---- representation of the three growing lists
    def repr_values(self, cx, v):
        if isinstance(v, list):
            v = self.S.lists['values'] = chunks.ChunkList.of_list(cx, v, self.S.kind, 'values')
        return v

    def repr_colidx(self, cx, v):
        if isinstance(v, list):
            v = self.S.lists['colidx'] = chunks.ChunkList.of_list(cx, v, 'int', 'colidx')
        return v

    def repr_rowptr(self, cx, v):
        if isinstance(v, list):
            v = self.S.lists['rowptr'] = chunks.IntList.of_list(cx, v, 'rowptr')
        return v

    def lf(self):
        """definitions / frame facts of the three growing lists (hypotheses of the path)"""
        return [f for l in self.S.lists.values() for f in l.facts]

    # ---- inputs
    def setup(self, cx):
        WF_clauses = _wf()
        S = State(received=None, rowfacts={}, zero={}, entry=None, how=None, lists={})
        self.S = S
        blocks, rows = [], []
        RO, base = z3.IntVal(0), z3.IntVal(0)
        for r, nc in enumerate(self.grid):
            row, cols, CO = [], [], z3.IntVal(0)
            for c in range(nc):
                tag = '%d%d' % (r, c)
                kind = self.kinds[r][c] if self.kinds else 'fp'
                V = Vec.fresh(cx, 'values' + tag, kind)
                P = Vec.fresh(cx, 'rowptr' + tag, 'int')
                J = Vec.fresh(cx, 'colidx' + tag, 'int')
                for v in (V, P, J):
                    v.__class__ = InputVec
                w = cx.int('ncols' + tag)
                cx.assume(w >= 0)
                wf = WF_clauses(V.n, P, J, w)
                for nm, f in wf:
                    cx.assume(f)
                adj = dict(wf)['rowptr-monotone']
                trans = qforall(2, lambda i, j, P=P: z3.Implies(z3.And(0 <= i, i <= j, j < P.n), P.sel(i) <= P.sel(j)))
                mono = z3.Implies(adj, trans)
                cx.assume(mono, axiom='L-MONO: adjacent-monotone => monotone (lemmas/LMono.lean)')
                cols.append(dict(V=V, P=P, J=J, w=w, CO=z3.simplify(CO), wf=dict(wf), mono=mono, tag=tag))
                CO = CO + w
                row.append((V, P, J, SInt(w)))
            blocks.append(row)
            R = Row(r, cols, z3.simplify(RO), z3.simplify(base))
            rows.append(R)
            RO, base = RO + R.nrows, base + R.nnz
        S.blocks, S.rows, S.nrows_total, S.nnz_total = blocks, rows, z3.simplify(RO), z3.simplify(base)
        S.kind = blocks[0][0][0].kind
        S.ncols = rows[0].width
        S.consistent = z3.And(*([z3.BoolVal(all(b[0].kind == S.kind for row in blocks for b in row))] +
                                [c['P'].n - 1 == R.nrows for R in rows for c in R.cols[1:]] + [R.width == S.ncols for R in rows[1:]]))
        S.args = (blocks,)
        S.globals = {'numpy': Numpy(extra={'concatenate': chunks.np_concatenate}), 'assemble_csr': self.assemble_csr, 'empty': self.empty}
        return S

    # ---- the row loop
    def row_of_env(self, env):
        row = env.lookup('row')
        for R, b in zip(self.S.rows, self.S.blocks):
            if b is row:
                return R
        raise Unsupported('the row loop runs over something that is not a block row of the input')

    def zero_lemmas(self, cx, R):
        """An empty block (no values) of a well-formed grid has an all-zero row pointer."""
        for c in R.cols:
            if c['tag'] in self.S.zero:
                continue
            P, V = c['P'], c['V']
            f = z3.Implies(V.n == 0, qforall(1, lambda t: z3.Implies(z3.And(0 <= t, t < P.n), P.sel(t) == 0)))
            self.S.zero[c['tag']] = npext.lemma(cx, 'empty-block-has-zero-rowptr[%s]' % c['tag'], f, using=[c['mono'], c['wf']['rowptr-monotone']])

    def bf(self, R, *names):
        """Named facts about the blocks of block row R (hypotheses of every path)."""
        out = []
        for c in R.cols:
            for nm in names:
                if nm == 'mono':
                    out.append(c['mono'])
                elif nm == 'zero':
                    if c['tag'] in self.S.zero:
                        out.append(self.S.zero[c['tag']])
                else:
                    out.append(c['wf'][nm])
        return out

    STEP_HINTS = {
        'rowptr': (['rowptr'], ['zero']),
        'rowptr-bounds': (['rowptr-bounds'], ['rowptr-monotone', 'zero']),
        'entries': (['rowptr', 'rowptr-bounds'], ['rowptr-monotone', 'zero']),
        'colidx-range': (['colidx-range'], ['colidx-below-ncols', 'colidx-nonnegative', 'mono', 'rowptr-monotone']),
        'colidx-increasing': (['colidx-increasing', 'rowptr', 'rowptr-bounds'], ['colidx-strictly-increasing-per-row', 'colidx-below-ncols', 'colidx-nonnegative', 'rowptr-monotone', 'zero']),
    }

    def inv(self, cx, env, i):
        S = self.S
        R = self.row_of_env(env)
        values, colidx, rowptr = env.lookup('values'), env.lookup('colidx'), env.lookup('rowptr')
        ptr, ncols = zint(env.lookup('ptr')), zint(env.lookup('ncols'))
        nb = len(env.lookup('block_data'))
        if not (isinstance(values, chunks.ChunkList) and isinstance(colidx, chunks.ChunkList) and isinstance(rowptr, chunks.IntList)):
            raise Unsupported('values/colidx/rowptr are not the growing lists of the model')
        init = z3.is_int_value(i)
        if init:  # loop entry
            S.entry = dict(K=values.k, KC=colidx.k, r=R.r)
        E = S.entry
        VAL, COL = values.as_vec(), colidx.as_vec()
        parts = [('len(rowptr)', rowptr.n == R.RO + 1 + i),
                 ('ptr', ptr == R.base + _sum_t([c['P'].sel(i) for c in R.cols])),
                 ('len(values)', values.n == ptr), ('len(colidx)', colidx.n == ptr),
                 ('chunks(values)', values.k == E['K'] + i * nb), ('chunks(colidx)', colidx.k == E['KC'] + i * nb),
                 ('rowptr-last', rowptr.sel(R.RO + i) == ptr),
                 ('rowptr', R.A(rowptr, i)), ('rowptr-bounds', R.M(rowptr, i, ptr))]
        parts += [('entries[%d]' % ci, R.F(ci, VAL, rowptr, COL, i, ptr)) for ci in range(len(R.cols))]
        parts += [('colidx-range', R.G(COL, ncols, R.base, ptr)), ('colidx-increasing', R.H(rowptr, COL, i))]
        if cx.inv_mode == 'goal' and not init:
            # end of the loop body: each conjunct of the invariant for i+1 as a lemma proved from the conjuncts of the invariant for i
            # it needs, the facts about the blocks of this block row it needs, and the quantifier-free path facts (what the body
            # did); the engine's own `preserve` obligations then find their goals among the hypotheses
            old = S.inv_parts
            new = []
            # what the body left alone: the row pointers and the entries that existed at the head of this iteration
            o = S.inv_state
            keep1 = npext.lemma(cx, 'rows:step:rowptr-prefix-unchanged', QA(1, lambda p: z3.Implies(z3.And(0 <= p, p < o['RPn']), rowptr.sel(p) == o['RP'](p)), lambda p: [rowptr.sel(p)]),
                                using=self.lf(), flatten=True, skolemize=True)
            hk = self.lf() + self.bf(R, 'rowptr-monotone', 'mono', 'zero')
            keep2 = npext.lemma(cx, 'rows:step:values-prefix-unchanged', QA(1, lambda q: z3.Implies(z3.And(0 <= q, q < o['ptr']), eq_elem(VAL.kind, VAL.sel(q), o['VAL'](q))), lambda q: [VAL.sel(q)]),
                                using=hk, flatten=True, skolemize=True)
            keep3 = npext.lemma(cx, 'rows:step:colidx-prefix-unchanged', QA(1, lambda q: z3.Implies(z3.And(0 <= q, q < o['ptr']), COL.sel(q) == o['COL'](q)), lambda q: [COL.sel(q)]),
                                using=hk, flatten=True, skolemize=True)
            small = self.bf(R, 'mono', 'rowptr-monotone', 'zero')
            for nm, f in parts:
                key = nm.split('[')[0]
                if key in ('entries', 'colidx-increasing'):
                    # rows done before (unchanged prefix of the lists) and the row just appended, separately
                    if key == 'entries':
                        ci = int(nm[8:-1])
                        f_old, f_new = R.F(ci, VAL, rowptr, COL, i - 1, ptr), R.F(ci, VAL, rowptr, COL, i, ptr, lo=i - 1)
                        h_new = self.bf(R, 'rowptr-monotone', 'mono', 'zero')
                    else:
                        f_old, f_new = R.H(rowptr, COL, i - 1), R.H(rowptr, COL, i, lo=i - 1)
                        h_new = self.bf(R, 'colidx-strictly-increasing-per-row', 'colidx-below-ncols', 'colidx-nonnegative', 'rowptr-monotone', 'mono', 'zero')
                    if key == 'entries':
                        # quantifier-free: the instances of the old conjunct, of the three prefix lemmas and of the blocks'
                        # monotonicity at this row that the step needs, at the Skolem constants of the goal
                        def inst(p0, k0, ci=ci, nm=nm):
                            q0 = R.pos(rowptr, ci, p0, k0)
                            out = [(old[nm], (p0, k0)), (old['rowptr-bounds'], (p0,)), (old['rowptr-bounds'], (p0 + 1,)), (keep1, (p0,)), (keep1, (p0 + 1,)), (keep3, (q0,))]
                            out += [(x, (q0,)) for x in npext._flatten([keep2])]
                            out += [(c['wf']['rowptr-monotone'], (i - 1,)) for c in R.cols]
                            return out
                        a = npext.lemma(cx, 'rows:step:%s:rows-before' % nm, f_old, using=[], flatten=True, skolemize=True, instances=inst)
                    else:
                        a = npext.lemma(cx, 'rows:step:%s:rows-before' % nm, f_old, using=[old[nm], old['rowptr-bounds'], keep1, keep2, keep3] + self.bf(R, 'rowptr-monotone', 'zero'), flatten=True, skolemize=True)
                    b = npext.lemma(cx, 'rows:step:%s:new-row' % nm, f_new, using=h_new + [old['rowptr']] + self.lf(), flatten=True, skolemize=True)
                    # the two ranges together: quantifier-free, from the instances of both halves at the Skolem constants
                    new.append((nm, npext.lemma(cx, 'rows:step:' + nm, f, using=[], flatten=True, skolemize=True, instances=lambda *cs, a=a, b=b: [(a, cs), (b, cs)])))
                    continue
                elif key in self.STEP_HINTS:
                    a, b = self.STEP_HINTS[key]
                    hints = [old[x] for x in a] + self.bf(R, *b) + self.lf()
                else:
                    hints = small
                new.append((nm, npext.lemma(cx, 'rows:step:' + nm, f, using=hints, flatten=True, skolemize=True)))
            parts = new
        f = z3.And(*[g for _, g in parts])
        if cx.inv_mode == 'assume':
            S.inv_parts = dict(parts)
            S.inv_state = dict(RP=rowptr.as_fn() if hasattr(rowptr, 'as_fn') else rowptr._sel, RPn=rowptr.n, VAL=VAL._sel, COL=COL._sel, ptr=ptr)
        return f

    def on_body(self, cx, env, i):
        self.zero_lemmas(cx, self.row_of_env(env))

    def on_exit(self, cx, env, how):
        if how == 'guard':
            R = self.row_of_env(env)
            self.zero_lemmas(cx, R)
            self.S.rowfacts[R.r] = self.S.inv_parts

    # ---- callees
    def assemble_csr(self, ctx, values, rowptr, colidx, ncols):
        if not (isinstance(values, Vec) and isinstance(rowptr, Vec) and isinstance(colidx, Vec)):
            raise Unsupported('assemble_csr received non-array data: %r' % ((values, rowptr, colidx),))
        ctx.used_axioms.add('matrix.assemble_csr by its contract (contracts/C15.py AssembleCSR): accepts exactly well-formed CSR data; here its precondition WF is PROVED at the call')
        self.S.how = 'assemble_csr'
        self.chain(ctx, values, rowptr, colidx, zint(ncols))
        return SOpaque('Matrix')

    def empty(self, ctx, shape, dtype=float):
        """matrix.empty by its contract (contracts/C15.py Constructor('empty')): the all-zero CSR triple of that shape."""
        nrows, ncols = shape
        kind = dtype.k if isinstance(dtype, DType) else 'fp'
        n = zint(nrows)
        if not ctx.branch(n >= 0):
            raise PyRaise('ValueError', note='negative dimensions are not allowed')
        ctx.used_axioms.add("matrix.empty by its contract (contracts/C15.py Constructor('empty')): hands assemble_csr the CSR triple without entries of that shape")
        self.S.how = 'empty'
        self.chain(ctx, Vec.const(kind, 0, 0.0 if kind == 'fp' else 0), Vec.const('int', n + 1, 0), Vec.const('int', 0, 0), zint(ncols))
        return SOpaque('Matrix')

    def chain(self, ctx, VAL, RP, COL, ncols):
        S = self.S
        S.received = (VAL, RP, COL, ncols)
        S.clauses = []
        for R in S.rows:
            self.zero_lemmas(ctx, R)
        L = lambda name, f, using=None: S.clauses.append((name, npext.lemma(ctx, name, f, using=using, flatten=True, skolemize=True)))
        L('shape', z3.And(RP.n == 1 + S.nrows_total, ncols == S.ncols), using=[])
        L('kind-of-values', z3.BoolVal(VAL.kind == S.kind), using=[])
        done = []  # (A, M) of the block rows before
        glob = []
        for R in S.rows:
            # facts about block row r: conjuncts of the exit invariant of its row loop if it went through the loop (else the arrays
            # are closed forms in the block arrays), facts about its blocks, and rowptr/rowptr-bounds of the block row before
            X = S.rowfacts.get(R.r, {})
            ex = lambda *names: [X[n] for n in names if n in X]
            prev = done[-2:] + self.lf()
            L('rowptr[%d]' % R.r, R.A(RP, R.nrows), using=ex('rowptr') + self.bf(R, 'zero') + prev)
            a = S.clauses[-1][1]
            m = npext.lemma(ctx, 'rowptr-bounds[%d]' % R.r, R.M(RP, R.nrows, R.base + R.nnz), using=[a] + self.bf(R, 'mono', 'rowptr-monotone') + prev, flatten=True, skolemize=True)
            for ci in range(len(R.cols)):
                L('entries[%d,%d]' % (R.r, ci), R.F(ci, VAL, RP, COL, R.nrows, R.base + R.nnz), using=ex('entries[%d]' % ci, 'rowptr-bounds') + [a, m] + self.bf(R, 'rowptr-monotone', 'zero') + prev)
            g = npext.lemma(ctx, 'colidx-range[%d]' % R.r, R.G(COL, ncols, R.base, R.base + R.nnz),
                            using=ex('colidx-range') + [a, m] + self.bf(R, 'colidx-below-ncols', 'colidx-nonnegative', 'zero') + prev, flatten=True, skolemize=True)
            h = npext.lemma(ctx, 'colidx-increasing[%d]' % R.r, R.H(RP, COL, R.nrows),
                            using=ex('colidx-increasing', 'rowptr-bounds') + [a, m] + self.bf(R, 'colidx-strictly-increasing-per-row', 'rowptr-monotone', 'zero') + prev, flatten=True, skolemize=True)
            done += [a, m]
            glob.append((R, a, m, g, h))
        A_all = [x[1] for x in glob]
        mono_all = [f for R in S.rows for f in self.bf(R, 'rowptr-monotone')]
        hints = {'rowptr-nonempty': [], 'rowptr-starts-at-0': A_all[:1], 'rowptr-monotone': A_all + mono_all, 'rowptr-ends-at-nnz': A_all,
                 'colidx-below-ncols': [x[3] for x in glob], 'colidx-nonnegative': [x[3] for x in glob],
                 'colidx-strictly-increasing-per-row': [x[4] for x in glob] + A_all}
        for nm, f in _wf()(VAL.n, RP, COL, ncols):
            L('csr:' + nm, f, using=hints[nm])

    # ---- postconditions
    def ensures(self, cx, S, result):
        if S.received is None:
            raise Unsupported('assemble_block_csr returned without handing anything to assemble_csr / empty')
        return list(S.clauses) + [('input-consistent', S.consistent)]

    def raises(self, cx, S, e):
        if e.exc.split(':')[0] != 'AssertionError':
            return False
        return z3.Not(S.consistent)

    def replay(self, ob):
        import json, os
        here = os.path.dirname(os.path.dirname(os.path.abspath(__file__)))
        return ("import sys; sys.path.insert(0, %r)\nfrom native import c15c\nc15c.run_block(%r, %s, %r)\n"
                % (here, list(self.grid), json.dumps({k: v for k, v in (ob.model or {}).items() if not k.startswith('k!')}), ob.clause))


GRIDS = [(1,), (2,), (1, 1), (3,), (1, 1, 1), (2, 2)]


def contracts():
    return [BlockCSR(g) for g in GRIDS] + [BlockCSR((2,), kinds=[['fp', 'int']])]
