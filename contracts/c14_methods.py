"""C14, part 2 -- the solution METHODS (generators) and Direct: certificate pairing.

The assembly functions of the system are uninterpreted functions of an opaque vector x:
    R(args0, x) residual vector, J(args0, x) jacobian, VAL(args0, x) functional value, construct(args0, x) arguments.
All array arithmetic (x - dx, jac @ dx, dx * relax ...) is a deterministic uninterpreted function of its operands on one
sort of arrays (shapes are tracked exactly so that unpacking / broadcasting is decided, contents are not interpreted);
scalars are IEEE SFp values whose tag/payload are uninterpreted functions of the array term they were computed from.

Contract ("certificate pairing"): EVERY yielded / returned pair (arguments, resnorm) satisfies, for the SAME x,
    arguments == construct(args0, x)   and   resnorm == norm(R(args0, x))
(Direct: resnorm == norm(res - jac @ dx) with x = x0 - dx, dx = jac.solve(res): the linear residual at the returned x).
The `while True` loops are cut by invariants ("res == R(args0, x) and jac == J(args0, x)"); a yield inside such a loop
emits its obligations through the per-context yield hook of the engine (pyvc/interp.py: ex_Yield).
The line-search loops are left only by `break` on an accepted step (clause linesearch-exit) or by SolverError with
`relax <= failrelax` (raises clause); `assert scale < 1` is an obligation under the strategy's contract.
"""
import ast
import z3
from pyvc.contract import Contract, State
from pyvc.values import Sym, SBool, SInt, SObj, SOpaque, PyRaise, Unsupported, zbool, FIN, NAN, PINF
from pyvc.fp import SFp, fp_apply
from pyvc.interp import Loop
from pyvc.ops import ClassRef, ExcInstance

PROP = 'C14'
NUM = z3.DeclareSort('NumArray')
A0 = z3.DeclareSort('Args0')
ARGS = z3.DeclareSort('Arguments')
INT, REAL, BOOL = z3.IntSort(), z3.RealSort(), z3.BoolSort()

_FN = {}


def fn(name, *sorts):
    key = (name, tuple(str(s) for s in sorts))
    if key not in _FN:
        _FN[key] = z3.Function(name, *sorts)
    return _FN[key]


def Rf(a, x):
    return fn('R', A0, NUM, NUM)(a, x)


def Jf(a, x):
    return fn('J', A0, NUM, NUM)(a, x)


def Cf(a, x):
    return fn('construct', A0, NUM, ARGS)(a, x)


def VALf(a, x):
    return SFp(fn('value.t', A0, NUM, INT)(a, x), fn('value.v', A0, NUM, REAL)(a, x))


def norm_of(term):
    return SFp(fn('norm.t', NUM, INT)(term), fn('norm.v', NUM, REAL)(term))


def scalar_of(term):
    return SFp(fn('scalar.t', NUM, INT)(term), fn('scalar.v', NUM, REAL)(term))


def lift_term(x):
    f = SFp.lift(x)
    return fn('lift', INT, REAL, NUM)(f.t, f.v)


def op(name, arity=2):
    return fn('op' + name, *([NUM] * arity), NUM)


def bshape(a, b):
    """numpy broadcasting of two exactly known shapes (dims: int or the symbolic dof count 'n')."""
    out = []
    la, lb = len(a), len(b)
    for k in range(1, max(la, lb) + 1):
        da = a[-k] if k <= la else 1
        db = b[-k] if k <= lb else 1
        if da == db:
            out.append(da)
        elif da == 1:
            out.append(db)
        elif db == 1:
            out.append(da)
        else:
            raise Unsupported('broadcast of shapes %r and %r' % (a, b))
    return tuple(reversed(out))


def matmul_shape(a, b):
    if not a or not b:
        raise Unsupported('matmul with a scalar')
    if len(a) > 2 or len(b) > 2:
        raise Unsupported('matmul of rank > 2')
    inner_a, inner_b = a[-1], (b[0] if len(b) == 1 else b[-2])
    if inner_a != inner_b:
        raise Unsupported('matmul of shapes %r and %r' % (a, b))
    return tuple(a[:-1]) + tuple(b[1:] if len(b) == 1 else b[:-2] + b[-1:])


def mk(ctx, term, shape):
    """A value of the given shape: scalars become IEEE SFp (tag/payload are functions of the term)."""
    if shape == ():
        f = scalar_of(term)
        ctx.assume(z3.And(f.t >= 0, f.t <= 3))
        return f
    return Num(term, shape)


class Num(Sym):
    """An array (vector, matrix, stack) with uninterpreted contents and an exactly known shape.
    Values are immutable terms: an in-place update `x -= dx` rebinds the name (assumption: the updated array is not aliased)."""

    def __init__(self, term, shape, bound=None):
        self.term, self.shape, self.bound = term, tuple(shape), bound

    def t(self, ctx):
        if self.bound is not None and not ctx.branch(self.bound):
            raise PyRaise('UnboundLocalError', note='local variable read before assignment')
        return self.term

    def havoc(self, ctx, name):
        return Num(ctx.const(name, NUM, report=False), self.shape)

    def truth(self, ctx):
        raise PyRaise('ValueError', note='truth value of an array is ambiguous')

    def _operand(self, ctx, v):
        if isinstance(v, Num):
            return v.t(ctx), v.shape
        if SFp.liftable(v):
            return lift_term(v), ()
        return None

    def binop(self, ctx, o, other, reflected):
        b = self._operand(ctx, other)
        if b is None or o not in ('+', '-', '*', '/', '@', '**'):
            return NotImplemented
        a = (self.t(ctx), self.shape)
        if reflected:
            a, b = b, a
        shape = matmul_shape(a[1], b[1]) if o == '@' else bshape(a[1], b[1])
        ctx.used_axioms.add('array arithmetic is uninterpreted: a deterministic function of its operands, nothing more (shapes are tracked exactly)')
        return mk(ctx, op(o)(a[0], b[0]), shape)

    def unop(self, ctx, o):
        if o in ('-', '+', 'abs'):
            return Num(self.t(ctx), self.shape) if o == '+' else mk(ctx, op({'-': 'neg', 'abs': 'abs'}[o], 1)(self.t(ctx)), self.shape)
        raise Unsupported('array unary ' + o)

    def sym_iop(self, ctx, o, rhs):
        r = self.binop(ctx, o, rhs, False)
        if r is NotImplemented:
            return r
        if not isinstance(r, Num) or r.shape != self.shape:
            raise Unsupported('in-place update changes the shape')
        return r

    def getitem(self, ctx, idx):
        items = idx if isinstance(idx, tuple) else (idx,)
        shape, k, desc = [], 0, []
        for it in items:
            if it is None:
                shape.append(1)
                desc.append('None')
            elif isinstance(it, slice) and it.start is None and it.stop is None and it.step is None:
                if k >= len(self.shape):
                    raise PyRaise('IndexError')
                shape.append(self.shape[k])
                k += 1
                desc.append(':')
            elif isinstance(it, int) and not isinstance(it, bool):
                if k >= len(self.shape) or not isinstance(self.shape[k], int):
                    raise Unsupported('integer index into an axis of symbolic length')
                if not -self.shape[k] <= it < self.shape[k]:
                    raise PyRaise('IndexError')
                desc.append(str(it % self.shape[k]))
                k += 1
            else:
                raise Unsupported('array index %r' % (it,))
        shape += list(self.shape[k:])
        return mk(ctx, fn('getitem[%s]' % ','.join(desc), NUM, NUM)(self.t(ctx)), tuple(shape))

    def iterate(self, ctx):
        if not self.shape or not isinstance(self.shape[0], int):
            raise Unsupported('iteration over an array of symbolic length')
        return [self.getitem(ctx, k) for k in range(self.shape[0])]

    def length(self, ctx):
        if self.shape and isinstance(self.shape[0], int):
            return self.shape[0]
        raise Unsupported('len of an array of symbolic length')

    def getattr(self, ctx, name):
        if name in ('solve_leniently', 'solve') and self.shape == ('n', 'n'):
            me = self

            def solve(ctx, rhs, **linargs):
                me.t(ctx)
                if not (isinstance(rhs, Num) and rhs.shape == ('n',)):
                    raise Unsupported('linear solve of %r' % (rhs,))
                rhs.t(ctx)
                if ctx.branch(ctx.bool('%s.raises_MatrixError' % name, report=False)):
                    raise PyRaise('MatrixError', payload=ExcInstance('MatrixError'))
                ctx.used_axioms.add('jac.solve / solve_leniently returns an ARBITRARY vector or raises MatrixError (the linear algebra is not interpreted)')
                dx = Num(ctx.const('dx', NUM, report=False), ('n',))
                ctx.ghost.setdefault('solves', []).append((name, me.term, rhs.term, dx.term))
                return dx
            return solve
        if name == 'submatrix' and self.shape == ('n', 'n'):
            return lambda ctx, rows, cols: Num(ctx.const('submatrix', NUM, report=False), ('n', 'n'))
        if name == 'shape':
            if all(isinstance(d, int) for d in self.shape):
                return self.shape
            raise Unsupported('shape of an array of symbolic length')
        if name == 'copy':
            return lambda ctx: Num(self.t(ctx), self.shape)
        raise Unsupported('ndarray.%s not modelled for uninterpreted arrays' % name)

    def __repr__(self):
        return 'Num<%s %s>' % (self.term, self.shape)


class AllFinite(Sym):
    def __init__(self, term):
        self.term = term

    def getattr(self, ctx, name):
        if name == 'all':
            return lambda ctx: SBool(fn('allfinite', NUM, BOOL)(self.term))
        raise Unsupported('isfinite(array).%s' % name)


class Blob(Sym):
    """Absorbing opaque value for expressions whose result only feeds other opaque values (evaluable.* in Pseudotime)."""

    def getattr(self, ctx, name):
        return Blob()

    def call(self, ctx, args, kwargs):
        return Blob()

    def getitem(self, ctx, idx):
        return Blob()

    def truth(self, ctx):
        raise Unsupported('truth of an opaque expression')


class MNumpy:
    """numpy as used by the methods: every function is a deterministic uninterpreted function of its operands."""

    def sym_getattr(self, ctx, name):
        if name == 'linalg':
            return self
        if name == 'norm':
            def norm(ctx, x, **kw):
                if kw or not isinstance(x, Num):
                    raise Unsupported('norm variant')
                r = norm_of(x.t(ctx))
                ctx.assume(z3.Or(r.t == NAN, r.t == PINF, z3.And(r.t == FIN, r.v >= 0)), axiom='numpy.linalg.norm(x) is a function of x that is >= 0, +inf or nan')
                return r
            return norm
        if name == 'isfinite':
            def isfinite(ctx, x):
                if isinstance(x, Num):
                    return AllFinite(x.t(ctx))
                if SFp.liftable(x):
                    return SBool(SFp.lift(x).isfinite())
                raise Unsupported('isfinite of %r' % (x,))
            return isfinite
        if name in ('exp', 'log', 'sqrt', 'hypot'):
            def f(ctx, *xs):
                if all(SFp.liftable(x) for x in xs):
                    return fp_apply(ctx, name, *[SFp.lift(x) for x in xs])
                if len(xs) == 1 and isinstance(xs[0], Num):
                    return mk(ctx, op(name, 1)(xs[0].t(ctx)), xs[0].shape)
                raise Unsupported('numpy.%s of %r' % (name, xs))
            return f
        if name == 'array':
            def array(ctx, xs, **kw):
                if kw or not isinstance(xs, list) or not xs or not all(SFp.liftable(x) for x in xs):
                    raise Unsupported('numpy.array variant')
                return Num(op('array%d' % len(xs), len(xs))(*[lift_term(x) for x in xs]), (len(xs),))
            return array
        if name == 'stack':
            def stack(ctx, xs, axis=0):
                if axis != 1 or not isinstance(xs, list) or not xs or not all(isinstance(x, Num) and x.shape == xs[0].shape and len(x.shape) == 1 for x in xs):
                    raise Unsupported('numpy.stack variant')
                return Num(op('stack-axis1-%d' % len(xs), len(xs))(*[x.t(ctx) for x in xs]), (xs[0].shape[0], len(xs)))
            return stack
        if name == 'newaxis':
            return None
        if name == 'inf':
            return float('inf')
        if name == 'nan':
            return float('nan')
        if name in ('isnan', 'concatenate'):
            return lambda ctx, *a, **k: Blob()
        raise Unsupported('numpy.%s is not modelled for the solution methods' % name)


class Args0(Sym):
    """The arguments dictionary returned by System.deconstruct."""

    def __init__(self, term):
        self.term = term

    def getitem(self, ctx, key):
        return Blob()

    def truth(self, ctx):
        return True


class Constructed(Sym):
    """system.construct(a, x); .a/.x are None when construct was called on something else."""

    def __init__(self, term, a, x):
        self.term, self.a, self.x = term, a, x

    def truth(self, ctx):
        return True


def make_system(cx, S, is_linear=None):
    def deconstruct(ctx, s, arguments, constrain):
        if arguments is not S.arg_in or constrain is not S.cons_in:
            raise Unsupported('deconstruct called on something else than the arguments/constrain parameters')
        S.deconstructed += 1
        return (Args0(S.a0), Num(S.x0, ('n',)))

    def construct(ctx, s, arguments, x=None, **kw):
        if kw:
            raise Unsupported('construct variant')
        if isinstance(arguments, Args0) and isinstance(x, Num) and x.shape == ('n',):
            xt = x.t(ctx)
            return Constructed(Cf(arguments.term, xt), arguments.term, xt)
        return Constructed(ctx.const('constructed-from-something-else', ARGS, report=False), None, None)

    def need(arguments, x):
        if not (isinstance(arguments, Args0) and isinstance(x, Num) and x.shape == ('n',)):
            raise Unsupported('assembly called on %r, %r' % (arguments, x))

    def jr(ctx, s, arguments, x):
        need(arguments, x)
        xt = x.t(ctx)
        return (Num(Jf(arguments.term, xt), ('n', 'n')), Num(Rf(arguments.term, xt), ('n',)))

    def jrv(ctx, s, arguments, x):
        j, r = jr(ctx, s, arguments, x)
        v = VALf(arguments.term, x.term)
        ctx.assume(z3.And(v.t >= 0, v.t <= 3))
        return (j, r, v)
    lin = SBool(cx.bool('is_linear')) if is_linear is None else is_linear
    return SObj('System', attrs=dict(is_linear=lin, is_symmetric=SBool(cx.bool('is_symmetric')), trials=('u',), trial_args=(Blob(),)),
                methods={'deconstruct': deconstruct, 'construct': construct,
                         'assemble_jacobian_residual': jr, 'assemble_jacobian_residual_value': jrv,
                         'assemble_residual': lambda ctx, s, a, x: jr(ctx, s, a, x)[1],
                         'assemble_jacobian': lambda ctx, s, a, x: jr(ctx, s, a, x)[0]})


def _script(call):
    import os
    here = os.path.dirname(os.path.dirname(os.path.abspath(__file__)))
    return "import sys; sys.path.insert(0, %r)\nfrom native import c14m\nc14m.%s\n" % (here, call)


def _lookup(env, name):
    return env.lookup(name) if env.has(name) else None


def _num_is(v, term):
    """z3: the local `v` is bound to an array equal to `term`."""
    if not isinstance(v, Num):
        return z3.BoolVal(False)
    e = v.term == term
    return z3.And(v.bound, e) if v.bound is not None else e


class Method(Contract):
    """One iteration method: every yield is a consistent (arguments, residual norm) certificate."""
    prop = PROP
    cls = None
    allow_raises = {'MatrixError': True}
    split_conjunctions = True

    def __init__(self):
        self.fn = 'solver:%s.__call__' % self.cls
        self.loops = self.make_loops()

    # -- to override
    def make_loops(self):
        return {}

    def self_attrs(self, cx, S):
        return dict(linargs={})

    def more_globals(self, cx, S):
        return {}

    # --
    def setup(self, cx):
        from contracts.C14 import Quiet
        S = State(deconstructed=0, yields=0)
        S.a0 = cx.const('args0', A0, report=False)
        S.x0 = cx.const('x0', NUM, report=False)
        S.arg_in, S.cons_in = SOpaque('arguments'), SOpaque('constrain')
        S.system = make_system(cx, S, is_linear=getattr(self, 'is_linear', None))
        me = SObj(self.cls, attrs=self.self_attrs(cx, S))
        S.args = (me, S.system)
        S.kwargs = dict(arguments=S.arg_in, constrain=S.cons_in)
        S.globals = {'numpy': MNumpy(), 'log': Quiet(), '_copy_with_defaults': lambda ctx, d, **kw: dict(kw, **d), 'round': lambda ctx, x, n=None: SOpaque('rounded')}
        S.globals.update(self.more_globals(cx, S))
        cx.ghost['S'] = S

        def hook(ctx, v, env, node):
            S.yields += 1
            ok = isinstance(v, tuple) and len(v) == 2 and isinstance(v[0], Constructed) and v[0].a is not None and isinstance(v[1], SFp)
            ctx.oblige('yield:pair-of-constructed-arguments-and-float', z3.BoolVal(bool(ok)), kind='ensures', info={'line': node.lineno})
            if ok:
                a, r = v
                ctx.oblige('yield:arguments-built-on-the-deconstructed-arguments', a.a == S.a0, kind='ensures', info={'line': node.lineno})
                ctx.oblige('yield:resnorm-is-the-residual-norm-of-the-yielded-iterate', SFp.same(r, norm_of(Rf(S.a0, a.x))), kind='ensures', info={'line': node.lineno})
        cx.yield_hook = hook
        return S

    def replay(self, ob):
        return _script('method(%r, %r)' % (self.cls, ob.clause))


def inv_res_jac(names=('res', 'jac'), extra=None):
    """loop invariant: res == R(args0, x) and jac == J(args0, x) for the current x (and the deconstructed arguments)."""
    def inv(cx, env):
        S = cx.ghost['S']
        x, a = _lookup(env, 'x'), _lookup(env, 'arguments')
        if not (isinstance(x, Num) and isinstance(a, Args0)):
            return z3.BoolVal(False)
        parts = [a.term == S.a0]
        if 'res' in names:
            parts.append(_num_is(_lookup(env, 'res'), Rf(S.a0, x.term)))
        if 'jac' in names:
            parts.append(_num_is(_lookup(env, 'jac'), Jf(S.a0, x.term)))
        if extra:
            parts += extra(cx, env, S, x)
        if cx.inv_mode == 'assume':
            cx.ghost['head_x'] = x.term
        return z3.And(*parts)
    return inv


def _has(node, what):
    return any(isinstance(n, what) for n in ast.walk(node))


def outer_loop(node, header):
    return _has(node, ast.Yield)


def inner_loop(node, header):
    return not _has(node, ast.Yield)


# ------------------------------------------------------------------------------------------------ Newton / Pseudotime

class Newton(Method):
    cls = 'Newton'

    def make_loops(self):
        def inv(cx, env):
            S = cx.ghost['S']
            x, a = _lookup(env, 'x'), _lookup(env, 'arguments')
            if not (isinstance(x, Num) and isinstance(a, Args0)):
                return z3.BoolVal(False)
            return a.term == S.a0
        return {0: Loop(inv, match=outer_loop)}


class Pseudotime(Newton):
    cls = 'Pseudotime'

    def self_attrs(self, cx, S):
        return dict(linargs={}, inertia=(Blob(),), timestep=SFp.fresh(cx, 'timestep'))

    def more_globals(self, cx, S):
        class FirstObj(Sym):
            def call(self, ctx, args, kwargs):
                ctx.used_axioms.add('_First()(v) returns v or the value of an earlier call: modelled as an arbitrary float')
                return SFp.fresh(ctx, 'first', report=False)

        class Matrix:
            def sym_getattr(self, ctx, name):
                if name == 'assemble_block_csr':
                    return lambda ctx, blocks: Num(ctx.const('inertia-matrix', NUM, report=False), ('n', 'n'))
                raise Unsupported('matrix.' + name)
        return {'_First': ClassRef('_First', construct=lambda ctx: FirstObj()), 'matrix': Matrix(), 'evaluable': Blob()}


# ------------------------------------------------------------------------------------------------ ReuseNewton

class ReuseNewton(Method):
    cls = 'ReuseNewton'

    def self_attrs(self, cx, S):
        return dict(linargs={}, require=SFp.fresh(cx, 'require'))

    def make_loops(self):
        def extra(cx, env, S, x):
            resnorm, upd, jac = _lookup(env, 'resnorm'), _lookup(env, 'update_jacobian'), _lookup(env, 'jac')
            if not isinstance(resnorm, SFp) or not isinstance(upd, (bool, SBool)):
                return [z3.BoolVal(False)]
            jac_bound = z3.BoolVal(False) if not isinstance(jac, Num) else (jac.bound if jac.bound is not None else z3.BoolVal(True))
            return [SFp.same(resnorm, norm_of(Rf(S.a0, x.term))), z3.Or(zbool(upd), jac_bound)]
        havoc = {'jac': lambda cx, env: Num(cx.const('jac@loop', NUM, report=False), ('n', 'n'), bound=cx.bool('jac-is-bound', report=False))}
        return {0: Loop(inv_res_jac(('res',), extra), havoc=havoc, match=outer_loop)}


# ------------------------------------------------------------------------------------------------ LinesearchNewton

class LinesearchNewton(Method):
    cls = 'LinesearchNewton'
    allow_raises = {'MatrixError': True}

    def self_attrs(self, cx, S):
        S.failrelax = SFp.fresh(cx, 'failrelax')
        S.strategy_calls = []

        def strategy(ctx, res0, dres0, res1, dres1):
            if not all(isinstance(v, Num) and v.shape == ('n',) for v in (res0, dres0, res1, dres1)):
                raise Unsupported('strategy called on %r' % ((res0, dres0, res1, dres1),))
            if ctx.branch(ctx.bool('strategy.raises_SolverError', report=False)):
                raise PyRaise('SolverError', payload=ExcInstance('SolverError'), note='raised by the line-search strategy')
            scale = SFp.fresh(ctx, 'scale', report=False)
            accept = ctx.bool('accept', report=False)
            ctx.assume(z3.Or(accept, scale.lt(SFp.lift(1))), axiom='strategy contract (assumed): a rejected step comes with scale < 1')
            S.strategy_calls.append((res0.term, res1.term, scale, accept))
            return (scale, SBool(accept))
        return dict(linargs={}, strategy=strategy, failrelax=S.failrelax, relax0=SFp.fresh(cx, 'relax0'))

    def make_loops(self):
        def on_exit(cx, env, how):
            S = cx.ghost['S']
            newx = _lookup(env, 'newx')
            ok = how == 'break' and S.strategy_calls and isinstance(newx, Num) and 'head_x' in cx.ghost
            if not ok:
                cx.oblige('linesearch-exit:only-on-a-step-accepted-by-the-strategy', z3.BoolVal(False), kind='ensures')
                return
            res0, res1, scale, accept = S.strategy_calls[-1]
            cx.oblige('linesearch-exit:only-on-a-step-accepted-by-the-strategy',
                      z3.And(accept, res1 == Rf(S.a0, newx.term), res0 == Rf(S.a0, cx.ghost['head_x'])), kind='ensures')
        return {0: Loop(inv_res_jac(), match=outer_loop, havoc={'relax': lambda cx, env: SFp.fresh(cx, 'relax@newton', report=False)}),
                1: Loop(lambda cx, env: z3.BoolVal(True), match=inner_loop, on_exit=on_exit, havoc={'relax': lambda cx, env: SFp.fresh(cx, 'relax@linesearch', report=False)})}

    def raises(self, cx, S, e):
        if e.exc == 'SolverError':
            if e.note == 'raised by the line-search strategy':
                return True
            env = getattr(e, 'env', None)
            relax = _lookup(env, 'relax') if env is not None else None
            if not isinstance(relax, SFp) or not S.strategy_calls:
                return False
            return z3.And(relax.le(S.failrelax), z3.Not(S.strategy_calls[-1][3]))
        return super().raises(cx, S, e)


# ------------------------------------------------------------------------------------------------ Minimize

class Minimize(Method):
    cls = 'Minimize'
    allow_raises = {'MatrixError': True, 'ValueError': lambda cx, S, e: z3.Not(zbool(S.system.attrs['is_symmetric']))}

    def self_attrs(self, cx, S):
        S.failrelax = SFp.fresh(cx, 'failrelax')
        return dict(linargs={}, rampup=SFp.fresh(cx, 'rampup'), rampdown=SFp.fresh(cx, 'rampdown'), failrelax=S.failrelax)

    def make_loops(self):
        def extra(cx, env, S, x):
            val = _lookup(env, 'val')
            if not isinstance(val, SFp):
                return [z3.BoolVal(False)]
            if cx.inv_mode == 'assume':
                cx.ghost['head_val'] = val
            return [SFp.same(val, VALf(S.a0, x.term))]

        def on_exit(cx, env, how):
            S = cx.ghost['S']
            newx = _lookup(env, 'newx')
            ok = how == 'break' and isinstance(newx, Num) and 'head_val' in cx.ghost
            name = 'linesearch-exit:only-on-a-finite-iterate-that-does-not-increase-the-energy'
            if not ok:
                cx.oblige(name, z3.BoolVal(False), kind='ensures')
                return
            v1 = VALf(S.a0, newx.term)
            cx.oblige(name, z3.And(v1.isfinite(), fn('allfinite', NUM, BOOL)(Rf(S.a0, newx.term)), v1.le(cx.ghost['head_val'])), kind='ensures')
        hv = {'relax': lambda cx, env: SFp.fresh(cx, 'relax@loop', report=False)}
        return {0: Loop(inv_res_jac(('res', 'jac'), extra), match=outer_loop, havoc=hv),
                1: Loop(lambda cx, env: z3.BoolVal(True), match=inner_loop, on_exit=on_exit, havoc=hv)}

    def raises(self, cx, S, e):
        if e.exc == 'SolverError':
            env = getattr(e, 'env', None)
            relax = _lookup(env, 'relax') if env is not None else None
            if not isinstance(relax, SFp):
                return False
            return relax.le(S.failrelax)
        return super().raises(cx, S, e)


# ------------------------------------------------------------------------------------------------ Direct

class Direct(Method):
    """Direct.__call__ (not a generator): returns (construct(args0, x0 - dx), norm(res - jac @ dx)) with res = R(args0, x0),
    jac = J(args0, x0) and dx what jac.solve(res) returned: for a linear system that is the residual at the returned x."""
    cls = 'Direct'
    allow_raises = {'MatrixError': True, 'ValueError': lambda cx, S, e: z3.Not(zbool(S.system.attrs['is_linear']))}

    def ensures(self, cx, S, result):
        ok = isinstance(result, tuple) and len(result) == 2 and isinstance(result[0], Constructed) and result[0].a is not None and isinstance(result[1], SFp)
        out = [('returns-pair-of-constructed-arguments-and-float', z3.BoolVal(bool(ok)))]
        solves = cx.ghost.get('solves', [])
        if ok and len(solves) == 1:
            a, r = result
            name, jac, rhs, dx = solves[0]
            res0, jac0 = Rf(S.a0, S.x0), Jf(S.a0, S.x0)
            out += [('system-is-linear', zbool(S.system.attrs['is_linear'])),
                    ('solves-the-jacobian-system-for-the-residual', z3.And(jac == jac0, rhs == res0)),
                    ('arguments-built-on-the-deconstructed-arguments', a.a == S.a0),
                    ('returned-x-is-x0-minus-dx', a.x == op('-')(S.x0, dx)),
                    ('resnorm-is-the-linear-residual-at-the-returned-x', SFp.same(r, norm_of(op('-')(res0, op('@')(jac0, dx)))))]
        else:
            out.append(('exactly-one-linear-solve', z3.BoolVal(False)))
        return out


def contracts():
    return [Direct(), Newton(), ReuseNewton(), LinesearchNewton(), Minimize(), Pseudotime()]


TRUSTED = ['array arithmetic in the solution methods is uninterpreted: every operator / numpy function is a deterministic function of its operands on one '
           'sort of arrays; shapes (dof count n, small literal lengths) are tracked exactly so that unpacking and broadcasting are decided',
           'numpy.linalg.norm(x) is a function of x that is >= 0, +inf or nan; scalars computed from arrays are IEEE floats (SFp) whose value is a function of the array term']
ASSUMPTIONS = ['solution methods: System.deconstruct/construct/assemble_* are uninterpreted functions (args0, x) -> residual / jacobian / value / arguments; '
               'they do not raise and construct copies x (the yielded arguments do not alias the iterate)',
               'solution methods: an array updated in place (x -= dx, k1 /= c) is not aliased by another name (in-place update = rebinding)',
               'solution methods: jac.solve / solve_leniently return an arbitrary vector or raise MatrixError',
               'LinesearchNewton: the strategy returns (scale, accept) with `not accept => scale < 1` or raises SolverError (assumed strategy contract; '
               'NormBased violates it in an underflow corner, see notes/C14-methods.md)',
               'Pseudotime: the inertia matrix is an arbitrary n x n matrix, _First()(v) an arbitrary float']
NOT_COVERED = ['termination of the Newton / line-search loops; that the update direction is a descent direction; Arnoldi.__call__']
