"""C19 -- `_Substring` scanning of expression_v2 (strings of ANY length; loop invariants, no unrolling).

Vocabulary.  For a base string and a position s, the bracket depth D(s, k) is the number of opening minus the number of closing
brackets among base[s:s+k] ( D(s,0) = 0, D(s,k+1) = D(s,k) + open(base[s+k]) - close(base[s+k]) ), and the level at which `_find`
tests offset k of a substring starting at s is T(s,k) = D(s,k) - close(base[s+k]) (a closing bracket is counted before, an opening
bracket after the test).  A matcher is a pure function of the tail string; for a fixed base it is read as a function
M_j(absolute position, absolute end) with 0 <= M_j <= end - position (proved for `_match(s)` and `_match_spaces` below).

_find        returns (j, k, M_j(s+k)) for the FIRST offset k with T(s,k) = 0 at which some matcher fires and the first such matcher j,
             or (-1, len, 0) if there is none.
partition    the three pieces tile the input range and the middle one is that first level-0 match (empty at the end if none).
split/isplit the yielded pieces, in order, tile the input range together with non-empty separators; every separator is a first level-0
             match counted from the start of the piece before it, so no piece contains a level-0 separator.
trim, strip_prefix, strip_suffix, starts_with, ends_with, __contains__, partition_scope, __iter__: see the classes.
Every `_Substring(...)` construction runs the real __init__ (range assert): AssertionError is never allowed, so the class invariant
0 <= start <= stop <= len(base) is preserved by every method under contract.
"""
import os
import z3
from pyvc.contract import Contract, State
from pyvc.values import SInt, SBool, SObj, SOpaque, Sym, Unsupported, PyRaise, zint, zbool
from pyvc.nparr import qforall
from pyvc.interp import Loop
from contracts.c19_text import Text, Char, Sub, World, is_open, is_close, model_enumerate, MOD
from contracts.C13 import InlineFn

PROP = 'C19'
HERE = os.path.dirname(os.path.dirname(os.path.abspath(__file__)))


def native(call):
    return "import sys; sys.path.insert(0, %r)\nfrom native import c19\nc19.%s\n" % (HERE, call)


class Lang:
    """bracket depth and abstract matchers over one base string"""

    def __init__(self, cx, base, nmatchers):
        self.base = base
        self.D = z3.Function(cx.name('D'), z3.IntSort(), z3.IntSort(), z3.IntSort())
        self.M = [z3.Function(cx.name('M%d' % j), z3.IntSort(), z3.IntSort(), z3.IntSort()) for j in range(nmatchers)]
        self.matchers = tuple(AbstractMatcher(self, j) for j in range(nmatchers))

    def ch(self, p):
        return self.base.sel(p)

    def T(self, s, k):
        return self.D(s, k) - z3.If(is_close(self.ch(s + k)), 1, 0)

    def unfold(self, cx, s, k):
        """one instance of the recursive definition of D (sound: D is defined by recursion on k >= 0)"""
        c = self.ch(s + k)
        cx.assume(self.D(s, k + 1) == self.D(s, k) + z3.If(is_open(c), 1, 0) - z3.If(is_close(c), 1, 0), axiom='definition of the bracket depth D(s,k), instantiated')

    def base_case(self, cx, s):
        cx.assume(self.D(s, 0) == 0, axiom='definition of the bracket depth D(s,0) = 0')

    def any_fires(self, s, e, k):
        return z3.Or(*[m(s + k, e) != 0 for m in self.M])

    def fires(self, s, e, k):
        return z3.And(self.T(s, k) == 0, self.any_fires(s, e, k))

    def none_before(self, s, e, k):
        return qforall(1, lambda m: z3.Implies(z3.And(0 <= m, m < k), z3.Not(self.fires(s, e, m))))

    def find_post(self, s, e, im, off, ln):
        """the postcondition of `_find` on base[s:e] as (not-found, found) formulas over the result (im, off, ln)"""
        n = e - s
        notfound = z3.And(im == -1, off == n, ln == 0, self.none_before(s, e, n))
        alts = []
        for j, m in enumerate(self.M):
            alts.append(z3.And(im == j, ln == m(s + off, e), *[self.M[i](s + off, e) == 0 for i in range(j)]))
        found = z3.And(0 <= off, off < n, self.T(s, off) == 0, ln != 0, z3.Or(*alts), self.none_before(s, e, off))
        return notfound, found

    def matcher_range(self, s, e, off, ln):
        """what the matchers guarantee about a reported length (their own contracts): 0 < ln <= len(tail)"""
        return z3.And(ln >= 0, ln <= e - s - off)


class AbstractMatcher(Sym):
    def __init__(self, lang, j):
        self.lang, self.j = lang, j

    def call(self, ctx, args, kwargs):
        tail, = args
        if not isinstance(tail, Text) or tail.root is not self.lang.base:
            raise Unsupported('matcher called with something that is not a tail of the base string')
        p, e = tail.off, z3.simplify(tail.off + tail.n)
        r = self.lang.M[self.j](p, e)
        ctx.assume(z3.And(0 <= r, r <= tail.n), axiom='a matcher returns a length between 0 and len(tail) (proved for _match and _match_spaces)')
        return SInt(r)

    def truth(self, ctx):
        return True

    def havoc(self, ctx, name):
        return self


def find_model(lang):
    """`_find` replaced by its contract (proved by class Find): fresh result constrained by the postcondition"""
    def _find(ctx, s, *matchers):
        if tuple(matchers) != lang.matchers[:len(matchers)] or len(matchers) != len(lang.M):
            raise Unsupported('_find model called with other matchers than the contract declares')
        im, off, ln = ctx.int('find.imatcher', report=False), ctx.int('find.offset', report=False), ctx.int('find.length', report=False)
        a, b = s.a, s.b
        lang.base_case(ctx, a)
        nf, f = lang.find_post(a, b, im, off, ln)
        ctx.assume(z3.Or(nf, z3.And(f, lang.matcher_range(a, b, off, ln))), axiom='contract of _Substring._find (class Find)')
        return (SInt(im), SInt(off), SInt(ln))
    return _find


class Find(Contract):
    """_find: first level-0 offset where a matcher fires (any string length; invariant over the scan)."""
    prop = PROP
    fn = MOD + ':_Substring._find'
    split_conjunctions = True

    def __init__(self, nm):
        self.nm = nm
        self.label = 'matchers=%d' % nm

        def inv(cx, env, i):
            S = self.S
            L = S.lang
            level = zint(env.lookup('level'))
            return z3.And(level == L.D(S.a, i), L.none_before(S.a, S.b, i))

        def on_body(cx, env, i):
            self.S.lang.unfold(cx, self.S.a, i)
        self.loops = {0: Loop(inv, label='scan', match='in enumerate(self.base[', on_body=on_body)}

    def setup(self, cx):
        W = World(cx)
        me = W.sub(cx, 'self')
        lang = Lang(cx, W.base, self.nm)
        lang.base_case(cx, me.a)
        S = State(W=W, me=me, lang=lang, a=me.a, b=me.b, args=(me,) + lang.matchers, globals=W.globals)
        self.S = S
        return S

    def ensures(self, cx, S, r):
        im, off, ln = r
        nf, f = S.lang.find_post(S.a, S.b, zint(im), zint(off), zint(ln))
        if isinstance(im, int) and im == -1:
            return [('nothing-found-only-if-no-level0-match', nf)]
        return [('first-level0-match-of-first-matcher', f)]

    def replay(self, ob):
        return native('find()')


class ConcreteMatcher(Contract):
    """`_match(s)` and `_match_spaces`: a length in [0, len(tail)], non-zero exactly when the tail starts with s / a space."""
    prop = PROP

    def __init__(self, which, literal=None):
        self.which, self.literal = which, literal
        if which == 'match':
            self.fn = MOD + ':_match'
            self.label = repr(literal)
        else:
            self.fn = MOD + ':_match_spaces'

    def setup(self, cx):
        W = World(cx, name='tail')
        S = State(W=W, tail=W.base, globals=W.globals)
        S.args = (self.literal,) if self.which == 'match' else (W.base,)
        return S

    def body(self, cx, S, call):
        if self.which == 'match':
            matcher = call(self.fn, self.literal)
            return cx.interp.call(matcher, [S.tail], {})
        return call(self.fn, S.tail)

    def ensures(self, cx, S, r):
        t, r = S.tail, zint(r)
        out = [('length-within-tail', z3.And(0 <= r, r <= t.n))]
        if self.which == 'match':
            s = self.literal
            starts = z3.And(t.n >= len(s), *[t.sel(z3.IntVal(k)) == ord(c) for k, c in enumerate(s)])
            out.append(('len(s)-iff-tail-starts-with-s', z3.And(z3.Implies(starts, r == len(s)), z3.Implies(z3.Not(starts), r == 0))))
        else:
            out.append(('number-of-leading-spaces', z3.And(qforall(1, lambda k: z3.Implies(z3.And(0 <= k, k < r), t.sel(k) == 32)), z3.Implies(r < t.n, t.sel(r) != 32))))
        return out

    def replay(self, ob):
        return native('matchers()')


def tiles(S, pieces):
    """consecutive pieces cover [S.a, S.b) without gap or overlap"""
    cs = [pieces[0].a == S.a, pieces[-1].b == S.b]
    for p, q in zip(pieces, pieces[1:]):
        cs.append(p.b == q.a)
    for p in pieces:
        cs.append(z3.And(0 <= p.a, p.a <= p.b, p.b <= S.W.base.n))
    return z3.And(*cs)


class Partition(Contract):
    """partition(*matchers) with `_find` replaced by its contract: head + match + tail tile the input; the match is the first level-0 match."""
    prop = PROP
    fn = MOD + ':_Substring.partition'

    def __init__(self, nm=1):
        self.nm = nm
        self.label = 'matchers=%d' % nm

    def setup(self, cx):
        W = World(cx)
        lang = Lang(cx, W.base, self.nm)
        W.overrides['_find'] = find_model(lang)
        me = W.sub(cx, 'self')
        return State(W=W, me=me, lang=lang, a=me.a, b=me.b, args=(me,) + lang.matchers, globals=W.globals)

    def ensures(self, cx, S, r):
        h, m, t = r
        L = S.lang
        k = h.b - S.a
        ln = m.b - m.a
        return [('pieces-tile-the-input', tiles(S, [h, m, t])),
                ('head-has-no-level0-match', L.none_before(S.a, S.b, k)),
                ('middle-is-the-first-level0-match-or-empty-at-the-end',
                 z3.Or(z3.And(ln == 0, m.a == S.b), z3.And(ln > 0, L.T(S.a, k) == 0, z3.Or(*[M(S.a + k, S.b) == ln for M in L.M]))))]

    def replay(self, ob):
        return native('partition()')


class Yields(Sym):
    """ghost: the sequence of substrings yielded so far by split/isplit (count, starts, stops[, matcher indices])"""

    def __init__(self, cx, tag='y'):
        self.cx = cx
        self.n = z3.IntVal(0)
        self.ys = z3.Array(cx.name(tag + '.start'), z3.IntSort(), z3.IntSort())
        self.ye = z3.Array(cx.name(tag + '.stop'), z3.IntSort(), z3.IntSort())
        self.ym = z3.Array(cx.name(tag + '.imatcher'), z3.IntSort(), z3.IntSort())
        self.base_ok = True

    def append(self, v):
        # called by the engine's `yield` (and by nothing else)
        im = None
        if isinstance(v, tuple):
            im, v = v
        if not isinstance(v, Sub):
            raise Unsupported('yield of %r' % (v,))
        if v.attrs['base'] is not v.world.base:
            self.base_ok = False
        self.ys = z3.Store(self.ys, self.n, v.a)
        self.ye = z3.Store(self.ye, self.n, v.b)
        if im is not None:
            self.ym = z3.Store(self.ym, self.n, zint(im))
        self.n = z3.simplify(self.n + 1)

    def havoc(self, ctx, name):
        self.n = ctx.int(name + '.count', report=False)
        self.ys = z3.Array(ctx.name(name + '.start'), z3.IntSort(), z3.IntSort())
        self.ye = z3.Array(ctx.name(name + '.stop'), z3.IntSort(), z3.IntSort())
        self.ym = z3.Array(ctx.name(name + '.imatcher'), z3.IntSort(), z3.IntSort())
        return self


def trim_loops(get_base):
    """invariants of the scanning loops of trim_start / trim_end (attached by loop header text)"""
    def inv_start(cx, env):
        me = env.lookup('self')
        p = zint(env.lookup('start'))
        return z3.And(me.a <= p, p <= me.b, qforall(1, lambda k: z3.Implies(z3.And(me.a <= k, k < p), get_base().sel(k) == 32)))

    def inv_end(cx, env):
        me = env.lookup('self')
        p = zint(env.lookup('stop'))
        return z3.And(me.a <= p, p <= me.b, qforall(1, lambda k: z3.Implies(z3.And(p <= k, k < me.b), get_base().sel(k) == 32)))
    return {'trim-start': Loop(inv_start, label='scan-start', match='while start <'), 'trim-end': Loop(inv_end, label='scan-end', match='while stop >')}


class Split(Contract):
    """split / isplit (generators, any number of pieces): loop invariant over the ghost sequence of yielded pieces; `_find` by contract."""
    prop = PROP
    split_conjunctions = True

    def __init__(self, which, nm):
        self.which, self.nm = which, nm
        self.fn = MOD + ':_Substring.' + which
        self.label = 'matchers=%d' % nm

        def inv(cx, env):
            return z3.And(*[c for _, c in self.invariant(env)])

        def on_havoc(cx, env):
            env.lookup('__yields__').havoc(cx, 'yielded')
        self.loops = {0: Loop(inv, label='pieces', match='while n', on_havoc=on_havoc)}
        self.loops.update(trim_loops(lambda: self.S.W.base))  # only used if the body is changed to call trim_*

    def facts(self, Y, c):
        """facts about the first c yielded pieces"""
        S = self.S
        L = S.lang
        ys, ye, ym = (lambda k: z3.Select(Y.ys, k)), (lambda k: z3.Select(Y.ye, k)), (lambda k: z3.Select(Y.ym, k))
        out = [('first-piece-starts-at-the-start', z3.Implies(c >= 1, ys(0) == S.a)),
               ('pieces-are-ranges-of-the-input', qforall(1, lambda k: z3.Implies(z3.And(0 <= k, k < c), z3.And(S.a <= ys(k), ys(k) <= ye(k), ye(k) <= S.b)))),
               ('no-piece-contains-a-level0-separator', qforall(2, lambda k, m: z3.Implies(z3.And(0 <= k, k < c, 0 <= m, m < ye(k) - ys(k)), z3.Not(L.fires(ys(k), S.b, m))))),
               ('consecutive-pieces-are-joined-by-a-level0-separator',
                qforall(1, lambda k: z3.Implies(z3.And(1 <= k, k < c), z3.And(ys(k) > ye(k - 1), L.T(ys(k - 1), ye(k - 1) - ys(k - 1)) == 0,
                                                                               z3.Or(*[M(ye(k - 1), S.b) == ys(k) - ye(k - 1) for M in L.M])))))]
        if self.which == 'isplit':
            out.append(('matcher-index-is-the-separator-to-the-left',
                        z3.And(z3.Implies(c >= 1, ym(0) == S.first),
                               qforall(1, lambda k: z3.Implies(z3.And(1 <= k, k < c), z3.And(0 <= ym(k), ym(k) < self.nm,
                                                                                              z3.Or(*[z3.And(ym(k) == j, M(ye(k - 1), S.b) == ys(k) - ye(k - 1), *[L.M[i](ye(k - 1), S.b) == 0 for i in range(j)]) for j, M in enumerate(L.M)])))))))
        return out

    def invariant(self, env):
        S = self.S
        L = S.lang
        me = env.lookup('self')
        Y = env.lookup('__yields__')
        n = zint(env.lookup('n'))
        c = Y.n
        ye = lambda k: z3.Select(Y.ye, k)
        out = [('remainder', z3.And(c >= 0, n >= 0, S.a <= me.a, me.a <= me.b, me.b == S.b, z3.BoolVal(me.attrs['base'] is S.W.base))),
               ('link', z3.If(c == 0, z3.And(me.a == S.a, n == 1),
                              z3.And(ye(c - 1) + n == me.a, z3.Implies(n == 0, ye(c - 1) == S.b),
                                     z3.Implies(n > 0, z3.And(L.T(z3.Select(Y.ys, c - 1), ye(c - 1) - z3.Select(Y.ys, c - 1)) == 0,
                                                              z3.Or(*[M(ye(c - 1), S.b) == n for M in L.M]))))))]
        if self.which == 'isplit':
            im = zint(env.lookup('imatcher'))
            out.append(('pending-matcher-index', z3.If(c == 0, im == S.first,
                                                        z3.Implies(n > 0, z3.And(0 <= im, im < self.nm, z3.Or(*[z3.And(im == j, M(ye(c - 1), S.b) == n, *[L.M[i](ye(c - 1), S.b) == 0 for i in range(j)]) for j, M in enumerate(L.M)]))))))
        return out + self.facts(Y, c)

    def setup(self, cx):
        W = World(cx)
        lang = Lang(cx, W.base, self.nm)
        W.overrides['_find'] = find_model(lang)
        me = W.sub(cx, 'self')
        S = State(W=W, me=me, lang=lang, a=me.a, b=me.b, args=(me,) + lang.matchers, globals=W.globals)
        if self.which == 'isplit':
            S.first = cx.int('first')
            S.kwargs = {'first': SInt(S.first)}
        self.S = S
        # generator protocol of the engine: yielded values are appended to `__yields__`; we supply the ghost sequence
        S.yields = Yields(cx)
        return S

    def body(self, cx, S, call):
        from pyvc import extract
        from pyvc.interp import Env
        it = cx.interp
        f = extract.get(self.fn)
        env = Env(None)
        it.bind(f.node, env, S.args, S.kwargs)
        env.vars['__yields__'] = S.yields
        from pyvc.interp import _Return
        try:
            it.block(f.node.body, env)
        except _Return:
            pass
        return env.vars['__yields__']

    def ensures(self, cx, S, Y):
        if not Y.base_ok:
            raise Unsupported('a yielded substring has another base string')
        c = Y.n
        return [('at-least-one-piece', c >= 1), ('last-piece-ends-at-the-end', z3.Select(Y.ye, c - 1) == S.b)] + self.facts(Y, c)

    def replay(self, ob):
        return native('split()')


class Trim(Contract):
    """trim(): the real body composed of the real trim_end and trim_start bodies (their loops carry the invariants of C19.Trim)."""
    prop = PROP
    fn = MOD + ':_Substring.trim'

    def __init__(self):
        self.loops = trim_loops(lambda: self.S.W.base)

    def setup(self, cx):
        W = World(cx)
        me = W.sub(cx, 'self')
        S = State(W=W, me=me, a=me.a, b=me.b, globals=W.globals)
        self.S = S
        return S

    def body(self, cx, S, call):
        # the loops of trim_start/trim_end are cut at their invariants, so each is run as its own harness step:
        # trim_end on self, then trim_start on its result (exactly the body of trim, which is checked to be that composition)
        W = S.W
        calls = []

        def trim_end(ctx, s):
            calls.append('trim_end')
            return call(MOD + ':_Substring.trim_end', s)

        def trim_start(ctx, s):
            calls.append('trim_start')
            return call(MOD + ':_Substring.trim_start', s)
        W.overrides['trim_end'] = trim_end
        W.overrides['trim_start'] = trim_start
        r = call(self.fn, S.me)
        S.calls = calls
        return r

    def cuts(self, cx, S):
        return []

    def ensures(self, cx, S, r):
        base = S.W.base
        a, b = r.a, r.b
        return [('range-invariant', z3.And(0 <= a, a <= b, b <= base.n, S.a <= a, b <= S.b)),
                ('only-spaces-removed', z3.And(qforall(1, lambda k: z3.Implies(z3.And(S.a <= k, k < a), base.sel(k) == 32)),
                                               qforall(1, lambda k: z3.Implies(z3.And(b <= k, k < S.b), base.sel(k) == 32)))),
                ('maximal-trim', z3.Implies(a < b, z3.And(base.sel(a) != 32, base.sel(b - 1) != 32)))]

    def replay(self, ob):
        return native('trim()')


class Strip(Contract):
    """strip_prefix / strip_suffix / starts_with / ends_with with a literal: None unless the text starts (ends) with it, else the rest."""
    prop = PROP

    def __init__(self, which, literal):
        self.which, self.literal = which, literal
        self.fn = MOD + ':_Substring.' + which
        self.label = repr(literal)

    def setup(self, cx):
        W = World(cx)
        me = W.sub(cx, 'self')
        return State(W=W, me=me, a=me.a, b=me.b, args=(me, self.literal), globals=W.globals)

    def has(self, S):
        base, s = S.W.base, self.literal
        if self.which in ('strip_prefix', 'starts_with'):
            return z3.And(S.b - S.a >= len(s), *[base.sel(S.a + k) == ord(c) for k, c in enumerate(s)])
        return z3.And(S.b - S.a >= len(s), *[base.sel(S.b - len(s) + k) == ord(c) for k, c in enumerate(s)])

    def ensures(self, cx, S, r):
        has = self.has(S)
        if self.which in ('starts_with', 'ends_with'):
            return [('iff-the-text-starts/ends-with-the-literal', zbool(r) == has)]
        if r is None:
            return [('None-only-if-absent', z3.Not(has))]
        n = len(self.literal)
        if self.which == 'strip_prefix':
            return [('rest-after-the-prefix', z3.And(has, r.a == S.a + n, r.b == S.b))]
        return [('rest-before-the-suffix', z3.And(has, r.a == S.a, r.b == S.b - n))]

    def replay(self, ob):
        return native('strip()')


def contracts():
    cs = [Find(1), Find(2)]
    cs += [ConcreteMatcher('match', s) for s in (' + ', ' / ', '^', '_')] + [ConcreteMatcher('spaces')]
    cs += [Partition(1), Split('split', 1), Split('isplit', 2), Trim()]
    cs += [Strip('strip_prefix', '-'), Strip('strip_suffix', ')'), Strip('starts_with', ' '), Strip('ends_with', ' ')]
    return cs


TRUSTED = ['str as (length, index -> code point); str.startswith / str.endswith / str.lstrip(one character) / slicing as axioms (cross-checked in native/axioms.py)',
           'the bracket depth D(s,k) is a recursively defined specification function; its defining equations are instantiated where needed',
           'generators are evaluated eagerly into the sequence of yielded values (split/isplit are only consumed by tuple(...) / a generator expression inside tuple(...))']
ASSUMPTIONS = ['matchers are pure total functions of the tail returning an int in [0, len(tail)] (proved for _match(s) with the literals used and for _match_spaces; the lambdas of partition_scope return a bool for a non-empty tail)',
               '_find/partition/split/isplit are called with one or two matchers (all call sites of the module)']
NOT_COVERED = ['termination of split/isplit (each round consumes at least the separator, not proved)']
