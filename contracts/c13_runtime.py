"""C13 extension, part 3 -- the run-time shape check of supplied argument values.

evaluable.Argument._compile(self, builder) GENERATES the code that fetches the value of the argument at evaluation time.
The real body is executed with `_pyast` as a term builder and the block builder as a recorder (`assign_to` emits
`lhs = rhs`, `if_(c)` opens `if c:`, `raise_(e)` emits `raise e` -- the statement meaning of _BlockBuilder, TRUSTED; its
locking discipline is C16); the contract then INTERPRETS the generated statements on a supplied value V of symbolic shape:

  reads-its-own-value      out = numpy.asarray(a[<self.name>], dtype=<self.ast_dtype>) and nothing else touches `out`
  wrong-shape-raises       shape(V) != declared shape  =>  the generated code raises ValueError (never broadcasts, never returns)
  right-shape-accepted     shape(V) == declared shape  =>  no raise and the result variable is asarray(V)

An operation the interpreter does not know (numpy.broadcast_to, reshape, another comparison ...) yields an UNKNOWN value /
an unconstrained condition, so the clauses cannot be proved for it: it is reported, not silently accepted.
"""
import z3
from pyvc.contract import Contract, State
from pyvc.values import SObj, SOpaque, STerm, Sym, Unsupported
from contracts.C13 import PROP, NAME, SHAPE, name, shape, InlineFn, _script

VALUE = z3.DeclareSort('SuppliedValue')
SHAPEOF = z3.Function('numpy_shape', VALUE, SHAPE)


class PT(Sym):
    """a _pyast expression under construction"""

    def __init__(self, kind, *args):
        self.kind, self.args = kind, args

    def getattr(self, ctx, attr):
        if attr == 'get_attr':
            return lambda ctx, a: PT('attr', self, a)
        if attr == 'call':
            return lambda ctx, *a, **k: PT('call', self, tuple(a), dict(k))
        if attr == 'get_item':
            return lambda ctx, i: PT('item', self, i)
        raise Unsupported('_pyast expression method %s' % attr)

    def truth(self, ctx):
        return True

    def __repr__(self):
        return 'PT(%s, %s)' % (self.kind, ', '.join(map(repr, self.args)))


class PyAst:
    def sym_getattr(self, ctx, attr):
        if attr == 'Variable':
            return lambda ctx, n: PT('var', n)
        if attr == 'LiteralStr':
            return lambda ctx, s: PT('str', s)
        if attr == 'BinOp':
            return lambda ctx, a, op, b: PT('binop', a, op, b)
        if attr == 'Tuple':
            return lambda ctx, items: PT('tuple', tuple(items))
        raise Unsupported('_pyast.%s is not modelled in C13' % attr)


class Block(Sym):
    """records the statements a _BlockBuilder is asked to emit"""

    def __init__(self):
        self.stmts = []

    def getattr(self, ctx, attr):
        if attr == 'assign_to':
            def assign_to(ctx, lhs, rhs):
                self.stmts.append(('assign', lhs, rhs))
                return lhs
            return assign_to
        if attr == 'if_':
            def if_(ctx, cond):
                b = Block()
                self.stmts.append(('if', cond, b))
                return b
            return if_
        if attr == 'raise_':
            def raise_(ctx, e):
                self.stmts.append(('raise', e))
            return raise_
        if attr == 'exec':
            def exec_(ctx, e):
                self.stmts.append(('exec', e))
            return exec_
        if attr == 'assert_true':
            def assert_true(ctx, c):
                self.stmts.append(('assert', c))
            return assert_true
        raise Unsupported('_BlockBuilder.%s is not modelled in C13' % attr)

    def truth(self, ctx):
        return True


class Unknown:
    def __init__(self, what):
        self.what = what

    def __repr__(self):
        return 'Unknown(%s)' % self.what


class GenInterp:
    """meaning of the generated statements on the argument dict {name: V}"""

    def __init__(self, cx, S):
        self.cx, self.S = cx, S
        self.k = 0

    def ev(self, t, env):
        S = self.S
        if not isinstance(t, PT):
            return Unknown(repr(t))
        k, a = t.kind, t.args
        if k == 'var':
            nm = a[0]
            if nm in env:
                return env[nm]
            if nm in ('numpy', 'a', 'ValueError'):
                return ('global', nm)
            return Unknown('variable %r' % (nm,))
        if k == 'str':
            return ('str', a[0])
        if k == 'item':
            o, i = self.ev(a[0], env), self.ev(a[1], env)
            if o == ('global', 'a') and isinstance(i, tuple) and i[0] == 'str' and isinstance(i[1], STerm):
                return ('supplied', i[1].term)  # the value supplied under that name
            return Unknown('subscript')
        if k == 'attr':
            o = self.ev(a[0], env)
            if o == ('global', 'numpy'):
                return ('numpy', a[1])
            if isinstance(o, tuple) and o[0] == 'array' and a[1] == 'shape':
                return ('shape', SHAPEOF(o[1]))
            if isinstance(o, tuple) and o[0] == 'str' and a[1] == 'format':
                return ('format',)
            return Unknown('attribute %s' % (a[1],))
        if k == 'call':
            f = self.ev(a[0], env)
            args = [self.ev(x, env) for x in a[1]]
            kw = {n: self.ev(x, env) for n, x in a[2].items()}
            if f == ('numpy', 'asarray') and len(args) == 1 and set(kw) <= {'dtype'} and isinstance(args[0], tuple) and args[0][0] == 'supplied':
                self.cx.used_axioms.add('numpy.asarray(v, dtype=...) is an array of shape numpy.shape(v): no broadcasting, no reshaping')
                # the value supplied under the name `n` is V when n is the argument's own name (another name: some other value)
                v = z3.If(args[0][1] == S.name.term, S.V, z3.Const('other_value', VALUE))
                return ('array', v, kw.get('dtype'))
            if f == ('format',):
                return ('str', None)
            if f == ('global', 'ValueError'):
                return ('exc', 'ValueError')
            return Unknown('call of %r' % (f,))
        if k == 'binop':
            x, op, y = self.ev(a[0], env), a[1], self.ev(a[2], env)
            if op in ('!=', '==') and all(isinstance(v, tuple) and v[0] == 'shape' for v in (x, y)):
                e = x[1] == y[1]
                return ('bool', e if op == '==' else z3.Not(e))
            self.k += 1
            return ('bool', z3.Bool('unknown_condition_%d' % self.k))
        return Unknown(k)

    def run(self, stmts, env, pc):
        """-> list of (path condition, raised exception or None, env)"""
        states = [(pc, None, env)]
        for st in stmts:
            nxt = []
            for c, raised, e in states:
                if raised is not None:
                    nxt.append((c, raised, e))
                    continue
                if st[0] == 'assign':
                    lhs = st[1]
                    if not (isinstance(lhs, PT) and lhs.kind == 'var'):
                        raise Unsupported('generated assignment to %r' % (lhs,))
                    e2 = dict(e)
                    e2[lhs.args[0]] = self.ev(st[2], e)
                    nxt.append((c, None, e2))
                elif st[0] == 'if':
                    b = self.ev(st[1], e)
                    if not (isinstance(b, tuple) and b[0] == 'bool'):
                        self.k += 1
                        b = ('bool', z3.Bool('unknown_condition_%d' % self.k))
                    nxt += self.run(st[2].stmts, e, z3.And(c, b[1]))
                    nxt.append((z3.And(c, z3.Not(b[1])), None, e))
                elif st[0] == 'raise':
                    x = self.ev(st[1], e)
                    nxt.append((c, x[1] if isinstance(x, tuple) and x[0] == 'exc' else 'unknown exception', e))
                elif st[0] == 'assert':
                    b = self.ev(st[1], e)
                    if not (isinstance(b, tuple) and b[0] == 'bool'):
                        self.k += 1
                        b = ('bool', z3.Bool('unknown_condition_%d' % self.k))
                    nxt.append((z3.And(c, z3.Not(b[1])), 'AssertionError', e))
                    nxt.append((z3.And(c, b[1]), None, e))
                else:
                    raise Unsupported('generated statement %r' % (st[0],))
            states = nxt
        return states


class ArgumentCompile(Contract):
    prop = PROP
    fn = 'evaluable:Argument._compile'
    bounded = None

    def setup(self, cx):
        nm = name(cx, 'self.name')
        declared = shape(cx, 'declared.shape')
        V = cx.const('supplied.value', VALUE)
        S = State(name=nm, declared=declared, V=V, block=Block())
        me = SObj('Argument', attrs=dict(name=nm, shape=SOpaque('self.shape'), ast_dtype=PT('var', 'DTYPE'), dtype=SOpaque('dtype')), classes=('Argument', 'Array'))
        S.me = me

        def compile_(ctx, b, what):
            if what is not me.attrs['shape']:
                raise Unsupported('builder.compile(%r)' % (what,))
            return PT('var', 'SHAPE')  # the variable holding the evaluated declared shape (a tuple of ints)
        builder = SObj('_BlockTreeBuilder', methods=dict(
            compile=compile_,
            get_variable_for_evaluable=lambda ctx, b, e: PT('var', 'out') if e is me else PT('var', 'other'),
            get_block_for_evaluable=lambda ctx, b, e, **k: S.block,
            get_argument=lambda ctx, b, n: InlineFn('evaluable:_BlockTreeBuilder.get_argument')(ctx, b, n)))
        S.args = (me, builder)
        S.globals = {'_pyast': PyAst()}
        return S

    def ensures(self, cx, S, result):
        gi = GenInterp(cx, S)
        env0 = {'SHAPE': ('shape', S.declared.term), 'DTYPE': ('dtype',)}
        states = gi.run(S.block.stmts, env0, z3.BoolVal(True))
        wrong = SHAPEOF(S.V) != S.declared.term
        is_out = isinstance(result, PT) and result.kind == 'var' and result.args[0] == 'out'

        def holds_asarray(e):
            o = e.get('out')
            if not (isinstance(o, tuple) and o[0] == 'array'):
                return z3.BoolVal(False)
            return z3.And(o[1] == S.V, z3.BoolVal(o[2] == ('dtype',)))
        reads = z3.And(*[z3.Implies(c, holds_asarray(e)) for c, r, e in states]) if states else z3.BoolVal(False)
        wrongraises = z3.And(*[z3.Implies(z3.And(c, wrong), z3.BoolVal(r == 'ValueError')) for c, r, e in states])
        rightok = z3.And(z3.BoolVal(is_out), *[z3.Implies(z3.And(c, z3.Not(wrong)), z3.And(z3.BoolVal(r is None), holds_asarray(e))) for c, r, e in states])
        return [('reads-the-supplied-value-of-its-own-name-as-array-of-its-dtype', reads),
                ('wrong-shape-raises-ValueError-never-broadcasts', wrongraises),
                ('right-shape-is-accepted-unchanged', rightok)]

    def replay(self, ob):
        return _script('argument_shape_check()')


def contracts():
    return [ArgumentCompile()]
