"""C09 (evaluable twin of _TakeElements): get_evaluable_indices builds its own offsets with an IR loop
(loop_concatenate of the per-element sizes, _SizesToOffsets) and returns Range(size) + offsets[ielem].

The value it denotes must be getindex(ielem) = _offsets[ielem] + k.  Both offset arrays satisfy the SAME cumsum recurrence
from the same start; that they agree everywhere is an induction, discharged as explicit base + step obligations
(`offsets-agree-base`, `offsets-agree-step`) with the induction principle itself applied at the meta level (DESIGN 2.6,
third route).  Bounded: the parent's get_evaluable_indices denotes a vector (one point axis; no Unravel)."""
import z3
from pyvc.contract import Contract, State
from pyvc.values import SInt, SObj, Unsupported, zint, is_intlike
from pyvc import ops, extract
from contracts.samplepart import PROP, HERE, fresh_idxvec, cumsum_invariant, fa, TypesStub
from contracts.sampleeval import IRA, LoopIndex, Evaluable, PSampleE


def _mentions(formula, var):
    seen, stack = set(), [formula]
    while stack:
        t = stack.pop()
        if t.get_id() in seen:
            continue
        seen.add(t.get_id())
        if z3.eq(t, var):
            return True
        if z3.is_quantifier(t):
            stack.append(t.body())
        else:
            stack.extend(t.children())
    return False


class GuardedCtx:
    """wraps the path context: an obligation that mentions a loop variable is stated for 0 <= var < loop length only"""

    def __init__(self, ctx, loops):
        self._ctx, self._loops = ctx, loops

    def __getattr__(self, name):
        return getattr(self._ctx, name)

    def oblige(self, clause, goal, kind='invariant', info=None, bounded=None):
        for li in self._loops:
            if _mentions(goal, li.var):
                goal = z3.Implies(z3.And(0 <= li.var, li.var < li.length), goal)
        return self._ctx.oblige(clause, goal, kind=kind, info=info, bounded=bounded)


class EvaluableL(Evaluable):
    """Evaluable model that remembers its loop indices (range guards) and the arrays _SizesToOffsets produced."""

    def __init__(self):
        self.loops, self.offsets = [], []

    def sym_getattr(self, ctx, name):
        f = super().sym_getattr(ctx, name)
        g = GuardedCtx

        def call(ctx, *a, **k):
            return f(g(ctx, self.loops), *a, **k)
        return call

    def ev_loop_index(self, ctx, name, length):
        li = super().ev_loop_index(ctx, name, length)
        self.loops.append(li)
        return li

    def ev__SizesToOffsets(self, ctx, sizes):
        r = super().ev__SizesToOffsets(ctx, sizes)
        self.offsets.append(r)
        return r


class UtilStub:
    def sym_getattr(self, ctx, name):
        if name == 'product':
            def product(ctx, seq):
                xs = ops.iterate(ctx, seq)
                if not xs:
                    from pyvc.values import PyRaise
                    raise PyRaise('TypeError', note='reduce() of empty sequence')
                acc = xs[0]
                for x in xs[1:]:
                    acc = ops.binop(ctx, '*', acc, x)
                return acc
            return product
        raise Unsupported('util.' + name)


class TakeTwin(Contract):
    prop = PROP
    fn = 'sample:_TakeElements.get_evaluable_indices'
    bounded = 'parent with one point axis (its get_evaluable_indices is a vector): no Unravel step'

    def setup(self, cx):
        S = State()
        ev = EvaluableL()
        S.ev = ev
        S.globals = {'evaluable': ev, 'types': TypesStub(), 'util': UtilStub()}
        par = PSampleE(cx, 'parent')
        par.methods['get_evaluable_indices'] = lambda ctx, me_, el: PSampleE._gei(GuardedCtx(ctx, ev.loops), me_, el)
        ne = cx.int('nelems')
        cx.assume(ne >= 1)
        ind = fresh_idxvec(cx, 'indices', ne)
        cx.assume(fa(1, lambda i: z3.Implies(z3.And(0 <= i, i < ne), z3.And(0 <= ind.sel(i), ind.sel(i) < par.ne))),
                  axiom='class invariant of _TakeElements: every entry of _indices is an element number of the parent')
        cnt = lambda i: par.cnt(ind.sel(i))
        off = fresh_idxvec(cx, '_offsets', ne + 1)
        cumsum_invariant(cx, off, ne, cnt)
        e, k, j = cx.int('ielem'), cx.int('k'), cx.int('j')
        cx.assume(z3.And(0 <= e, e < ne))
        S.ne, S.off, S.cnt, S.e, S.k, S.j = ne, off, cnt, e, k, j
        me = SObj('_TakeElements', attrs=dict(nelems=SInt(ne), _indices=ind, _parent=par))

        def getshape(ctx, me_, index):
            f = extract.get('sample:_TakeElements._getshape')
            return ctx.interp.call_function(f.node, (me_, index), {})
        me.methods['_getshape'] = getshape
        S.args = (me, IRA((), lambda: e, 'ielem'))
        return S

    def ensures(self, cx, S, r):
        if not isinstance(r, IRA):
            raise Unsupported('returned %r' % (r,))
        if len(r.shape_) != 1:
            return [('same-rank-as-getindex', z3.BoolVal(False))]
        if len(S.ev.offsets) != 1:
            raise Unsupported('expected exactly one _SizesToOffsets node, found %d' % len(S.ev.offsets))
        O = S.ev.offsets[0]
        off, ne, e, k, j = S.off, S.ne, S.e, S.k, S.j
        agree = fa(1, lambda i: z3.Implies(z3.And(0 <= i, i <= ne), O.sel(i) == off.sel(i)))
        return [('same-rank-as-getindex', z3.BoolVal(True)),
                ('offsets-node-has-nelems-plus-1-entries', O.shape_[0] == ne + 1),
                ('offsets-agree-base', O.sel(z3.IntVal(0)) == off.sel(z3.IntVal(0))),
                ('offsets-agree-step', z3.Implies(z3.And(0 <= j, j < ne, O.sel(j) == off.sel(j)), O.sel(j + 1) == off.sel(j + 1))),
                ('same-shape-as-getindex', r.shape_[0] == S.cnt(e)),
                ('denotes-the-index-getindex-returns', z3.Implies(z3.And(agree, 0 <= k, k < S.cnt(e)), r.sel(k) == off.sel(e) + k))]

    def replay(self, ob):
        return "import sys; sys.path.insert(0, %r)\nfrom native import c09\nc09.twin('_TakeElements')\n" % HERE


def contracts():
    return [TakeTwin()]
