"""C17 (kernel) -- the nutils hash is an injective, order-independent encoding (SHA-1 idealised).

types.nutils_hash(data) feeds   type-name + NUL + payload   into an outer SHA-1.  With SHA-1 assumed injective,
"equal hashes => equal values" reduces, branch by branch, to DECODABILITY of that byte string, proved here on the real
code by running it twice on symbolic inputs of the same kind and comparing the two outer buffers:

  name-prefix      buf1 == buf2  =>  the two type names are equal (names contain no NUL)
  payload          buf1 == buf2 and equal names  =>  the children's digests / leaf bytes are equal, same number of
                   children (fixed-width blocks; loop invariants over the number of children; ndarray header is
                   NUL-terminated; file position is delimited)
  order            for dict / set / frozenset / dataclass / frozendict / frozenmultiset: the buffer is the same for
                   every iteration order of the container (only `sorted(...)` can discharge this)

Equal digests of children give equal children by structural induction (meta).  Immutable.__nutils_hash__,
DataClass.__nutils_hash__, frozendict.__nutils_hash__, frozenmultiset.__nutils_hash__ get the same treatment.
"""
import z3
from pyvc.contract import Contract, State
from pyvc.values import SInt, SBool, SObj, SOpaque, Sym, Unsupported, PyRaise, zint, zbool
from pyvc.nparr import Vec, qforall, qexists, I
from pyvc.bytesdom import BytesV, StrV, Sha1, Digest, Hashlib, SymSeq, MappedSeq, Unordered, bcat, beq, parts_equal, uid, DG
from pyvc.interp import Loop
from pyvc.ops import Builtin, ClassRef

PROP = 'C17'
LEVEL = 'proof'
REFUTE_BOUND = 45  # counterexample search needs room for name + NUL + two 20-byte blocks

BUILTIN_NAMES = {'bool': bool, 'int': int, 'float': float, 'complex': complex, 'str': str, 'bytes': bytes, 'list': list, 'tuple': tuple,
                 'dict': dict, 'set': set, 'frozenset': frozenset, 'type': type}


class TypeVal(Sym):
    """type(data): a class object with a symbolic __name__ and a concrete kind tag."""

    def __init__(self, tag, namebytes, run):
        self.tag, self.namebytes, self.run = tag, namebytes, run

    def getattr(self, ctx, name):
        if name in ('__name__', '__qualname__', '__module__'):
            return StrV(self.namebytes if name == '__name__' else self.extra(ctx, name))
        if name == '_version':
            return SOpaque('version')
        raise Unsupported('type.%s' % name)

    def extra(self, ctx, name):
        return BytesV.fresh_bytes(ctx, 'type.%s.run%d' % (name, self.run), nonzero=True)

    def _is(self, other):
        t = other.type if isinstance(other, Builtin) else other
        if isinstance(t, type):
            return BUILTIN_NAMES.get(self.tag) is t
        if isinstance(t, ClassRef):
            return t.__name__ == self.tag
        return other is self

    def identical(self, ctx, other):
        return self._is(other)

    def compare(self, ctx, op, other, reflected):
        if op in ('==', '!='):
            r = self._is(other)
            return r if op == '==' else not r
        return NotImplemented

    def truth(self, ctx):
        return True


class Data(Sym):
    """A value to be hashed, of one kind (tag); attribute access mimics the real object."""

    def __init__(self, cx, tag, run, **parts):
        self.tag, self.run = tag, run
        self.__dict__.update(parts)
        self.typeval = TypeVal(tag, parts['typename'], run)

    def pytype(self, ctx):
        return self.typeval

    def getattr(self, ctx, name):
        a = getattr(self, 'attrs', {})
        if name in a:
            return a[name]
        raise PyRaise('AttributeError', note=name)

    def isinstance_(self, ctx, types):
        return False

    def identical(self, ctx, other):
        if other is Ellipsis:
            return self.tag == 'ellipsis'
        if other is None:
            return self.tag == 'NoneType'
        return other is self

    def is_none(self, ctx):
        return self.tag == 'NoneType'

    # sequences
    def seq_len(self, ctx):
        return self.seq.seq_len(ctx)

    def seq_at(self, ctx, j):
        return self.seq.seq_at(ctx, j)

    def sym_str(self, ctx):
        return StrV(self.strbytes)

    @property
    def width(self):
        return self.seq.width

    def abstract_at(self, e):
        return self.seq.abstract_at(e)


class Child(Sym):
    """child `j` of run `run`: nutils_hash(child) is the opaque digest CH(run, j) (induction hypothesis)."""

    def __init__(self, fam, j):
        self.fam, self.j = fam, j


class Family:
    """a family of children with digests: digest id = F(j)"""

    def __init__(self, cx, name):
        self.f = z3.Function('childdigest!%s!%d' % (name, uid()), I, I)

    def digest(self, ctx, j):
        return Digest(ctx, ident=self.f(j), label='child-digest')


def nutils_hash_stub(registry):
    def nh(ctx, x):
        if isinstance(x, Child):
            return x.fam.digest(ctx, x.j)
        if isinstance(x, StrV):
            return Digest(ctx, source=x.enc, label='str-digest')
        if isinstance(x, tuple) and len(x) == 2 and isinstance(x[1], Child):
            # dataclass: nutils_hash((field.name, value)) -- a digest determined by the field (name and value)
            return x[1].fam.digest(ctx, x[1].j)
        raise Unsupported('recursive nutils_hash of %r' % (x,))
    return nh


def block_invariant(S, width_of):
    """Loop invariant shared by all "for item in ...: h.update(block)" loops:
    buffer = prefix + the first i blocks (fixed width w), blocks given by the iterable."""
    def inv(cx, env, i):
        h = env.lookup('h')
        it = cx.loop_iterable
        run = S.current_run
        key = ('pre', run)
        if key not in S.snap:
            S.snap[key] = (h.buf.n, h.buf.sel, it)  # buffer at loop entry
        base, pre, it0 = S.snap[key]
        w = width_of(it0)
        blk = lambda j: S.block_of(it0, j)
        return z3.And(h.buf.n == base + w * i,
                      qforall(1, lambda k: z3.Implies(z3.And(0 <= k, k < base), h.buf.sel(k) == pre(k))),
                      qforall(2, lambda j, b: z3.Implies(z3.And(0 <= j, j < i, 0 <= b, b < w), h.buf.sel(base + w * j + b) == blk(j).sel(b))))
    return inv


class TwoRuns(Contract):
    """harness: nutils_hash on two symbolic values of the same kind; compares the outer buffers"""
    prop = PROP
    fn = 'types:nutils_hash'
    kind = None
    target = 'types:nutils_hash'
    split_conjunctions = False

    def __init__(self):
        self.label = self.kind
        S_holder = self

        def width_of(it):
            return it.width

        self._inv = None

    def make_loops(self, S):
        inv = block_invariant(S, lambda it: it.width)
        return {k: Loop(inv, label='blocks', match=m) for k, m in enumerate(self.loop_matches)}

    loop_matches = ()

    def setup(self, cx):
        S = State(registry=[], snap={}, current_run=0, bufs={}, data={})
        S.block_of = lambda it, j: it.seq_at(cx, j)
        self.loops = self.make_loops(S)
        S.globals = self.base_globals(cx, S)
        for run in (1, 2):
            S.data[run] = self.make(cx, S, run)
        return S

    def base_globals(self, cx, S):
        class NP:
            def sym_getattr(self, ctx, name):
                if name == 'generic':
                    return ClassRef('generic')
                if name == 'ndarray':
                    return ClassRef('ndarray')
                raise Unsupported('numpy.' + name)

        class IO:
            def sym_getattr(self, ctx, name):
                return ClassRef(name)

        class Types:
            def sym_getattr(self, ctx, name):
                return ClassRef(name)

        class DC:
            def sym_getattr(self, ctx, name):
                if name == 'is_dataclass':
                    return lambda ctx, t: isinstance(t, TypeVal) and t.tag == 'dataclass'
                if name == 'fields':
                    return lambda ctx, t: S.fields[t.run]
                raise Unsupported('dataclasses.' + name)
        return {'hashlib': Hashlib(S.registry), 'numpy': NP(), 'io': IO(), 'types': Types(), 'dataclasses': DC(),
                'nutils_hash': nutils_hash_stub(S.registry),
                'issubclass': lambda ctx, t, c: isinstance(t, TypeVal) and t.tag == getattr(c, '__name__', None),
                'hasattr': lambda ctx, o, a: isinstance(o, Data) and a in getattr(o, 'attrs', {})}

    def typename(self, cx, run):
        return BytesV.fresh_bytes(cx, 'typename.run%d' % run, nonzero=True)

    def body(self, cx, S, call):
        out = {}
        for run in (1, 2):
            S.current_run = run
            before = len(S.registry)
            d = call(self.target, S.data[run])
            if not isinstance(d, Digest) or d.source is None:
                raise Unsupported('nutils_hash returned %r' % (d,))
            S.bufs[run] = d.source
            out[run] = d
        return out

    def ensures(self, cx, S, result):
        b1, b2 = S.bufs[1], S.bufs[2]
        eq = beq(b1, b2)
        n1, n2 = self.names(S, 1), self.names(S, 2)
        out = [('name-prefix', z3.Implies(eq, beq(n1, n2)))]
        pay = self.payload_equal(cx, S)
        if pay is not None:
            out.append(('payload', z3.Implies(z3.And(eq, beq(n1, n2)), pay)))
        return out

    def names(self, S, run):
        return S.data[run].typename


# ---- leaves ---------------------------------------------------------------------------------------------------

class Leaf(TwoRuns):
    """bool/int/float/complex: one digest of repr(data); str / bytes: one digest of the bytes; type: digest of __name__"""

    def __init__(self, kind):
        self.kind = kind
        super().__init__()

    def make(self, cx, S, run):
        content = BytesV.fresh_bytes(cx, 'content.run%d' % run)
        d = Data(cx, self.kind, run, typename=self.typename(cx, run), content=content, strbytes=content)
        if self.kind == 'str':
            d.attrs = {'encode': lambda ctx, *a: content}
        if self.kind == 'type':
            d.attrs = {'__name__': StrV(content)}
        if self.kind == 'bytes':
            # hashlib.sha1(data) receives the bytes object itself
            d = BytesData(cx, run, self.typename(cx, run), content)
        return d

    def base_globals(self, cx, S):
        g = super().base_globals(cx, S)
        g['repr'] = lambda ctx, x: StrV(x.content)  # repr of a Python scalar: assumed injective
        return g

    def payload_equal(self, cx, S):
        # equal outer buffers force equal leaf bytes, however the code chose to embed them (one inner digest on the
        # pinned tree).  SHA-1 injectivity is instantiated for every pair of inner digests of the two runs.
        for a in S.inner_all.get(1, []):
            for b in S.inner_all.get(2, []):
                cx.assume(z3.Implies(qforall(1, lambda k: z3.Implies(z3.And(0 <= k, k < 20), a.sel(k) == b.sel(k))), beq(a.source, b.source)),
                          axiom='SHA-1 injectivity instance: equal digests => equal inputs')
        return beq(S.data[1].content, S.data[2].content)

    def body(self, cx, S, call):
        S.inner = {}
        out = {}
        for run in (1, 2):
            S.current_run = run
            before = len(S.registry)
            d = call(self.target, S.data[run])
            S.bufs[run] = d.source
            made = S.registry[before:]
            S.inner_all = getattr(S, 'inner_all', {})
            S.inner_all[run] = [x for x in made if x is not d and x.source is not None]
            out[run] = d
        return out


class BytesData(BytesV):
    def __init__(self, cx, run, typename, content):
        super().__init__(content.n, content.sel, 'bytesdata')
        self.typename, self.content, self.run = typename, content, run
        self.typeval = TypeVal('bytes', typename, run)

    def pytype(self, ctx):
        return self.typeval

    def getattr(self, ctx, name):
        if name == '__nutils_hash__':
            raise PyRaise('AttributeError')
        return super().getattr(ctx, name)

    def isinstance_(self, ctx, types):
        return False

    def identical(self, ctx, other):
        return other is self


class Singleton(TwoRuns):
    """None / Ellipsis: name only"""

    def __init__(self, kind):
        self.kind = kind
        super().__init__()

    def make(self, cx, S, run):
        return Data(cx, self.kind, run, typename=self.typename(cx, run))

    def payload_equal(self, cx, S):
        return None


# ---- ordered containers: tuple / list, __getnewargs__, MethodType ---------------------------------------------

class Blocks(SymSeq):
    def __init__(self, n, at, width, name='blocks'):
        super().__init__(n, at, name)
        self.width = width


class TupleLike(TwoRuns):
    kind = 'tuple'
    loop_matches = ('for item in data', 'for arg in data.__getnewargs__()')

    def __init__(self, kind='tuple'):
        self.kind = kind
        super().__init__()

    def make(self, cx, S, run):
        n = cx.int('nitems.run%d' % run)
        cx.assume(n >= 0)
        fam = Family(cx, 'item.run%d' % run)
        seq = Blocks(n, lambda j: Child(fam, j), 20, 'items')
        d = Data(cx, self.kind, run, typename=self.typename(cx, run), seq=seq, fam=fam, n=n)
        if self.kind == 'getnewargs':
            d.attrs = {'__getnewargs__': lambda ctx: seq}
            d.seq = None
        S.block_of = lambda it, j: S.data[S.current_run].fam.digest(cx, j) if True else None
        return d

    def setup(self, cx):
        S = super().setup(cx)
        # blocks appended in iteration j: the digest of child j of the current run
        S.block_of = lambda it, j: it.fam.digest(cx, j)
        for run in (1, 2):
            sq = S.data[run].seq if S.data[run].seq is not None else S.data[run].attrs['__getnewargs__'](cx)
            sq.fam = S.data[run].fam
        return S

    def payload_equal(self, cx, S):
        d1, d2 = S.data[1], S.data[2]
        return z3.And(d1.n == d2.n, qforall(2, lambda j, b: z3.Implies(z3.And(0 <= j, j < d1.n, 0 <= b, b < 20),
                                                                        DG(d1.fam.f(j), b) == DG(d2.fam.f(j), b))))


# ---- unordered containers ----------------------------------------------------------------------------------------

class SetLike(TwoRuns):
    """set / frozenset: sorted(map(nutils_hash, data)); dict: sorted(nutils_hash(k)+nutils_hash(v) ...).
    Both runs hash THE SAME abstract container, iterated in two different orders; and two different containers."""
    loop_matches = ('for item in sorted',)
    split_conjunctions = True

    def __init__(self, kind, same_set):
        self.kind = kind
        self.same_set = same_set
        super().__init__()
        self.label = '%s,%s' % (kind, 'same-set-two-orders' if same_set else 'two-sets')

    def make(self, cx, S, run):
        if run == 2 and self.same_set:
            first = S.data[1]
            n, famk, famv, abstract = first.n, first.famk, first.famv, first.abstract
            tn = first.typename
        else:
            n = cx.int('nitems.run%d' % run)
            cx.assume(n >= 0)
            famk, famv = Family(cx, 'key.run%d' % run), Family(cx, 'val.run%d' % run)
            abstract = {}
            tn = self.typename(cx, run)
        if self.kind in ('dict', 'frozendict'):
            elem = lambda e: (Child(famk, e), Child(famv, e))
        else:
            elem = lambda e: Child(famk, e)
        seq = Unordered(cx, n, elem, 'iter.run%d' % run, abstract)
        abstract['elem_block'] = True
        d = Data(cx, self.kind, run, typename=tn, seq=seq, n=n, famk=famk, famv=famv, abstract=abstract)
        if self.kind in ('dict', 'frozendict'):
            d.attrs = {'items': lambda ctx: seq}
        return d

    def setup(self, cx):
        S = super().setup(cx)

        def block_of(it, j):
            # the block appended in iteration j: the item itself when the loop runs over digests (sorted(...) in the real code), or the
            # digest(s) of the raw item when a variant of the code loops over the container directly (then the order is the iteration order)
            x = it.seq_at(cx, j)
            if isinstance(x, Child):
                return x.fam.digest(cx, x.j)
            if isinstance(x, tuple) and len(x) == 2 and all(isinstance(c, Child) for c in x):
                return bcat(x[0].fam.digest(cx, x[0].j), x[1].fam.digest(cx, x[1].j))  # closed form: evaluated under a quantifier
            return x
        S.block_of = block_of
        return S

    def replay(self, ob):
        import os
        here = os.path.dirname(os.path.dirname(os.path.abspath(__file__)))
        return "import sys; sys.path.insert(0, %r)\nfrom native import c17\nc17.order_independence()\n" % here

    def make_loops(self, S):
        inv = block_invariant(S, lambda it: 40 if self.kind in ('dict', 'frozendict') else 20)
        return {0: Loop(inv, label='blocks', match=('for item in sorted', 'for item in map', 'for item in data', 'for item in (', 'for k, v in', 'for (k, v) in', 'in data.items()'))}

    def ensures(self, cx, S, result):
        b1, b2 = S.bufs[1], S.bufs[2]
        if self.same_set:
            # By the loop invariant (proved: init/preserve) each buffer is  prefix + blocks A(0..n-1)  with A(j) the block
            # appended in iteration j.  Order independence: same length, same prefix, and the same block at every j for
            # the two iteration orders; pointwise equality of the buffers follows (every position past the prefix is
            # base + w*j + b for exactly one (j, b): L-DIVMOD).
            w = 40 if self.kind in ('dict', 'frozendict') else 20
            (base1, pre1, it1), (base2, pre2, it2) = S.snap[('pre', 1)], S.snap[('pre', 2)]
            n = S.data[1].n
            A1 = lambda j: S.block_of(it1, j)
            A2 = lambda j: S.block_of(it2, j)
            return [('order-independent', z3.And(
                b1.n == b2.n, base1 == base2,
                qforall(1, lambda k: z3.Implies(z3.And(0 <= k, k < base1), pre1(k) == pre2(k))),
                qforall(2, lambda j, b: z3.Implies(z3.And(0 <= j, j < n, 0 <= b, b < w), A1(j).sel(b) == A2(j).sel(b)))))]
        return super().ensures(cx, S, result)

    def payload_equal(self, cx, S):
        # equal buffers => same number of items and the sorted block sequences agree blockwise
        d1, d2 = S.data[1], S.data[2]
        return d1.n == d2.n


# ---- __nutils_hash__ of Immutable / DataClass / frozendict ----------------------------------------------------------------

def name_hooks(cx, S):
    """'{}.{}:{}\\0'.format(module, qualname, version) / f'{module}.{qualname}\\0': a type-identifying name.  The NUL
    terminator is read from the literal template; the rest is an opaque NUL-free byte string per run."""
    def make(template_tail_has_nul, run):
        key = 1 if getattr(S, 'same_name', False) else run
        if key not in S.names:
            S.names[key] = BytesV.fresh_bytes(cx, 'qualified-name.run%d' % key, nonzero=True)
        S.names[run] = nm = S.names[key]
        return StrV(bcat(nm, BytesV.of(b'\0'), cx) if template_tail_has_nul else nm)

    def fmt(template, a, k):
        if template == '{:04d}':
            return StrV(S.count_bytes(a[0]))
        if '{:' in template or '{!' in template:
            raise Unsupported('format template %r is not modelled' % template)
        return make(template.endswith('\0'), S.current_run)

    def fstr(parts):
        lits = [p for p in parts if isinstance(p, str)]
        return make(bool(lits) and lits[-1].endswith('\0'), S.current_run)
    cx.format_hook, cx.fstring_hook = fmt, fstr


class ObjHash(TupleLike):
    """Immutable.__nutils_hash__ / DataClass.__nutils_hash__: qualified name + NUL, then one digest per argument."""

    def __init__(self, which):
        self.which = which
        TwoRuns.__init__(self)
        self.kind = which
        self.label = which
        self.fn = self.target = {'Immutable': 'types:Immutable.__nutils_hash__', 'DataClass': 'types:DataClass.__nutils_hash__'}[which]
        self.loop_matches = ('for arg in self._args', 'for name in self.__signature__')

    def setup(self, cx):
        S = TwoRuns.setup(self, cx)
        S.names = {}
        name_hooks(cx, S)
        S.block_of = lambda it, j: it.fam.digest(cx, j)
        return S

    def make(self, cx, S, run):
        n = cx.int('nargs.run%d' % run)
        cx.assume(n >= 0)
        fam = Family(cx, 'arg.run%d' % run)
        seq = Blocks(n, lambda j: Child(fam, j), 20, 'args')
        seq.fam = fam
        d = Data(cx, self.which, run, typename=None, seq=None, fam=fam, n=n)
        if self.which == 'Immutable':
            d.attrs = {'_args': seq}
        else:
            names = Blocks(n, lambda j: FieldName(fam, j), 20, 'params')
            names.fam = fam
            d.attrs = {'__signature__': SObj('Signature', attrs={'parameters': names})}
        return d

    def base_globals(self, cx, S):
        g = super().base_globals(cx, S)
        g['getattr'] = lambda ctx, o, nm: Child(nm.fam, nm.j) if isinstance(nm, FieldName) else (_ for _ in ()).throw(Unsupported('getattr'))
        return g

    def names(self, S, run):
        return S.names[run]


class FieldName(Sym):
    def __init__(self, fam, j):
        self.fam, self.j = fam, j


class FrozenDictHash(SetLike):
    def __init__(self, same_set):
        SetLike.__init__(self, 'dict', same_set)
        self.kind = 'frozendict'
        self.label = 'frozendict,%s' % ('same-set-two-orders' if same_set else 'two-sets')
        self.fn = self.target = 'types:frozendict.__nutils_hash__'

    def setup(self, cx):
        S = SetLike.setup(self, cx)
        S.names = {}
        S.same_name = self.same_set  # the same object hashed under two iteration orders has one type
        name_hooks(cx, S)
        return S

    def make(self, cx, S, run):
        d = SetLike.make(self, cx, S, run)
        d.attrs = {'items': (lambda ctx, seq=d.seq: seq)}
        if run == 2 and self.same_set:
            S.names = getattr(S, 'names', {})
        return d

    def names(self, S, run):
        if self.same_set:
            return S.names[1] if 1 in S.names else S.names[run]
        return S.names[run]


# ---- seekable file objects ------------------------------------------------------------------------------------------------

DLEN = z3.Function('decimal_len', I, I)
DIG = z3.Function('decimal_digit', I, I, I)


class FileData(Data):
    def __init__(self, cx, run, typename):
        Data.__init__(self, cx, 'BufferedIOBase', run, typename=typename)
        self.content = BytesV.fresh_bytes(cx, 'file-content.run%d' % run)
        self.pos = cx.int('file-pos.run%d' % run)
        cx.assume(self.pos >= 0)
        self.off = z3.IntVal(0)
        self.seeks = []

    def getattr(self, ctx, name):
        if name == '__nutils_hash__':
            raise PyRaise('AttributeError')
        if name == 'seekable':
            return lambda ctx: True
        if name == 'tell':
            return lambda ctx: SInt(self.pos)
        if name == 'seek':
            def seek(ctx, p):
                self.seeks.append(p)
                if isinstance(p, int) and p == 0:
                    self.off = z3.IntVal(0)
            return seek
        if name == 'read':
            def read(ctx, size):
                # returns the next 0 <= n <= size bytes; empty exactly at end of file
                n = ctx.int('chunklen', report=False)
                off, c = self.off, self.content
                ctx.assume(z3.And(n >= 0, n <= zint(size), off + n <= c.n, (n == 0) == (off == c.n)), axiom='file.read(k): the next n <= k bytes, empty exactly at end of file')
                self.off = off + n
                ch = BytesV(n, lambda i: c.sel(off + i), 'chunk')
                return ch
            return read
        raise Unsupported('file.' + name)


class FileBranch(TwoRuns):
    kind = 'BufferedIOBase'
    label = 'seekable-file'
    split_conjunctions = True

    def __init__(self):
        TwoRuns.__init__(self)
        self.label = 'seekable-file'

    def make_loops(self, S):
        def inv(cx, env):
            h, chunk = env.lookup('h'), env.lookup('chunk')
            d = S.data[S.current_run]
            key = ('filepre', S.current_run)
            if key not in S.snap:
                S.snap[key] = (h.buf.n, h.buf.sel)
            base, pre = S.snap[key]
            c, off = d.content, d.off
            done = off - chunk.n
            return z3.And(chunk.n >= 0, done >= 0, off <= c.n, (chunk.n == 0) == (done == c.n), h.buf.n == base + done,
                          qforall(1, lambda k: z3.Implies(z3.And(0 <= k, k < base), h.buf.sel(k) == pre(k))),
                          qforall(1, lambda k: z3.Implies(z3.And(0 <= k, k < done), h.buf.sel(base + k) == c.sel(k))),
                          qforall(1, lambda k: z3.Implies(z3.And(0 <= k, k < chunk.n), chunk.sel(k) == c.sel(done + k))))

        def havoc_file(cx, env):
            d = S.data[S.current_run]
            d.off = cx.int('file-offset', report=False)
        return {0: Loop(inv, label='chunks', match='while chunk', on_havoc=havoc_file)}

    def make(self, cx, S, run):
        return FileData(cx, run, self.typename(cx, run))

    def base_globals(self, cx, S):
        g = super().base_globals(cx, S)

        def pystr(ctx, x):
            p = zint(x)
            n = DLEN(p)
            ctx.assume(z3.And(n >= 1, qforall(1, lambda i: z3.Implies(z3.And(0 <= i, i < n), z3.And(DIG(p, i) >= 48, DIG(p, i) <= 57)))), axiom="str(int): a non-empty string of ASCII digits, injective in the integer")
            return StrV(BytesV(n, lambda i: DIG(p, i), 'decimal'))
        g['str'] = pystr
        return g

    def replay(self, ob):
        import os
        here = os.path.dirname(os.path.dirname(os.path.abspath(__file__)))
        return "import sys; sys.path.insert(0, %r)\nfrom native import c17\nc17.file_collision()\n" % here

    def payload_equal(self, cx, S):
        d1, d2 = S.data[1], S.data[2]
        p, q = d1.pos, d2.pos
        cx.assume(z3.Implies(z3.And(DLEN(p) == DLEN(q), qforall(1, lambda i: z3.Implies(z3.And(0 <= i, i < DLEN(p)), DIG(p, i) == DIG(q, i)))), p == q),
                  axiom="str(int): a non-empty string of ASCII digits, injective in the integer")
        return z3.And(p == q, beq(d1.content, d2.content))

    def ensures(self, cx, S, result):
        out = super().ensures(cx, S, result)
        ok = all(len(S.data[r].seeks) == 2 and S.data[r].seeks[0] == 0 and isinstance(S.data[r].seeks[1], SInt) and z3.eq(S.data[r].seeks[1].v, S.data[r].pos) for r in (1, 2))
        out.append(('file-position-restored', z3.BoolVal(ok)))
        return out


class ArrData(Data):
    """numpy.ndarray: a value (its C-order element bytes, shape, dtype) stored in some memory layout."""

    def __init__(self, cx, run, typename, valuebytes, header):
        Data.__init__(self, cx, 'ndarray', run, typename=typename)
        self.valuebytes, self.header = valuebytes, header
        self.layoutbytes = BytesV.fresh_bytes(cx, 'layout-order-bytes.run%d' % run)

    def getattr(self, ctx, name):
        if name == '__nutils_hash__':
            raise PyRaise('AttributeError')
        if name == 'shape':
            return (SInt(ctx.int('dim', report=False)),)
        if name == 'dtype':
            return SObj('dtype', attrs={'str': SOpaque('str'), 'kind': 'f'})
        if name == 'tobytes':
            def tobytes(ctx, order='C'):
                ctx.used_axioms.add("ndarray.tobytes() (order 'C'): the element values in row-major order, whatever the memory layout; other orders depend on the layout")
                if order in ('C', None):
                    return self.valuebytes
                return self.layoutbytes
            return tobytes
        raise Unsupported('ndarray.' + name)


class ArrayBranch(TwoRuns):
    kind = 'ndarray'

    def __init__(self, same_value):
        self.same_value = same_value
        TwoRuns.__init__(self)
        self.label = 'ndarray,' + ('same-value-two-layouts' if same_value else 'two-arrays')

    def setup(self, cx):
        S = TwoRuns.setup(self, cx)
        S.names = {}
        S.same_name = self.same_value
        name_hooks(cx, S)  # the '{shape}{dtype}\\0' header: NUL-terminated, a function of shape and dtype
        return S

    def make(self, cx, S, run):
        if run == 2 and self.same_value:
            d1 = S.data[1]
            return ArrData(cx, run, d1.typename, d1.valuebytes, None)
        return ArrData(cx, run, self.typename(cx, run), BytesV.fresh_bytes(cx, 'element-bytes.run%d' % run), None)

    def ensures(self, cx, S, result):
        b1, b2 = S.bufs[1], S.bufs[2]
        if self.same_value:
            return [('layout-independent', parts_equal(b1, b2))]
        eq = beq(b1, b2)
        n1, n2 = S.data[1].typename, S.data[2].typename
        return [('name-prefix', z3.Implies(eq, beq(n1, n2))),
                ('payload', z3.Implies(z3.And(eq, beq(n1, n2)), z3.And(beq(S.names[1], S.names[2]), beq(S.data[1].valuebytes, S.data[2].valuebytes))))]

    def replay(self, ob):
        import os
        here = os.path.dirname(os.path.dirname(os.path.abspath(__file__)))
        return "import sys; sys.path.insert(0, %r)\nfrom native import c17\nc17.ndarray_layout()\n" % here


class FileBranchSameDigits(FileBranch):
    """carve-out of the recorded finding: the two positions have the same number of decimal digits"""

    def __init__(self):
        FileBranch.__init__(self)
        self.label = 'seekable-file+same-number-of-position-digits'

    def payload_equal(self, cx, S):
        cx.assume(DLEN(S.data[1].pos) == DLEN(S.data[2].pos))
        return FileBranch.payload_equal(self, cx, S)



# ---- numpy.generic normalisation ---------------------------------------------------------------------------------------

class GenericData(Data):
    """a numpy scalar (numpy.generic) of dtype kind `kind`; python_type(x) converts it (see ConvBuiltin)"""

    def __init__(self, cx, run, kind, typename, content):
        Data.__init__(self, cx, 'generic', run, typename=typename, content=content, strbytes=content)
        self.kind = kind
        self.attrs = {'dtype': SObj('dtype', attrs={'kind': kind})}

    def isinstance_(self, ctx, types):
        return any(isinstance(t, ClassRef) and t.__name__ == 'generic' for t in types)


PY_OF_KIND = {'b': 'bool', 'i': 'int', 'u': 'int', 'f': 'float', 'c': 'complex'}


class ConvBuiltin(Builtin):
    """bool / int / float / complex as seen by nutils_hash: isinstance/identity target AND converter of numpy scalars.
    Axiom: T(x) for a numpy scalar x whose dtype kind belongs to T is THE Python value of type T equal to x; a
    conversion with another type gives a value of that other type (not the equal Python value)."""

    def __init__(self, name, S):
        Builtin.__init__(self, name)
        orig = self.fn

        def conv(ctx, x=None, *a):
            if isinstance(x, GenericData):
                ctx.used_axioms.add('T(x) for a numpy scalar x of the kind of T (bool_/integer/floating/complexfloating) is the Python value of type T equal to x')
                return S.python_value(ctx, name, x)
            if orig is None:
                raise Unsupported('builtin %s is not modelled' % name)
            return orig(ctx, x, *a)
        self.fn = conv


class GenericBranch(Leaf):
    """numpy scalar normalisation: run 1 hashes a numpy scalar of dtype kind k, run 2 the equal Python value; the
    two outer buffers must be the same byte string (type name of the PYTHON type, digest of the same repr)."""

    def __init__(self, kind):
        self.npkind = kind
        Leaf.__init__(self, PY_OF_KIND[kind])
        self.label = 'numpy-generic,kind=%s' % kind

    def base_globals(self, cx, S):
        g = Leaf.base_globals(self, cx, S)
        S.pytypename = {}
        S.converted = {}

        def tn(name):
            if name not in S.pytypename:
                S.pytypename[name] = BytesV.fresh_bytes(cx, 'typename.%s' % name, nonzero=True)
            return S.pytypename[name]
        S.tn = tn

        def python_value(ctx, name, x):
            if name == PY_OF_KIND[x.kind]:
                content = x.content  # the equal Python value: same repr as the Python scalar of run 2
            else:
                content = BytesV.fresh_bytes(ctx, 'repr-after-conversion-to-%s' % name)
            d = Data(ctx, name, x.run, typename=tn(name), content=content, strbytes=content)
            S.converted[x.run] = d
            return d
        S.python_value = python_value
        for name in ('bool', 'int', 'float', 'complex'):
            g[name] = ConvBuiltin(name, S)
        return g

    def make(self, cx, S, run):
        if run == 1:
            S.shared = BytesV.fresh_bytes(cx, 'repr-of-the-python-value')
            return GenericData(cx, run, self.npkind, BytesV.fresh_bytes(cx, 'typename.numpy-scalar-type', nonzero=True), S.shared)
        return Data(cx, self.kind, run, typename=S.tn(self.kind), content=S.shared, strbytes=S.shared)

    def ensures(self, cx, S, result):
        b1, b2 = S.bufs[1], S.bufs[2]
        for a in S.inner_all.get(1, []):
            for b in S.inner_all.get(2, []):
                cx.assume(z3.Implies(beq(a.source, b.source), qforall(1, lambda k: z3.Implies(z3.And(0 <= k, k < 20), a.sel(k) == b.sel(k)))),
                          axiom='SHA-1 is a function: equal inputs => equal digests')
        return [('normalised-to-python-scalar', beq(b1, b2))]

    def replay(self, ob):
        import os
        here = os.path.dirname(os.path.dirname(os.path.abspath(__file__)))
        return "import sys; sys.path.insert(0, %r)\nfrom native import c17\nc17.%s()\n" % (here, 'unsigned_generic' if self.npkind == 'u' else 'generic_normalisation')



# ---- bound methods (types.MethodType) ----------------------------------------------------------------------------------

class MethodBranch(TwoRuns):
    """bound method: digest of __self__ followed by digest of __name__ (two fixed-width blocks).  Equal buffers force
    equal digests of the instance and equal method names."""
    kind = 'MethodType'

    def __init__(self):
        TwoRuns.__init__(self)
        self.label = 'MethodType'

    def make(self, cx, S, run):
        fam = Family(cx, 'self.run%d' % run)
        mname = BytesV.fresh_bytes(cx, 'method-name.run%d' % run)
        d = Data(cx, 'MethodType', run, typename=self.typename(cx, run), fam=fam, mname=mname)
        d.attrs = {'__self__': Child(fam, z3.IntVal(0)), '__name__': StrV(mname), '__func__': SOpaque('function')}
        return d

    def base_globals(self, cx, S):
        g = TwoRuns.base_globals(self, cx, S)
        inner = g['nutils_hash']
        S.strdigests = {1: [], 2: []}

        def nh(ctx, x):
            d = inner(ctx, x)
            if isinstance(x, StrV):
                S.strdigests[S.current_run].append(d)
            return d
        g['nutils_hash'] = nh
        return g

    def payload_equal(self, cx, S):
        d1, d2 = S.data[1], S.data[2]
        for a in S.strdigests[1]:
            for b in S.strdigests[2]:
                cx.assume(z3.Implies(qforall(1, lambda k: z3.Implies(z3.And(0 <= k, k < 20), a.sel(k) == b.sel(k))), beq(a.source, b.source)),
                          axiom='nutils_hash of str is injective (str branch of this contract, induction hypothesis)')
        same_self = qforall(1, lambda b: z3.Implies(z3.And(0 <= b, b < 20), DG(d1.fam.f(0), b) == DG(d2.fam.f(0), b)))
        return z3.And(same_self, beq(d1.mname, d2.mname))

    def replay(self, ob):
        import os
        here = os.path.dirname(os.path.dirname(os.path.abspath(__file__)))
        return "import sys; sys.path.insert(0, %r)\nfrom native import c17\nc17.method_branch()\n" % here



# ---- dataclasses branch ------------------------------------------------------------------------------------------------

PAIR = z3.Function('digest_of_pair', I, I, I)  # ident of nutils_hash((name, value)) from (name id, ident of nutils_hash(value))
NAMEID = z3.Function('field_name_id', I, I)  # field index -> name (as an id); injective on the fields of one class
DIFF = z3.Function('differing_byte', I, I, I)  # two different digests differ at this position


class FieldObj(Sym):
    def __init__(self, j):
        self.j = j

    def getattr(self, ctx, name):
        if name == 'name':
            return FieldName(None, self.j)
        raise Unsupported('dataclasses.Field.%s' % name)


class DataclassBranch(TwoRuns):
    """stdlib dataclass instance: one digest per field of nutils_hash((field name, field value)), sorted.  Two instances
    of ONE dataclass type (n fields, pairwise distinct names, symbolic values): equal buffers force, for EVERY field,
    equal digests of the two values (the name inside each item is what makes the sort harmless)."""
    kind = 'dataclass'
    split_conjunctions = True

    def __init__(self):
        TwoRuns.__init__(self)
        self.label = 'dataclass,two-values-of-one-type'

    def make_loops(self, S):
        inv = block_invariant(S, lambda it: 20)
        return {0: Loop(inv, label='blocks', match=('for item in sorted', 'for item in (', 'for item in map', 'for item in [', 'for field in'))}

    def make(self, cx, S, run):
        if run == 1:
            S.nfields = cx.int('nfields')
            cx.assume(S.nfields >= 0)
            S.dc_typename = self.typename(cx, run)
            S.fields = {}
        fam = Family(cx, 'fieldvalue.run%d' % run)
        d = Data(cx, 'dataclass', run, typename=S.dc_typename, fam=fam, n=S.nfields)
        S.fields[run] = SymSeq(S.nfields, lambda j: FieldObj(j), 'fields')
        return d

    def base_globals(self, cx, S):
        g = TwoRuns.base_globals(self, cx, S)

        def nh(ctx, x):
            data = S.data[S.current_run]
            if isinstance(x, tuple) and len(x) == 2 and isinstance(x[0], FieldName) and isinstance(x[1], Child):
                ctx.used_axioms.add('nutils_hash((name, value)) is determined by, and determines, the name and nutils_hash(value) (tuple and str branches of this contract; induction hypothesis)')
                return Digest(ctx, ident=PAIR(NAMEID(x[0].j), x[1].fam.f(x[1].j)), label='pair-digest')
            if isinstance(x, Child):
                return x.fam.digest(ctx, x.j)
            if isinstance(x, FieldName):
                return Digest(ctx, ident=PAIR(NAMEID(x.j), z3.IntVal(-1)), label='name-digest')
            raise Unsupported('recursive nutils_hash of %r' % (x,))
        g['nutils_hash'] = nh

        def ga(ctx, o, nm, *default):
            if isinstance(nm, FieldName) and isinstance(o, Data):
                return Child(o.fam, nm.j)
            raise Unsupported('getattr(%r, %r)' % (o, nm))
        g['getattr'] = ga
        return g

    def setup(self, cx):
        S = TwoRuns.setup(self, cx)
        S.block_of = lambda it, j: it.seq_at(cx, j)
        return S

    def ensures(self, cx, S, result):
        b1, b2 = S.bufs[1], S.bufs[2]
        n = S.nfields
        d1, d2 = S.data[1], S.data[2]
        (base1, pre1, it1), (base2, pre2, it2) = S.snap[('pre', 1)], S.snap[('pre', 2)]
        ident = lambda j: j
        s1, s1inv = getattr(it1, 'sigma', ident), getattr(it1, 'sigma_inv', ident)
        s2 = getattr(it2, 'sigma', ident)
        j0 = cx.int('field')  # an arbitrary field
        cx.assume(z3.And(0 <= j0, j0 < n))
        p = s1inv(j0)  # its position in run 1's sorted sequence
        e = s2(p)  # the field run 2 has at that position
        A1, A2 = S.block_of(it1, p), S.block_of(it2, p)
        x, y = getattr(A1, 'ident', None), getattr(A2, 'ident', None)
        if x is None or y is None:
            return [('payload', z3.BoolVal(False))]
        K = DIFF(x, y)
        cx.assume(z3.Implies(x != y, z3.And(0 <= K, K < 20, DG(x, K) != DG(y, K))), axiom='digest identity: two different digests differ in one of their 20 bytes')
        # instances (for the two items at position p) of: PAIR is injective; field names are pairwise distinct
        if z3.is_app(x) and z3.is_app(y) and x.decl().eq(PAIR) and y.decl().eq(PAIR):
            cx.assume(z3.Implies(x == y, z3.And(x.arg(0) == y.arg(0), x.arg(1) == y.arg(1))),
                      axiom='nutils_hash((name, value)) is determined by, and determines, the name and nutils_hash(value) (tuple and str branches of this contract; induction hypothesis)')
        cx.assume(z3.Implies(z3.And(0 <= e, e < n, NAMEID(e) == NAMEID(j0)), e == j0), axiom='the fields of a dataclass have pairwise distinct names')
        # instantiation hints: the two buffers at the byte where the blocks at position p would differ
        cx.assume(z3.Implies(beq(b1, b2), b1.sel(base1 + 20 * p + K) == b2.sel(base1 + 20 * p + K)))
        same_value = qforall(1, lambda b: z3.Implies(z3.And(0 <= b, b < 20), DG(d1.fam.f(j0), b) == DG(d2.fam.f(j0), b)))
        return [('payload', z3.Implies(beq(b1, b2), z3.And(e == j0, same_value)))]

    def replay(self, ob):
        import os
        here = os.path.dirname(os.path.dirname(os.path.abspath(__file__)))
        return "import sys; sys.path.insert(0, %r)\nfrom native import c17\nc17.dataclass_branch()\n" % here



# ---- frozenmultiset.__nutils_hash__ -------------------------------------------------------------------------------------

CNT = z3.Function('count_field_byte', I, I, I)  # (count, position) -> byte of '{:04d}'.format(count), 0 <= count < 10**4
CNTDIFF = z3.Function('count_field_differing_byte', I, I, I)


class FixedBytes(BytesV):
    """a byte string of concrete length given in closed form; concatenation with a digest stays closed form, so that
    the block function can be evaluated under a quantifier"""

    def binop(self, ctx, op, other, reflected):
        if op == '+' and isinstance(other, (Digest, FixedBytes)):
            a, b = (other, self) if reflected else (self, other)
            r = bcat(a, b)
            return FixedBytes(r.n, r.sel, r.name)
        return BytesV.binop(self, ctx, op, other, reflected)


class CounterItems(Sym):
    def __init__(self, seq):
        self.seq = seq

    def getattr(self, ctx, name):
        if name == 'items':
            return lambda ctx: self.seq
        raise Unsupported('Counter.' + name)


class FrozenMultisetHash(SetLike):
    """frozenmultiset.__nutils_hash__: qualified name + NUL, then the sorted blocks  '{:04d}'.format(count) + digest(item).
    Multiplicities are assumed < 10**4 (4-digit field: every block is 24 bytes); see ASSUMPTIONS.
      same-set-two-orders: the buffer does not depend on the iteration order of the underlying Counter
      two-sets: equal buffers => equally many distinct items, and position by position in the canonical (sorted)
                arrangement the same item digest WITH THE SAME MULTIPLICITY (i.e. the multisets of (digest, count) agree)"""
    W = 24

    def __init__(self, same_set):
        SetLike.__init__(self, 'frozenset', same_set)
        self.kind = 'frozenmultiset'
        self.label = 'frozenmultiset,%s' % ('same-set-two-orders' if same_set else 'two-sets')
        self.fn = self.target = 'types:frozenmultiset.__nutils_hash__'

    def make_loops(self, S):
        inv = block_invariant(S, lambda it: self.W)
        return {0: Loop(inv, label='blocks', match=('for item in sorted', 'for item in map', 'for item in (', 'for item, count in'))}

    def setup(self, cx):
        S = SetLike.setup(self, cx)
        S.names = {}
        S.same_name = self.same_set
        name_hooks(cx, S)

        def count_bytes(c):
            cx.used_axioms.add("'{:04d}'.format(c) for 0 <= c < 10**4: exactly four ASCII digits, injective in c")
            cv = zint(c)
            return FixedBytes(z3.IntVal(4), lambda i: CNT(cv, i), 'count-field')
        S.count_bytes = count_bytes
        return S

    def make(self, cx, S, run):
        if run == 2 and self.same_set:
            first = S.data[1]
            n, famk, abstract, tn, count = first.n, first.famk, first.abstract, first.typename, first.count
        else:
            n = cx.int('nitems.run%d' % run)
            cx.assume(n >= 0)
            famk = Family(cx, 'item.run%d' % run)
            abstract = {}
            tn = None
            count = z3.Function('multiplicity!run%d!%d' % (run, uid()), I, I)
            cx.assume(qforall(1, lambda e: z3.Implies(z3.And(0 <= e, e < n), z3.And(count(e) > 0, count(e) < 10000))))
        elem = lambda e: (Child(famk, e), SInt(count(e)))
        seq = Unordered(cx, n, elem, 'iter.run%d' % run, abstract)
        abstract['elem_block'] = True
        d = Data(cx, 'frozenmultiset', run, typename=tn, seq=seq, n=n, famk=famk, famv=None, abstract=abstract, count=count)
        items = CounterItems(seq)
        d.attrs = {'__items': items, '_frozenmultiset__items': items}
        return d

    def names(self, S, run):
        if self.same_set:
            return S.names[1] if 1 in S.names else S.names[run]
        return S.names[run]

    def payload_equal(self, cx, S):
        d1, d2 = S.data[1], S.data[2]
        b1, b2 = S.bufs[1], S.bufs[2]
        (base1, pre1, it1), (base2, pre2, it2) = S.snap[('pre', 1)], S.snap[('pre', 2)]
        rho1, rho2 = d1.abstract.get('rho'), d2.abstract.get('rho')
        if rho1 is None or rho2 is None:
            return z3.BoolVal(False)  # the items are no longer hashed in a canonical (sorted) arrangement
        j0 = cx.int('canonical-position')
        cx.assume(z3.And(0 <= j0, j0 < d1.n))
        c1, c2 = d1.count(rho1(j0)), d2.count(rho2(j0))
        K = CNTDIFF(c1, c2)
        cx.assume(z3.Implies(z3.And(c1 != c2, 0 <= c1, c1 < 10000, 0 <= c2, c2 < 10000), z3.And(0 <= K, K < 4, CNT(c1, K) != CNT(c2, K))),
                  axiom="'{:04d}'.format(c) for 0 <= c < 10**4: exactly four ASCII digits, injective in c")
        # instantiation hint: the two buffers at the count byte that would differ
        cx.assume(z3.Implies(beq(b1, b2), b1.sel(base1 + self.W * j0 + K) == b2.sel(base1 + self.W * j0 + K)))
        bb = cx.int('digest-byte')
        cx.assume(z3.And(0 <= bb, bb < 20))
        cx.assume(z3.Implies(beq(b1, b2), b1.sel(base1 + self.W * j0 + (4 + bb)) == b2.sel(base1 + self.W * j0 + (4 + bb))))
        return z3.And(d1.n == d2.n, c1 == c2, DG(d1.famk.f(rho1(j0)), bb) == DG(d2.famk.f(rho2(j0)), bb))

    def replay(self, ob):
        import os
        here = os.path.dirname(os.path.dirname(os.path.abspath(__file__)))
        return "import sys; sys.path.insert(0, %r)\nfrom native import c17\nc17.multiset()\n" % here


def contracts():
    cs = [FileBranch(), FileBranchSameDigits(), ArrayBranch(True), ArrayBranch(False), Leaf('int'), Leaf('str'), Leaf('bytes'), Leaf('type'), Singleton('NoneType'),
          TupleLike('tuple'), TupleLike('getnewargs'),
          SetLike('frozenset', True), SetLike('frozenset', False), SetLike('dict', True), SetLike('dict', False),
          ObjHash('Immutable'), ObjHash('DataClass'), FrozenDictHash(True), FrozenDictHash(False)]
    cs += [GenericBranch(k) for k in 'biufc'] + [MethodBranch(), DataclassBranch(), FrozenMultisetHash(True), FrozenMultisetHash(False)]
    from contracts import C17_intern
    cs += C17_intern.contracts()
    return cs


# GenericBranch('u') failed on the pinned commit (KeyError for unsigned numpy scalars): repaired by a fix: commit, now part of contracts()
PARKED = []


TRUSTED = ['pyvc symbolic executor; bytes as (length, index->byte); SHA-1 idealised as an injective function (cryptographic assumption)',
           'str.encode and repr of Python scalars are injective; type names contain no NUL byte',
           'sorted(): the ascending arrangement of a multiset (canonical); iteration over set/dict: every element once, arbitrary order',
           'structural induction over values (meta): equal child digests => equal children',
           'numpy scalars: T(x) with T the Python type of x\'s dtype kind (b->bool, i->int, u->int, f->float, c->complex) is the Python value equal to x (cross-checked in native/axioms.py)',
           "'{:04d}'.format(c) for 0 <= c < 10**4 is exactly four ASCII digits and injective in c (cross-checked exhaustively in native/axioms.py)",
           'dataclasses.fields(t): the fields in definition order, pairwise distinct names; dataclasses.is_dataclass(t) decides the branch',
           'interning contracts (contracts/C17_intern.py): inspect.Signature.bind / BoundArguments.apply_defaults/.args/.kwargs/.arguments are executed by the REAL inspect module of the checker interpreter (CPython 3.11) on the concrete call structure, values opaque; the native replays exercise the same shapes under /venv (CPython 3.12)',
           'interning contracts: == on argument values is an equivalence (modelled as equality of terms of an uninterpreted sort): NaN-like arguments are outside',
           'interning contracts: a WeakValueDictionary all of whose values are alive behaves like a dict (get / [] / []=)',
           'functools.update_wrapper(w, f) copies the four name attributes, UPDATES w.__dict__ with f.__dict__ and sets w.__wrapped__ (cross-checked in native/axioms.py); functools.partial(f, **k)(x) == f(x, **k)',
           'arraydata: numpy.asarray is value preserving; ndarray.astype(T) keeps the shape, gives dtype numpy.dtype(T) and is the identity on arrays that already have that dtype; numpy.equal(a, b).all() iff the elements are equal as numbers; tobytes() is a function of (dtype, shape, values) (cross-checked in native/axioms.py)']
ASSUMPTIONS = ['distinct hashed types have distinct __name__ (the `type` branch hashes only __name__): a real precondition of the code',
               'recursive calls of nutils_hash satisfy the same contract (induction hypothesis); in the dataclass branch: nutils_hash((name, value)) determines name and nutils_hash(value) (tuple + str branches)',
               'frozenmultiset: every multiplicity is < 10**4 (the count field is {:04d}: wider counts make the blocks variable-width; not claimed either way, a stated limit)',
               'numpy scalars of kind b/i/u/f/c (kind u raised KeyError on the pinned commit; repaired, see known_findings.json)',
               'interning contracts are bounded: signature shapes (a, b, c=d), (a, b=d, *, k=d2), (a, **kw); 3-6 spellings per shape; intern table with one live prior entry of arbitrary key',
               '_hashable_function_wrapper.__init__: both cases (wrapped function with and without a __nutils_hash__ of its own) are under contract; the former failed on the pinned commit and was repaired (known_findings.json)',
               'arraydata.__new__: two arrays of one kind class with common shape and values; int64 treated as mathematical integers']
NOT_COVERED = ['weak-reference lifetimes / garbage-collection histories of the intern tables (DataClassMeta.__cache, SingletonMeta._cache): outside the family, not modelled (tables are modelled with all values alive)',
               'pickling in another process (only the __reduce__ -> rebuild round trip inside one process is under contract)',
               'types.lru_cache (key on array buffers): needs numpy __array_interface__ addresses, the ndarray.base chain, flags.writeable and weakref callbacks -- a heap model of numpy objects that the engine does not have',
               'types.frozenarray: mutates flags.writeable along the ndarray.base chain; same reason as lru_cache; it does not take part in hashing (nutils_hash of the result is the ndarray branch, under contract)',
               'nutils_hash: the final `else: raise TypeError` and objects whose __nutils_hash__ attribute is user supplied (cache.function, util.function: C18); every other branch is under contract ',
               'arraydata.__init__ / reshape / __array_interface__; frozendict/frozenmultiset __eq__/__hash__ (Python hashing, not the nutils hash)',
               'ImmutableMeta.__new__ / DataClassMeta.__init__ (class creation: how __signature__ and _canonicalize are derived from the class body)',
               'System.__init__: that every behaviour-relevant attribute is a function of (trials, value | block residuals) is by reading the constructor, not checked; solver method objects Direct/Newton/... .__nutils_hash__ (same one-line pattern) are not under contract',
               'evaluable builder.add_constant / util.function consumers of the hash']
