"""C12 (second round, part 1) -- the dof -> elements maps are the exact inverses of the element -> dofs maps.

numeric._sorted_index_mask / sorted_index / sorted_contains     (unbounded; real bodies, vectorised searchsorted axiom)
  requires   sorted_array 1-D int, non-decreasing; values 1-D int
  ensures    sorted_contains:  mask[k]  <=>  values[k] occurs in sorted_array
             sorted_index(missing=None): sorted_array[result[k]] == values[k] for every k; ValueError exactly when some value is missing
             sorted_index(missing=int):  the same where the value occurs, `missing` elsewhere
             sorted_index(missing='mask'): the positions of the values that occur, IN THE ORDER OF `values` (every found value
                                           listed, nothing else, order preserved)

PrunedBasis.get_support (int dof; unbounded; numeric.sorted_index executed in line from its real source)
  requires   class invariant of PrunedBasis (transmap strictly increasing in [0, parent.nelems): call site SubsetTopology;
             dofmap in [0, parent.ndofs)) and the parent's get_support contract (strictly increasing, e in support(d) <=> d in dofs(e))
  ensures    result strictly increasing; e in result  <=>  0 <= e < nelems and the parent element transmap[e] has the parent dof
             dofmap[dof'] -- by the proved PrunedBasis.f_dofs_coeffs contract (dofs of e = renumbered parent dofs of transmap[e],
             dofmap injective) that is  dof' in get_dofs(e): "mutual inverses"; IndexError exactly outside [-ndofs, ndofs)

StructuredBasis.get_support (int dof; BOUNDED in the number of tensor axes (1, 2, 3); element counts, dof counts, tables symbolic)
  per axis i the periodic images of the dof digit d_i are x_0 = d_i, x_{t+1} = x_t + N_i; the while loop carries the invariant
  "the ranges collected so far are exactly the elements e_i with start_i[e_i] <= x_t < stop_i[e_i], t < len(supports_i)"
  ensures    result strictly increasing (row-major multi-index form); an item is sum_i e_i * prod_{j>i} T_j with, for every axis,
             0 <= e_i < T_i and start_i[e_i] <= x_t < stop_i[e_i] for some image x_t of d_i; every such element is listed.
             With (start + p) mod N == d  <=>  start + p == d + t*N (L-DIVMOD) this is  dof in get_dofs(e)  of the proved
             StructuredBasis.f_dofs_coeffs contract.
"""
import z3
from pyvc.contract import Contract, State
from pyvc.values import SInt, SBool, SObj, SOpaque, Sym, Unsupported, PyRaise, zint, is_intlike
from pyvc.nparr import Vec, MaskSel, Numpy, qforall, qexists, I
from pyvc.interp import Loop
from pyvc import npsets, lemmas, ops
from contracts.C12_support import native as _native_b, Numeric, PROP, HERE

B = z3.BoolSort()


def native(call):
    return "import sys; sys.path.insert(0, %r)\nfrom native import c12c\nc12c.%s\n" % (HERE, call)


def sorted_nondecreasing(v):
    return qforall(2, lambda a, b: z3.Implies(z3.And(0 <= a, a <= b, b < v.n), v.sel(a) <= v.sel(b)))


# ---------------------------------------------------------------------------------------------- numpy externals (axioms)

def np_searchsorted(ctx, a, v, side='left', sorter=None):
    """numpy.searchsorted(a, v, side) for a SORTED 1-D int array a; v an int or a 1-D int array (then elementwise)."""
    if not (isinstance(v, Vec) and v.kind == 'int'):
        return Numpy().np_searchsorted(ctx, a, v, side=side, sorter=sorter)
    if sorter is not None or not (isinstance(a, Vec) and a.kind == 'int'):
        raise Unsupported('searchsorted variant')
    if side == 'left':
        lo, hi = (lambda e, x: e < x), (lambda e, x: e >= x)
    elif side == 'right':
        lo, hi = (lambda e, x: e <= x), (lambda e, x: e > x)
    else:
        raise PyRaise('ValueError', note='side')
    P = z3.Function(ctx.name('searchsorted(%s,%s)' % (a.name, v.name)), I, I)
    root, off = a, z3.IntVal(0)
    while root.base is not None:
        root, off = root.base[0], off + root.base[1]
    off = z3.simplify(off)
    n = a.n
    ctx.lemma('searchsorted-precondition:sorted', qforall(2, lambda i, j: z3.Implies(z3.And(off <= i, i <= j, j < off + n), root.sel(i) <= root.sel(j))))
    ax = ('numpy.searchsorted(a, v, side) with a 1-D int array v, a sorted: p[k] is the insertion point of v[k]: 0 <= p[k] <= len(a), '
          'a[j] < v[k] (<= for side=right) for j < p[k], a[j] >= v[k] (>) for j >= p[k]')
    ctx.assume(qforall(1, lambda k: z3.Implies(z3.And(0 <= k, k < v.n), z3.And(0 <= P(k), P(k) <= n))), axiom=ax)
    ctx.assume(qforall(2, lambda k, m: z3.Implies(z3.And(0 <= k, k < v.n, off <= m, m < off + P(k)), lo(root.sel(m), v.sel(k)))))
    ctx.assume(qforall(2, lambda k, m: z3.Implies(z3.And(0 <= k, k < v.n, off + P(k) <= m, m < off + n), hi(root.sel(m), v.sel(k)))))
    return Vec('int', v.n, lambda k: P(k), 'searchsorted')


def compress_ordered(ctx, sel):
    """arr[mask] (1-D bool mask of the length of arr): the selected entries IN ORDER.  pos: [0, count) -> selected positions is
    strictly increasing and onto (rank is its inverse)."""
    a, m = sel.arr, sel.mask
    c = m.count(ctx)
    pos = z3.Function(ctx.name('compress.pos'), I, I)
    rank = z3.Function(ctx.name('compress.rank'), I, I)
    ax = 'arr[mask], 1-D: the entries at the True positions in increasing order of position (pos strictly increasing and onto the True positions; Skolem inverse rank)'
    ctx.assume(qforall(1, lambda k: z3.Implies(z3.And(0 <= k, k < c), z3.And(0 <= pos(k), pos(k) < a.n, m.sel(pos(k)), rank(pos(k)) == k))), axiom=ax)
    ctx.assume(qforall(2, lambda k1, k2: z3.Implies(z3.And(0 <= k1, k1 < k2, k2 < c), pos(k1) < pos(k2))))
    ctx.assume(qforall(1, lambda j: z3.Implies(z3.And(0 <= j, j < a.n, m.sel(j)), z3.And(0 <= rank(j), rank(j) < c, pos(rank(j)) == j))))
    r = Vec(a.kind, c, lambda k: a.sel(pos(k)), '%s[%s]' % (a.name, m.name))
    r.compress_pos = pos
    return r


class Types:
    """nutils.types.frozenarray(x, copy=False): x as an (immutable) array; a masked selection is materialised in order."""

    def sym_getattr(self, ctx, name):
        if name == 'frozenarray':
            def frozenarray(ctx, x, dtype=None, copy=True):
                if isinstance(x, MaskSel):
                    if not ctx.branch(x.mask.n == x.arr.n):
                        raise PyRaise('IndexError', note='boolean index did not match')
                    return compress_ordered(ctx, x)
                if isinstance(x, Vec):
                    return x
                raise Unsupported('types.frozenarray of %r' % (x,))
            return frozenarray
        raise Unsupported('types.' + name)


def _inline(ref):
    def f(ctx, *a, **k):
        from pyvc import extract
        return ctx.interp.call_function(extract.get(ref).node, list(a), k)
    return f


def numeric_globals():
    """module-level names of numeric.py as seen by sorted_index / sorted_contains / _sorted_index_mask (real bodies in line)"""
    return {'numpy': Numpy(extra={'searchsorted': np_searchsorted}), 'types': Types(), 'isint': lambda ctx, x: is_intlike(x),
            '_sorted_index_mask': _inline('numeric:_sorted_index_mask')}


class NumericFull(Numeric):
    def sym_getattr(self, ctx, name):
        if name in ('sorted_index', 'sorted_contains'):
            return _inline('numeric:' + name)
        return super().sym_getattr(ctx, name)


def membership(cx, A, name):
    """INA(x) <=> x occurs in A (Skolemised definition)"""
    INA = z3.Function(name, I, B)
    wit = z3.Function(name + '.position', I, I)
    cx.assume(qforall(1, lambda i: z3.Implies(z3.And(0 <= i, i < A.n), INA(A.sel(i)))))
    cx.assume(qforall(1, lambda x: z3.Implies(INA(x), z3.And(0 <= wit(x), wit(x) < A.n, A.sel(wit(x)) == x))))
    return INA


class SortedIndex(Contract):
    prop = PROP

    def __init__(self, which):
        self.which = which
        self.fn = 'numeric:sorted_contains' if which == 'contains' else 'numeric:sorted_index'
        if which != 'contains':
            self.label = 'missing=%s' % which

    def setup(self, cx):
        A = Vec.fresh(cx, 'sorted_array', 'int', probes=3)
        V = Vec.fresh(cx, 'values', 'int', probes=3)
        cx.assume(sorted_nondecreasing(A))
        INA = membership(cx, A, 'occurs')
        S = State(A=A, V=V, INA=INA, args=(A, V))
        if self.which == 'int':
            S.M = cx.int('missing')
            S.kwargs = dict(missing=SInt(S.M))
        elif self.which == 'mask':
            S.kwargs = dict(missing='mask')
        S.globals = numeric_globals()
        return S

    def raises(self, cx, S, e):
        if self.which == 'None' and e.exc.split(':')[0] == 'ValueError':
            return S.V.exists(lambda k, x: z3.Not(S.INA(x)))
        return False

    def ensures(self, cx, S, result):
        A, V, INA = S.A, S.V, S.INA
        if not isinstance(result, Vec):
            raise Unsupported('returned %r' % (result,))
        rng = lambda k: z3.And(0 <= k, k < V.n)
        if self.which == 'contains':
            if result.kind != 'bool':
                return [('returns-a-bool-array', z3.BoolVal(False))]
            return [('returns-a-bool-array', z3.BoolVal(True)), ('one-flag-per-value', result.n == V.n),
                    ('flag-iff-the-value-occurs', qforall(1, lambda k: z3.Implies(rng(k), result.sel(k) == INA(V.sel(k)))))]
        if result.kind != 'int':
            raise Unsupported('returned %r' % (result,))
        hit = lambda k: z3.And(0 <= result.sel(k), result.sel(k) < A.n, A.sel(result.sel(k)) == V.sel(k))
        if self.which == 'None':
            return [('one-index-per-value', result.n == V.n),
                    ('every-value-occurs', qforall(1, lambda k: z3.Implies(rng(k), INA(V.sel(k))))),
                    ('index-points-at-the-value', qforall(1, lambda k: z3.Implies(rng(k), hit(k))))]
        if self.which == 'int':
            return [('one-index-per-value', result.n == V.n),
                    ('index-points-at-the-value-where-it-occurs', qforall(1, lambda k: z3.Implies(z3.And(rng(k), INA(V.sel(k))), hit(k)))),
                    ('missing-elsewhere', qforall(1, lambda k: z3.Implies(z3.And(rng(k), z3.Not(INA(V.sel(k)))), result.sel(k) == S.M)))]
        jr = lambda j: z3.And(0 <= j, j < result.n)
        return [('items-are-positions-of-values', qforall(1, lambda j: z3.Implies(jr(j), z3.And(0 <= result.sel(j), result.sel(j) < A.n,
                                                                                               qexists(1, lambda k: z3.And(rng(k), A.sel(result.sel(j)) == V.sel(k))))))),
                ('every-value-that-occurs-is-listed', qforall(1, lambda k: z3.Implies(z3.And(rng(k), INA(V.sel(k))), qexists(1, lambda j: z3.And(jr(j), A.sel(result.sel(j)) == V.sel(k)))))),
                ('order-of-the-values-preserved', qforall(2, lambda j1, j2: z3.Implies(z3.And(0 <= j1, j1 < j2, j2 < result.n),
                                                                                     qexists(2, lambda k1, k2: z3.And(0 <= k1, k1 < k2, k2 < V.n, A.sel(result.sel(j1)) == V.sel(k1), A.sel(result.sel(j2)) == V.sel(k2))))))]

    def replay(self, ob):
        return native('run_sorted_index()')


# ------------------------------------------------------------------------------------------ PrunedBasis.get_support

class PrunedSupport(Contract):
    prop = PROP
    fn = 'function:PrunedBasis.get_support'

    def setup(self, cx):
        nd, ne, pne, pnd = cx.int('ndofs'), cx.int('nelems'), cx.int('parent.nelems'), cx.int('parent.ndofs')
        cx.assume(z3.And(nd >= 0, ne >= 0, pne >= 0, pnd >= 0))
        tm = Vec.fresh(cx, '_transmap', 'int', n=ne, probes=3)
        dm = Vec.fresh(cx, '_dofmap', 'int', n=nd, probes=3)
        # class invariant: transmap strictly increasing (SubsetTopology._indices) within the parent's elements; dofmap within the parent's dofs
        cx.assume(npsets.strictly_increasing(tm))
        cx.assume(tm.forall(lambda i, x: z3.And(0 <= x, x < pne)))
        cx.assume(dm.forall(lambda i, x: z3.And(0 <= x, x < pnd)))
        # the parent's get_support contract (proved for Basis._computed_support / the subclasses): strictly increasing, exactly the elements having the dof
        PLEN, PSV, PHAS = z3.Function('len_parent_support', I, I), z3.Function('parent_support', I, I, I), z3.Function('parent_elem_has_dof', I, I, B)
        ppos = z3.Function('parent_support.position', I, I, I)
        cx.assume(qforall(1, lambda d: PLEN(d) >= 0))
        cx.assume(qforall(3, lambda d, k1, k2: z3.Implies(z3.And(0 <= k1, k1 < k2, k2 < PLEN(d)), PSV(d, k1) < PSV(d, k2))))
        cx.assume(qforall(2, lambda d, k: z3.Implies(z3.And(0 <= k, k < PLEN(d)), z3.And(0 <= PSV(d, k), PSV(d, k) < pne, PHAS(PSV(d, k), d)))))
        cx.assume(qforall(2, lambda d, e: z3.Implies(z3.And(0 <= e, e < pne, PHAS(e, d)), z3.And(0 <= ppos(d, e), ppos(d, e) < PLEN(d), PSV(d, ppos(d, e)) == e))))
        d = cx.int('dof')
        S = State(d=d, nd=nd, ne=ne, tm=tm, dm=dm, PHAS=PHAS, asked=[])

        def parent_support(ctx, s, dof):
            if not is_intlike(dof):
                raise Unsupported('parent.get_support(%r)' % (dof,))
            x = zint(dof)
            S.asked.append(x)
            ctx.oblige('callee-precondition:parent-dof-in-range', z3.And(0 <= x, x < pnd), kind='safety')
            return Vec('int', PLEN(x), lambda k: PSV(x, k), 'parent.get_support(%s)' % x)
        parent = SObj('Basis', methods={'get_support': parent_support})
        me = SObj('PrunedBasis', attrs=dict(_parent=parent, _transmap=tm, _dofmap=dm, ndofs=SInt(nd), nelems=SInt(ne)))
        S.args = (me, SInt(d))
        S.globals = dict(numeric_globals(), numeric=NumericFull())
        return S

    def raises(self, cx, S, e):
        if e.exc.split(':')[0] != 'IndexError':
            return False
        return z3.Not(z3.And(-S.nd <= S.d, S.d < S.nd))

    def ensures(self, cx, S, result):
        if not (isinstance(result, Vec) and result.kind == 'int'):
            raise Unsupported('returned %r' % (result,))
        nd, ne, tm, dm, PHAS = S.nd, S.ne, S.tm, S.dm, S.PHAS
        d = z3.If(S.d < 0, S.d + nd, S.d)
        pd = dm.sel(d)
        jr = lambda j: z3.And(0 <= j, j < result.n)
        return [('dof-index-in-range', z3.And(-nd <= S.d, S.d < nd)),
                ('support-strictly-increasing', npsets.strictly_increasing(result)),
                ('items-are-elements-whose-parent-element-has-the-parent-dof', qforall(1, lambda j: z3.Implies(jr(j), z3.And(0 <= result.sel(j), result.sel(j) < ne, PHAS(tm.sel(result.sel(j)), pd))))),
                ('every-element-whose-parent-element-has-the-parent-dof-is-listed', qforall(1, lambda e: z3.Implies(z3.And(0 <= e, e < ne, PHAS(tm.sel(e), pd)), qexists(1, lambda j: z3.And(jr(j), result.sel(j) == e)))))]

    def replay(self, ob):
        return native('run_pruned_support()')



# -------------------------------------------------------------------------------------- StructuredBasis.get_support

class ARange(Vec):
    """numpy.arange(lo, hi, dtype=int)"""

    def __init__(self, lo, hi):
        super().__init__('int', z3.If(hi > lo, hi - lo, 0), lambda i: lo + i, 'arange(%s,%s)' % (lo, hi))
        self.lo, self.hi = lo, hi


def np_arange(ctx, a, b=None, dtype=None):
    if b is None:
        return Numpy().np_arange(ctx, a)
    if not (is_intlike(a) and is_intlike(b)):
        raise Unsupported('numpy.arange variant')
    return ARange(zint(a), zint(b))


class VecList(Sym):
    """A Python list of 1-D int arrays of symbolic length, grown by append inside an invariant-carrying loop: n items, item k has
    LEN(k) entries EL(k, j).  Ghost POS(k, e): the position of e in item k, maintained at append for aranges (specification only)."""

    def __init__(self, n, len_f, el_f, pos_f, name='list-of-arrays'):
        self.n, self.len_f, self.el_f, self.pos_f, self.name = n, len_f, el_f, pos_f, name

    @staticmethod
    def fresh(ctx, name):
        n = ctx.int('len(%s)' % name, report=False)
        return VecList(n, z3.Function(ctx.name(name + '.len'), I, I), z3.Function(ctx.name(name + '.el'), I, I, I), z3.Function(ctx.name(name + '.pos'), I, I, I), name)

    def length(self, ctx):
        return SInt(self.n)

    def truth(self, ctx):
        return self.n > 0

    def getattr(self, ctx, name):
        if name == 'append':
            def append(ctx, v):
                if not (isinstance(v, Vec) and v.kind == 'int'):
                    raise Unsupported('append of %r to a list of int arrays' % (v,))
                n, L, E, P = self.n, self.len_f, self.el_f, self.pos_f
                vs, vn = v.frozen_sel(), v.n
                if isinstance(v, ARange):
                    lo = v.lo
                    np_ = lambda e: e - lo
                else:
                    g = z3.Function(ctx.name('pos-in-appended'), I, I)
                    np_ = lambda e: g(e)
                self.len_f = lambda k: z3.If(k == n, vn, L(k))
                self.el_f = lambda k, j: z3.If(k == n, vs(j), E(k, j))
                self.pos_f = lambda k, e: z3.If(k == n, np_(e), P(k, e))
                self.n = n + 1
            return append
        raise Unsupported('list.%s on a list of arrays' % name)


def np_concatenate(ctx, items, axis=0, **kw):
    """numpy.concatenate(list of 1-D int arrays): ValueError for an empty list; the items of the result are exactly the items of the
    arrays (Skolem witnesses).  The ORDER and the multiplicities are not specified by this axiom (sound, incomplete)."""
    if isinstance(items, list) and all(isinstance(v, Vec) and v.kind == 'int' for v in items):
        vl = VecList(z3.IntVal(0), lambda k: z3.IntVal(0), lambda k, j: z3.IntVal(0), lambda k, e: z3.IntVal(0), 'list')
        for v in items:
            vl.getattr(ctx, 'append')(ctx, v)
        items = vl
    if kw or axis != 0 or not isinstance(items, VecList):
        raise Unsupported('numpy.concatenate variant')
    if not ctx.branch(items.n >= 1):
        raise PyRaise('ValueError', note='need at least one array to concatenate')
    c = Vec.fresh(ctx, 'concatenate', 'int', report=False)
    sk, sm = z3.Function(ctx.name('concat.item'), I, I), z3.Function(ctx.name('concat.src'), I, I)
    cp = z3.Function(ctx.name('concat.pos'), I, I, I)
    L, E, n = items.len_f, items.el_f, items.n
    ax = 'numpy.concatenate(list of 1-D int arrays): every entry of the result is an entry of one of the arrays and every entry of every array occurs (Skolem witnesses); ValueError for an empty list'
    ctx.assume(qforall(1, lambda j: z3.Implies(z3.And(0 <= j, j < c.n), z3.And(0 <= sk(j), sk(j) < n, 0 <= sm(j), sm(j) < L(sk(j)), c.sel(j) == E(sk(j), sm(j))))), axiom=ax)
    ctx.assume(qforall(2, lambda k, m: z3.Implies(z3.And(0 <= k, k < n, 0 <= m, m < L(k)), z3.And(0 <= cp(k, m), cp(k, m) < c.n, c.sel(cp(k, m)) == E(k, m)))))
    return c


class ScaledVec(Vec):
    """u * factor, remembering the factorisation"""

    def __init__(self, u, factor):
        us = u.frozen_sel()
        super().__init__('int', u.n, lambda i: us(i) * factor, '%s*%s' % (u.name, factor))
        self.u, self.factor = u, factor


class UVec(Vec):
    def binop(self, ctx, op, other, reflected):
        if op == '*' and is_intlike(other):
            f = zint(other)
            if not z3.is_int_value(z3.simplify(f)):
                # intermediate lemma (proved, then used): scaling by a positive factor keeps gaps: u[a] < u[b] => u[a]*f + f <= u[b]*f
                me = self
                ctx.lemma('scaling-by-a-positive-factor-is-strictly-monotone', qforall(2, lambda a, b: z3.Implies(
                    z3.And(0 <= a, a < me.n, 0 <= b, b < me.n, f >= 1, me.sel(a) < me.sel(b)), me.sel(a) * f + f <= me.sel(b) * f)))
            return ScaledVec(self, f)
        return super().binop(ctx, op, other, reflected)


def np_unique_u(ctx, v, **kw):
    u = npsets.np_unique(ctx, v, **kw)
    return UVec('int', u.n, u._sel, u.name)


class NdOuter(Sym):
    """functools.reduce(numpy.add.outer, [v0, .., vr]) and its .ravel(): MULTI-INDEX representation, value(p0..pr) = sum_i v_i[p_i];
    a flat position is the row-major rank of its multi-index (definition of ravel), as in contracts/evalsem.py"""

    def __init__(self, axes):
        self.axes = list(axes)

    def getattr(self, ctx, name):
        if name == 'ravel':
            return lambda ctx: self
        if name == 'ndim':
            return len(self.axes)
        raise Unsupported('n-d array .%s' % name)

    def as_array(self, ctx):
        return self


class AddUfunc:
    def sym_getattr(self, ctx, name):
        if name == 'outer':
            def outer(ctx, a, b):
                if not (isinstance(b, Vec) and b.kind == 'int' and (isinstance(a, NdOuter) or (isinstance(a, Vec) and a.kind == 'int'))):
                    raise Unsupported('numpy.add.outer(%r, %r)' % (a, b))
                return NdOuter((a.axes if isinstance(a, NdOuter) else [a]) + [b])
            return outer
        raise Unsupported('numpy.add.' + name)


class FunctoolsFold:
    """functools.reduce over a concrete-length sequence: the left fold"""

    def sym_getattr(self, ctx, name):
        if name == 'reduce':
            def reduce(ctx, fn, seq, *initial):
                items = list(ops.iterate(ctx, seq))
                if initial:
                    items = [initial[0]] + items
                if not items:
                    raise PyRaise('TypeError', note='reduce() of empty iterable with no initial value')
                acc = items[0]
                for x in items[1:]:
                    acc = ctx.interp.call(fn, [acc, x], {})
                return acc
            return reduce
        raise Unsupported('functools.' + name)


class StructuredSupport(Contract):
    prop = PROP
    fn = 'function:StructuredBasis.get_support'

    def __init__(self, r, inrange=True):
        self.r, self.inrange = r, inrange
        self.label = 'axes=%d' % r + ('' if inrange else '+out-of-range')
        self.bounded = '%d tensor axes (bound: 1..3); element counts, dof counts, start/stop tables, number of periodic images and the dof symbolic' % r
        self.expect_return = inrange
        C = self

        def inv(cx, env):
            S = C.S
            st = env.lookup('start_dofs_i')
            ax = [i for i in range(r) if S.start[i] is st]
            if len(ax) != 1 or env.lookup('stop_dofs_i') is not S.stop[ax[0]]:
                raise Unsupported('periodic-image loop over unknown tables')
            i = ax[0]
            T, start, stop, IMG = S.T[i], S.start[i], S.stop[i], S.IMG[i]
            x = zint(env.lookup('dof_i'))
            sup = env.lookup('supports_i')
            if isinstance(sup, list):
                if sup:
                    raise Unsupported('supports_i is a non-empty concrete list')
                return x == IMG(z3.IntVal(0))
            if not isinstance(sup, VecList):
                raise Unsupported('supports_i is %r' % (sup,))
            K, LEN, EL, POS = sup.n, sup.len_f, sup.el_f, sup.pos_f
            return z3.And(K >= 0, x == IMG(K),
                          qforall(2, lambda k, j: z3.Implies(z3.And(0 <= k, k < K, 0 <= j, j < LEN(k)),
                                                             z3.And(0 <= EL(k, j), EL(k, j) < T, start.sel(EL(k, j)) <= IMG(k), IMG(k) < stop.sel(EL(k, j))))),
                          qforall(2, lambda k, e: z3.Implies(z3.And(0 <= k, k < K, 0 <= e, e < T, start.sel(e) <= IMG(k), IMG(k) < stop.sel(e)),
                                                             z3.And(0 <= POS(k, e), POS(k, e) < LEN(k), EL(k, POS(k, e)) == e))))

        def on_exit(cx, env, how):
            if how != 'guard':
                return
            S = C.S
            st = env.lookup('start_dofs_i')
            ax = [i for i in range(r) if S.start[i] is st]
            sup = env.lookup('supports_i')
            if len(ax) == 1 and isinstance(sup, VecList):
                i = ax[0]
                T, start, stop, IMG, K = S.T[i], S.start[i], S.stop[i], S.IMG[i], sup.n
                # intermediate lemma (proved, then used): the images not collected lie beyond every element (stop is non-decreasing, images too)
                cx.lemma('axis%d:every-image-inside-an-element-was-collected' % i, qforall(2, lambda e, t: z3.Implies(z3.And(0 <= e, e < T, t >= 0, start.sel(e) <= IMG(t), IMG(t) < stop.sel(e)), t < K)))
        self.loops = {0: Loop(inv, label='images', match='while dof_i <', havoc={'supports_i': lambda cx, env: VecList.fresh(cx, 'supports_i')}, on_exit=on_exit)}

    def setup(self, cx):
        r = self.r
        T = [cx.int('transforms_shape%d' % i) for i in range(r)]
        N = [cx.int('dofs_shape%d' % i) for i in range(r)]
        start = [Vec.fresh(cx, '_start_dofs%d' % i, 'int', n=T[i], probes=2) for i in range(r)]
        stop = [Vec.fresh(cx, '_stop_dofs%d' % i, 'int', n=T[i], probes=2) for i in range(r)]
        IMG = [z3.Function('image%d' % i, I, I) for i in range(r)]
        INAX = [z3.Function('has_image%d' % i, I, B) for i in range(r)]
        TW = [z3.Function('has_image%d.t' % i, I, I) for i in range(r)]
        d = [cx.int('d%d' % i) for i in range(r)]
        # self.ndofs == prod_i N_i (established by StructuredBasis.__init__, contract in C12_ctor); kept as ONE symbol so that the
        # obligations stay linear: what is used of the product are the two mixed-radix facts below
        nd = cx.int('ndofs')
        S = State(T=T, N=N, start=start, stop=stop, IMG=IMG, INAX=INAX, d=d, nd=nd)
        self.S = S
        for i in range(r):
            # class invariant (as built by StructuredTopology._basis_spline): at least one element / dof per axis, the tables are
            # non-decreasing and the last stop reaches the number of dofs
            cx.assume(z3.And(T[i] >= 1, N[i] >= 1))
            cx.assume(sorted_nondecreasing(start[i]))
            cx.assume(sorted_nondecreasing(stop[i]))
            cx.assume(stop[i].sel(T[i] - 1) >= N[i])
            # periodic images of the digit d_i: x_0 = d_i, x_{t+1} = x_t + N_i (definition), non-decreasing (L-MONO)
            im = IMG[i]
            cx.assume(im(z3.IntVal(0)) == d[i])
            from pyvc import nparr
            if nparr.BOUND is None:
                t_ = z3.Int('t!image%d' % i)  # instantiated only for terms image(x + 1): no matching loop
                cx.assume(z3.ForAll([t_], z3.Implies(t_ >= 0, im(t_ + 1) == im(t_) + N[i]), patterns=[im(t_ + 1)]))
            else:
                cx.assume(qforall(1, lambda t, i=i, im=im: z3.Implies(t >= 0, im(t + 1) == im(t) + N[i])))
            cx.assume(qforall(2, lambda t, u, im=im: z3.Implies(z3.And(0 <= t, t <= u), im(t) <= im(u))), axiom='L-MONO: the periodic images x_0 = d, x_{t+1} = x_t + N (N >= 1) are non-decreasing')
            # has_image_i(e)  <=>  some image of d_i lies in [start_i[e], stop_i[e])   (Skolemised definition)
            cx.assume(qforall(2, lambda e, t, i=i, im=im: z3.Implies(z3.And(t >= 0, start[i].sel(e) <= im(t), im(t) < stop[i].sel(e)), INAX[i](e))))
            cx.assume(qforall(1, lambda e, i=i, im=im: z3.Implies(INAX[i](e), z3.And(TW[i](e) >= 0, start[i].sel(e) <= im(TW[i](e)), im(TW[i](e)) < stop[i].sel(e)))))
        D = cx.int('dof')
        S.D = D
        cx.assume(nd >= 1)
        if self.inrange:
            for i in range(r):
                cx.assume(z3.And(0 <= d[i], d[i] < N[i]))
            Dn = d[0]
            pref = [d[0]]
            for i in range(1, r):
                Dn = Dn * N[i] + d[i]
                pref.append(Dn)
            S.pref = pref
            cx.assume(z3.And(0 <= Dn, Dn < nd), axiom='mixed-radix numbers: digits 0 <= d_i < N_i give 0 <= sum_i d_i * prod_{j>i} N_j < prod_i N_i = ndofs')
            cx.assume(z3.If(D < 0, D + nd, D) == Dn, axiom='every 0 <= n < prod_i N_i has mixed-radix digits (L-DIVMOD)')
        else:
            cx.assume(z3.Not(z3.And(-nd <= D, D < nd)))

        def divmod_(ctx, a, b):
            if not (is_intlike(a) and is_intlike(b)):
                raise Unsupported('divmod(%r, %r)' % (a, b))
            if not ctx.branch(zint(b) != 0):
                raise PyRaise('ZeroDivisionError')
            if self.inrange:
                # L-DIVMOD: divmod(q*n + r, n) = (q, r) for 0 <= r < n, used for the dof digits of the specification
                for i in range(r):
                    q0 = S.pref[i - 1] if i else z3.IntVal(0)
                    if ctx.entails(z3.And(zint(a) == q0 * N[i] + d[i], zint(b) == N[i])):
                        ctx.used_axioms.add('L-DIVMOD: divmod(q*n + r, n) = (q, r) for 0 <= r < n (ground instances for the dof digits)')
                        return (SInt(q0), SInt(d[i]))
            from pyvc.pybuiltins import divmod_char
            q, rem = divmod_char(ctx, a, b)
            return (SInt(q), SInt(rem))

        def asarray(ctx, x, dtype=None):
            axes = x.axes if isinstance(x, NdOuter) else [x] if isinstance(x, Vec) else None
            if axes is not None and len(axes) == r:
                for i, v in enumerate(axes):
                    u = v.u if isinstance(v, ScaledVec) else v
                    # intermediate lemma (proved, then used by the ordering clause)
                    ctx.lemma('axis%d:listed-elements-in-range' % i, u.forall(lambda a, e, i=i: z3.And(0 <= e, e < T[i])))
            return Numpy().np_asarray(ctx, x, dtype)

        class Builtins:
            def sym_getattr(self, ctx, name):
                if name == 'divmod':
                    return divmod_
                raise Unsupported('builtins.' + name)
        me = SObj('StructuredBasis', attrs=dict(_start_dofs=tuple(start), _stop_dofs=tuple(stop), _dofs_shape=tuple(SInt(n) for n in N),
                                                _transforms_shape=tuple(SInt(t) for t in T), ndofs=SInt(nd)))
        S.args = (me, SInt(D))
        S.globals = {'numeric': Numeric(), 'isint': lambda ctx, x: is_intlike(x), 'builtins': Builtins(), 'functools': FunctoolsFold(),
                     'numpy': Numpy(extra={'arange': np_arange, 'concatenate': np_concatenate, 'unique': np_unique_u, 'add': AddUfunc(), 'asarray': asarray})}
        return S

    def raises(self, cx, S, e):
        if e.exc.split(':')[0] != 'IndexError':
            return False
        return z3.Not(z3.And(-S.nd <= S.D, S.D < S.nd))

    def ensures(self, cx, S, result):
        r = self.r
        if not self.inrange:
            return [('must-raise-IndexError', z3.BoolVal(False))]
        axes = result.axes if isinstance(result, NdOuter) else [result] if isinstance(result, Vec) and result.kind == 'int' else None
        if axes is None:
            raise Unsupported('returned %r' % (result,))
        if len(axes) != r:
            return [('one-result-axis-per-tensor-axis', z3.BoolVal(False))]
        U, F = [], []
        for v in axes:
            if isinstance(v, ScaledVec):
                U.append(v.u)
                F.append(v.factor)
            else:
                U.append(v)
                F.append(z3.IntVal(1))
        stride = []
        for i in range(r):
            s = z3.IntVal(1)
            for j in range(i + 1, r):
                s = s * S.T[j]
            stride.append(z3.simplify(s))
        out = [('one-result-axis-per-tensor-axis', z3.BoolVal(True)),
               ('element-number-is-row-major', z3.And(*[F[i] == stride[i] for i in range(r)]))]
        for i in range(r):
            u, T, INAX = U[i], S.T[i], S.INAX[i]
            out += [('axis%d:listed-elements-have-an-image-of-the-dof-digit' % i, u.forall(lambda a, e: z3.And(0 <= e, e < T, INAX(e)))),
                    ('axis%d:every-element-with-an-image-of-the-dof-digit-is-listed' % i, qforall(1, lambda e: z3.Implies(z3.And(0 <= e, e < T, INAX(e)), qexists(1, lambda a: z3.And(0 <= a, a < u.n, u.sel(a) == e))))),
                    ('axis%d:strictly-increasing' % i, npsets.strictly_increasing(u))]
        # flat order = lexicographic order of the multi-index; the value is sum_i U_i[p_i] * stride_i
        val = lambda *p: z3.Sum(*[axes[i].sel(p[i]) for i in range(r)]) if r > 1 else axes[0].sel(p[0])
        rng = lambda *p: z3.And(*[z3.And(0 <= p[i], p[i] < axes[i].n) for i in range(r)])

        for i in range(r):
            # flat order = lexicographic order: split by the axis of the first difference
            def first_diff(*pq, i=i):
                p, q = pq[:r], pq[r:]
                return z3.Implies(z3.And(rng(*p), rng(*q), *([p[j] == q[j] for j in range(i)] + [p[i] < q[i]])), val(*p) < val(*q))
            out.append(('result-strictly-increasing:first-difference-at-axis%d' % i, qforall(2 * r, first_diff)))
        return out

    def replay(self, ob):
        return native('run_structured_support(%d)' % min(self.r, 2))


def contracts():
    return [SortedIndex('contains'), SortedIndex('None'), SortedIndex('int'), SortedIndex('mask'), PrunedSupport(),
            StructuredSupport(1), StructuredSupport(2), StructuredSupport(1, inrange=False), StructuredSupport(2, inrange=False)]
