"""C12 (second round, part 1) -- the dof -> elements maps are the exact inverses of the element -> dofs maps.

numeric._sorted_index_mask / sorted_index / sorted_contains     (unbounded; real bodies, vectorised searchsorted axiom)
  requires   sorted_array 1-D int, non-decreasing; values 1-D int
  ensures    sorted_contains:  mask[k]  <=>  values[k] occurs in sorted_array
             sorted_index(missing=None): sorted_array[result[k]] == values[k] for every k; ValueError exactly when some value is missing
             sorted_index(missing=int):  the same where the value occurs, `missing` elsewhere
             sorted_index(missing='mask'): the positions of the values that occur, IN THE ORDER OF `values` (every found value
                                           listed, nothing else, order preserved)

PrunedBasis.get_support (int dof; unbounded; numeric.sorted_index executed in line from its real source)
  requires   class invariant of PrunedBasis (transmap strictly increasing in [0, parent.nelems): call site SubsetTopology;
             dofmap in [0, parent.ndofs)) and the parent's get_support contract (strictly increasing, e in support(d) <=> d in dofs(e))
  ensures    result strictly increasing; e in result  <=>  0 <= e < nelems and the parent element transmap[e] has the parent dof
             dofmap[dof'] -- by the proved PrunedBasis.f_dofs_coeffs contract (dofs of e = renumbered parent dofs of transmap[e],
             dofmap injective) that is  dof' in get_dofs(e): "mutual inverses"; IndexError exactly outside [-ndofs, ndofs)

StructuredBasis.get_support (int dof; BOUNDED in the number of tensor axes (1, 2, 3); element counts, dof counts, tables symbolic)
  per axis i the periodic images of the dof digit d_i are x_0 = d_i, x_{t+1} = x_t + N_i; the while loop carries the invariant
  "the ranges collected so far are exactly the elements e_i with start_i[e_i] <= x_t < stop_i[e_i], t < len(supports_i)"
  ensures    result strictly increasing (row-major multi-index form); an item is sum_i e_i * prod_{j>i} T_j with, for every axis,
             0 <= e_i < T_i and start_i[e_i] <= x_t < stop_i[e_i] for some image x_t of d_i; every such element is listed.
             With (start + p) mod N == d  <=>  start + p == d + t*N (L-DIVMOD) this is  dof in get_dofs(e)  of the proved
             StructuredBasis.f_dofs_coeffs contract.
"""
import z3
from pyvc.contract import Contract, State
from pyvc.values import SInt, SBool, SObj, SOpaque, Sym, Unsupported, PyRaise, zint, is_intlike
from pyvc.nparr import Vec, MaskSel, Numpy, qforall, qexists, I
from pyvc.interp import Loop
from pyvc import npsets, lemmas, ops
from contracts.C12_support import native as _native_b, Numeric, PROP, HERE

B = z3.BoolSort()


def native(call):
    return "import sys; sys.path.insert(0, %r)\nfrom native import c12c\nc12c.%s\n" % (HERE, call)


def sorted_nondecreasing(v):
    return qforall(2, lambda a, b: z3.Implies(z3.And(0 <= a, a <= b, b < v.n), v.sel(a) <= v.sel(b)))


# ---------------------------------------------------------------------------------------------- numpy externals (axioms)

def np_searchsorted(ctx, a, v, side='left', sorter=None):
    """numpy.searchsorted(a, v, side) for a SORTED 1-D int array a; v an int or a 1-D int array (then elementwise)."""
    if not (isinstance(v, Vec) and v.kind == 'int'):
        return Numpy().np_searchsorted(ctx, a, v, side=side, sorter=sorter)
    if sorter is not None or not (isinstance(a, Vec) and a.kind == 'int'):
        raise Unsupported('searchsorted variant')
    if side == 'left':
        lo, hi = (lambda e, x: e < x), (lambda e, x: e >= x)
    elif side == 'right':
        lo, hi = (lambda e, x: e <= x), (lambda e, x: e > x)
    else:
        raise PyRaise('ValueError', note='side')
    P = z3.Function(ctx.name('searchsorted(%s,%s)' % (a.name, v.name)), I, I)
    root, off = a, z3.IntVal(0)
    while root.base is not None:
        root, off = root.base[0], off + root.base[1]
    off = z3.simplify(off)
    n = a.n
    ctx.lemma('searchsorted-precondition:sorted', qforall(2, lambda i, j: z3.Implies(z3.And(off <= i, i <= j, j < off + n), root.sel(i) <= root.sel(j))))
    ax = ('numpy.searchsorted(a, v, side) with a 1-D int array v, a sorted: p[k] is the insertion point of v[k]: 0 <= p[k] <= len(a), '
          'a[j] < v[k] (<= for side=right) for j < p[k], a[j] >= v[k] (>) for j >= p[k]')
    ctx.assume(qforall(1, lambda k: z3.Implies(z3.And(0 <= k, k < v.n), z3.And(0 <= P(k), P(k) <= n))), axiom=ax)
    ctx.assume(qforall(2, lambda k, m: z3.Implies(z3.And(0 <= k, k < v.n, off <= m, m < off + P(k)), lo(root.sel(m), v.sel(k)))))
    ctx.assume(qforall(2, lambda k, m: z3.Implies(z3.And(0 <= k, k < v.n, off + P(k) <= m, m < off + n), hi(root.sel(m), v.sel(k)))))
    return Vec('int', v.n, lambda k: P(k), 'searchsorted')


def compress_ordered(ctx, sel):
    """arr[mask] (1-D bool mask of the length of arr): the selected entries IN ORDER.  pos: [0, count) -> selected positions is
    strictly increasing and onto (rank is its inverse)."""
    a, m = sel.arr, sel.mask
    c = m.count(ctx)
    pos = z3.Function(ctx.name('compress.pos'), I, I)
    rank = z3.Function(ctx.name('compress.rank'), I, I)
    ax = 'arr[mask], 1-D: the entries at the True positions in increasing order of position (pos strictly increasing and onto the True positions; Skolem inverse rank)'
    ctx.assume(qforall(1, lambda k: z3.Implies(z3.And(0 <= k, k < c), z3.And(0 <= pos(k), pos(k) < a.n, m.sel(pos(k)), rank(pos(k)) == k))), axiom=ax)
    ctx.assume(qforall(2, lambda k1, k2: z3.Implies(z3.And(0 <= k1, k1 < k2, k2 < c), pos(k1) < pos(k2))))
    ctx.assume(qforall(1, lambda j: z3.Implies(z3.And(0 <= j, j < a.n, m.sel(j)), z3.And(0 <= rank(j), rank(j) < c, pos(rank(j)) == j))))
    r = Vec(a.kind, c, lambda k: a.sel(pos(k)), '%s[%s]' % (a.name, m.name))
    r.compress_pos = pos
    return r


class Types:
    """nutils.types.frozenarray(x, copy=False): x as an (immutable) array; a masked selection is materialised in order."""

    def sym_getattr(self, ctx, name):
        if name == 'frozenarray':
            def frozenarray(ctx, x, dtype=None, copy=True):
                if isinstance(x, MaskSel):
                    if not ctx.branch(x.mask.n == x.arr.n):
                        raise PyRaise('IndexError', note='boolean index did not match')
                    return compress_ordered(ctx, x)
                if isinstance(x, Vec):
                    return x
                raise Unsupported('types.frozenarray of %r' % (x,))
            return frozenarray
        raise Unsupported('types.' + name)


def _inline(ref):
    def f(ctx, *a, **k):
        from pyvc import extract
        return ctx.interp.call_function(extract.get(ref).node, list(a), k)
    return f


def numeric_globals():
    """module-level names of numeric.py as seen by sorted_index / sorted_contains / _sorted_index_mask (real bodies in line)"""
    return {'numpy': Numpy(extra={'searchsorted': np_searchsorted}), 'types': Types(), 'isint': lambda ctx, x: is_intlike(x),
            '_sorted_index_mask': _inline('numeric:_sorted_index_mask')}


class NumericFull(Numeric):
    def sym_getattr(self, ctx, name):
        if name in ('sorted_index', 'sorted_contains'):
            return _inline('numeric:' + name)
        return super().sym_getattr(ctx, name)


def membership(cx, A, name):
    """INA(x) <=> x occurs in A (Skolemised definition)"""
    INA = z3.Function(name, I, B)
    wit = z3.Function(name + '.position', I, I)
    cx.assume(qforall(1, lambda i: z3.Implies(z3.And(0 <= i, i < A.n), INA(A.sel(i)))))
    cx.assume(qforall(1, lambda x: z3.Implies(INA(x), z3.And(0 <= wit(x), wit(x) < A.n, A.sel(wit(x)) == x))))
    return INA


class SortedIndex(Contract):
    prop = PROP

    def __init__(self, which):
        self.which = which
        self.fn = 'numeric:sorted_contains' if which == 'contains' else 'numeric:sorted_index'
        if which != 'contains':
            self.label = 'missing=%s' % which

    def setup(self, cx):
        A = Vec.fresh(cx, 'sorted_array', 'int', probes=3)
        V = Vec.fresh(cx, 'values', 'int', probes=3)
        cx.assume(sorted_nondecreasing(A))
        INA = membership(cx, A, 'occurs')
        S = State(A=A, V=V, INA=INA, args=(A, V))
        if self.which == 'int':
            S.M = cx.int('missing')
            S.kwargs = dict(missing=SInt(S.M))
        elif self.which == 'mask':
            S.kwargs = dict(missing='mask')
        S.globals = numeric_globals()
        return S

    def raises(self, cx, S, e):
        if self.which == 'None' and e.exc.split(':')[0] == 'ValueError':
            return S.V.exists(lambda k, x: z3.Not(S.INA(x)))
        return False

    def ensures(self, cx, S, result):
        A, V, INA = S.A, S.V, S.INA
        if not isinstance(result, Vec):
            raise Unsupported('returned %r' % (result,))
        rng = lambda k: z3.And(0 <= k, k < V.n)
        if self.which == 'contains':
            if result.kind != 'bool':
                return [('returns-a-bool-array', z3.BoolVal(False))]
            return [('returns-a-bool-array', z3.BoolVal(True)), ('one-flag-per-value', result.n == V.n),
                    ('flag-iff-the-value-occurs', qforall(1, lambda k: z3.Implies(rng(k), result.sel(k) == INA(V.sel(k)))))]
        if result.kind != 'int':
            raise Unsupported('returned %r' % (result,))
        hit = lambda k: z3.And(0 <= result.sel(k), result.sel(k) < A.n, A.sel(result.sel(k)) == V.sel(k))
        if self.which == 'None':
            return [('one-index-per-value', result.n == V.n),
                    ('every-value-occurs', qforall(1, lambda k: z3.Implies(rng(k), INA(V.sel(k))))),
                    ('index-points-at-the-value', qforall(1, lambda k: z3.Implies(rng(k), hit(k))))]
        if self.which == 'int':
            return [('one-index-per-value', result.n == V.n),
                    ('index-points-at-the-value-where-it-occurs', qforall(1, lambda k: z3.Implies(z3.And(rng(k), INA(V.sel(k))), hit(k)))),
                    ('missing-elsewhere', qforall(1, lambda k: z3.Implies(z3.And(rng(k), z3.Not(INA(V.sel(k)))), result.sel(k) == S.M)))]
        jr = lambda j: z3.And(0 <= j, j < result.n)
        return [('items-are-positions-of-values', qforall(1, lambda j: z3.Implies(jr(j), z3.And(0 <= result.sel(j), result.sel(j) < A.n,
                                                                                               qexists(1, lambda k: z3.And(rng(k), A.sel(result.sel(j)) == V.sel(k))))))),
                ('every-value-that-occurs-is-listed', qforall(1, lambda k: z3.Implies(z3.And(rng(k), INA(V.sel(k))), qexists(1, lambda j: z3.And(jr(j), A.sel(result.sel(j)) == V.sel(k)))))),
                ('order-of-the-values-preserved', qforall(2, lambda j1, j2: z3.Implies(z3.And(0 <= j1, j1 < j2, j2 < result.n),
                                                                                     qexists(2, lambda k1, k2: z3.And(0 <= k1, k1 < k2, k2 < V.n, A.sel(result.sel(j1)) == V.sel(k1), A.sel(result.sel(j2)) == V.sel(k2))))))]

    def replay(self, ob):
        return native('run_sorted_index()')


# ------------------------------------------------------------------------------------------ PrunedBasis.get_support

class PrunedSupport(Contract):
    prop = PROP
    fn = 'function:PrunedBasis.get_support'

    def setup(self, cx):
        nd, ne, pne, pnd = cx.int('ndofs'), cx.int('nelems'), cx.int('parent.nelems'), cx.int('parent.ndofs')
        cx.assume(z3.And(nd >= 0, ne >= 0, pne >= 0, pnd >= 0))
        tm = Vec.fresh(cx, '_transmap', 'int', n=ne, probes=3)
        dm = Vec.fresh(cx, '_dofmap', 'int', n=nd, probes=3)
        # class invariant: transmap strictly increasing (SubsetTopology._indices) within the parent's elements; dofmap within the parent's dofs
        cx.assume(npsets.strictly_increasing(tm))
        cx.assume(tm.forall(lambda i, x: z3.And(0 <= x, x < pne)))
        cx.assume(dm.forall(lambda i, x: z3.And(0 <= x, x < pnd)))
        # the parent's get_support contract (proved for Basis._computed_support / the subclasses): strictly increasing, exactly the elements having the dof
        PLEN, PSV, PHAS = z3.Function('len_parent_support', I, I), z3.Function('parent_support', I, I, I), z3.Function('parent_elem_has_dof', I, I, B)
        ppos = z3.Function('parent_support.position', I, I, I)
        cx.assume(qforall(1, lambda d: PLEN(d) >= 0))
        cx.assume(qforall(3, lambda d, k1, k2: z3.Implies(z3.And(0 <= k1, k1 < k2, k2 < PLEN(d)), PSV(d, k1) < PSV(d, k2))))
        cx.assume(qforall(2, lambda d, k: z3.Implies(z3.And(0 <= k, k < PLEN(d)), z3.And(0 <= PSV(d, k), PSV(d, k) < pne, PHAS(PSV(d, k), d)))))
        cx.assume(qforall(2, lambda d, e: z3.Implies(z3.And(0 <= e, e < pne, PHAS(e, d)), z3.And(0 <= ppos(d, e), ppos(d, e) < PLEN(d), PSV(d, ppos(d, e)) == e))))
        d = cx.int('dof')
        S = State(d=d, nd=nd, ne=ne, tm=tm, dm=dm, PHAS=PHAS, asked=[])

        def parent_support(ctx, s, dof):
            if not is_intlike(dof):
                raise Unsupported('parent.get_support(%r)' % (dof,))
            x = zint(dof)
            S.asked.append(x)
            ctx.oblige('callee-precondition:parent-dof-in-range', z3.And(0 <= x, x < pnd), kind='safety')
            return Vec('int', PLEN(x), lambda k: PSV(x, k), 'parent.get_support(%s)' % x)
        parent = SObj('Basis', methods={'get_support': parent_support})
        me = SObj('PrunedBasis', attrs=dict(_parent=parent, _transmap=tm, _dofmap=dm, ndofs=SInt(nd), nelems=SInt(ne)))
        S.args = (me, SInt(d))
        S.globals = dict(numeric_globals(), numeric=NumericFull())
        return S

    def raises(self, cx, S, e):
        if e.exc.split(':')[0] != 'IndexError':
            return False
        return z3.Not(z3.And(-S.nd <= S.d, S.d < S.nd))

    def ensures(self, cx, S, result):
        if not (isinstance(result, Vec) and result.kind == 'int'):
            raise Unsupported('returned %r' % (result,))
        nd, ne, tm, dm, PHAS = S.nd, S.ne, S.tm, S.dm, S.PHAS
        d = z3.If(S.d < 0, S.d + nd, S.d)
        pd = dm.sel(d)
        jr = lambda j: z3.And(0 <= j, j < result.n)
        return [('dof-index-in-range', z3.And(-nd <= S.d, S.d < nd)),
                ('support-strictly-increasing', npsets.strictly_increasing(result)),
                ('items-are-elements-whose-parent-element-has-the-parent-dof', qforall(1, lambda j: z3.Implies(jr(j), z3.And(0 <= result.sel(j), result.sel(j) < ne, PHAS(tm.sel(result.sel(j)), pd))))),
                ('every-element-whose-parent-element-has-the-parent-dof-is-listed', qforall(1, lambda e: z3.Implies(z3.And(0 <= e, e < ne, PHAS(tm.sel(e), pd)), qexists(1, lambda j: z3.And(jr(j), result.sel(j) == e)))))]

    def replay(self, ob):
        return native('run_pruned_support()')


def contracts():
    return [SortedIndex('contains'), SortedIndex('None'), SortedIndex('int'), SortedIndex('mask'), PrunedSupport()]
