"""C08 -- orientation bookkeeping of edge transforms (transform.SimplexEdge, TensorEdge1, TensorEdge2, ScaledUpdim, `isflipped`).

The REAL bodies of the constructors (SimplexEdge / TensorEdge1 / TensorEdge2 / ScaledUpdim.__init__, Updim.__init__,
Matrix.__init__, TransformItem.__init__, Matrix.apply), of Updim.ext, numeric.ext, numeric.blockdiag and of
element.SimplexReference / TensorReference.edge_transforms are executed on small matrices of CONCRETE shape (ndims <= 3)
whose entries are symbolic reals (or exact rationals for the reference elements).

tensor     TensorEdge1(e, m).ext = (e.ext, 0_m)   and   TensorEdge2(m, e).ext = (0_m, e.ext)   for every factor edge e (any
           real matrix, flipped or not): the normal of a tensor edge is the factor's normal padded with zeros, WITH the
           same sign -- this is what the `isflipped ^ bool(ndims1 % 2)` of TensorEdge2 is for.          (polynomial identity)
scaled     ScaledUpdim(A, e).ext satisfies  A^T ext' = |det A| e.ext : the normal is transported by the cofactor matrix and
           keeps its side also when the child map A reverses orientation (det A < 0).                   (polynomial identity)
outward    for the reference simplex of dimension 1..3 and for the tensor references square, cube, triangle x line,
           line x triangle: every edge transform listed by edge_transforms has ext . (point on the edge - centroid) > 0 --
           the normal points OUT of the element (for SimplexEdge(.., inverted=True): into it).              (ground)
flipped    X.flipped has the same linear part / offset and the opposite isflipped; X.flipped.ext = -X.ext.
"""
import itertools
from fractions import Fraction
import numpy as _np
import z3
from pyvc.contract import Contract, State
from pyvc.values import SReal, SBool, SInt, SObj, Sym, Unsupported, PyRaise, zreal, zbool
from pyvc.ops import ClassRef, Builtin
from pyvc import ops
from contracts.c10_real import RObj, Stub, run_real

PROP = 'C08'
BOUND = 'ndims <= 3 (all that numeric.ext implements); matrix shapes concrete, entries symbolic reals'


def _num(x):
    return isinstance(x, (int, float, Fraction)) and not isinstance(x, bool)


def zr(x):
    if isinstance(x, Fraction):
        return z3.RealVal(str(x))
    if isinstance(x, float):
        return z3.RealVal(str(Fraction(x)))
    return zreal(x)


class SArr(Sym):
    """numpy float array of concrete shape (rank 0..2); entries are exact numbers or symbolic reals"""

    def __init__(self, data, shape):
        self.data, self.shape = data, tuple(shape)  # rank 2: list of rows; rank 1: list; rank 0: scalar

    # ---- construction helpers
    def full(shape, v):
        shape = tuple(int(s) for s in shape)
        if len(shape) == 1:
            return SArr([v] * shape[0], shape)
        if len(shape) == 2:
            return SArr([[v] * shape[1] for _ in range(shape[0])], shape)
        raise Unsupported('array of rank %d' % len(shape))

    def of(ctx, x):
        if isinstance(x, SArr):
            return x
        if isinstance(x, (SReal,)) or _num(x):
            return SArr(x, ())
        xs = ops.iterate(ctx, x)
        if xs and all(isinstance(r, (tuple, list, SArr)) for r in xs):
            rows = [list(r.data) if isinstance(r, SArr) else list(ops.iterate(ctx, r)) for r in xs]
            if len(set(len(r) for r in rows)) != 1:
                raise PyRaise('ValueError', note='inhomogeneous shape')
            return SArr(rows, (len(rows), len(rows[0])))
        return SArr(list(xs), (len(xs),))

    def rows(self):
        return [list(r) for r in self.data] if len(self.shape) == 2 else None

    # ---- protocol
    def getattr(self, ctx, name):
        if name == 'ndim':
            return len(self.shape)
        if name == 'shape':
            return self.shape
        if name == 'dtype':
            return Builtin('float')
        if name == 'T':
            if len(self.shape) != 2:
                return self
            n, m = self.shape
            return SArr([[self.data[i][j] for i in range(n)] for j in range(m)], (m, n))
        raise Unsupported('ndarray.' + name)

    def length(self, ctx):
        if not self.shape:
            raise PyRaise('TypeError', note='len() of unsized object')
        return self.shape[0]

    def iterate(self, ctx):
        if len(self.shape) == 2:
            return [SArr(list(r), (self.shape[1],)) for r in self.data]
        if len(self.shape) == 1:
            return list(self.data)
        raise PyRaise('TypeError', note='iteration over a 0-d array')

    def _norm(self, idx):
        if not isinstance(idx, tuple):
            idx = (idx,)
        return tuple(int(i) if isinstance(i, (_np.integer,)) else i for i in idx)

    def getitem(self, ctx, idx):
        idx = self._norm(idx)
        if all(i is None for i in idx) and len(self.shape) == 0:
            if len(idx) == 2:
                return SArr([[self.data]], (1, 1))
            raise Unsupported('newaxis pattern')
        if len(self.shape) == 1 and len(idx) == 2 and idx[0] is None and idx[1] == slice(None):
            return SArr([list(self.data)], (1, self.shape[0]))
        if len(idx) > len(self.shape):
            raise PyRaise('IndexError', note='too many indices')
        first = idx[0]
        if len(self.shape) == 1:
            try:
                if isinstance(first, slice):
                    d = self.data[first]
                    return SArr(d, (len(d),))
                if isinstance(first, list):
                    return SArr([self.data[k] for k in first], (len(first),))
                return self.data[first]
            except IndexError:
                raise PyRaise('IndexError')
        # rank 2
        try:
            if isinstance(first, slice):
                rows = self.data[first]
            elif isinstance(first, list):
                rows = [self.data[k] for k in first]
            else:
                row = SArr(list(self.data[first]), (self.shape[1],))
                return row if len(idx) == 1 else row.getitem(ctx, idx[1:])
        except IndexError:
            raise PyRaise('IndexError')
        if len(idx) == 2:
            if isinstance(idx[1], slice):
                rows = [r[idx[1]] for r in rows]
            else:
                try:
                    col = [r[idx[1]] for r in rows]
                except IndexError:
                    raise PyRaise('IndexError')
                return SArr(col, (len(col),))
        ncols = len(rows[0]) if rows else len(range(*idx[1].indices(self.shape[1]))) if len(idx) == 2 and isinstance(idx[1], slice) else self.shape[1]
        return SArr([list(r) for r in rows], (len(rows), ncols))

    def setitem(self, ctx, idx, value):
        idx = self._norm(idx)
        if len(self.shape) != 2 or len(idx) != 2 or not all(isinstance(i, slice) for i in idx):
            raise Unsupported('store %r' % (idx,))
        value = SArr.of(ctx, value)
        ri, ci = range(*idx[0].indices(self.shape[0])), range(*idx[1].indices(self.shape[1]))
        if len(value.shape) != 2 or value.shape != (len(ri), len(ci)):
            raise PyRaise('ValueError', note='could not broadcast input array from shape %r into shape %r' % (value.shape, (len(ri), len(ci))))
        for a, i in enumerate(ri):
            for b, j in enumerate(ci):
                self.data[i][j] = value.data[a][b]

    def _zip(self, ctx, other, f):
        o = SArr.of(ctx, other)
        a, b = self, o
        if a.shape == b.shape:
            if len(a.shape) == 0:
                return SArr(f(a.data, b.data), ())
            if len(a.shape) == 1:
                return SArr([f(x, y) for x, y in zip(a.data, b.data)], a.shape)
            return SArr([[f(x, y) for x, y in zip(r, s)] for r, s in zip(a.data, b.data)], a.shape)
        if len(b.shape) == 0:
            return a._zip(ctx, SArr.full(a.shape, b.data) if a.shape else b, f)
        if len(a.shape) == 0:
            return SArr.full(b.shape, a.data)._zip(ctx, b, f)
        if len(a.shape) == 2 and len(b.shape) == 1 and a.shape[1] == b.shape[0]:
            return SArr([[f(x, y) for x, y in zip(r, b.data)] for r in a.data], a.shape)
        if len(a.shape) == 1 and len(b.shape) == 2 and b.shape[1] == a.shape[0]:
            return SArr([[f(x, y) for x, y in zip(a.data, s)] for s in b.data], b.shape)
        raise PyRaise('ValueError', note='operands could not be broadcast together with shapes %r %r' % (a.shape, b.shape))

    def binop(self, ctx, op, other, reflected):
        if op in ('+', '-', '*'):
            if not isinstance(other, (SArr, SReal)) and not _num(other):
                return NotImplemented
            f = (lambda x, y: ops.binop(ctx, op, y, x)) if reflected else (lambda x, y: ops.binop(ctx, op, x, y))
            return self._zip(ctx, other, f)
        if op == '@':
            a, b = (SArr.of(ctx, other), self) if reflected else (self, SArr.of(ctx, other))
            return dot(ctx, a, b)
        return NotImplemented

    def unop(self, ctx, op):
        if op == '-':
            return self._zip(ctx, self, lambda x, y: ops.unop(ctx, '-', x))
        raise Unsupported('unary ' + op)

    def flat(self):
        if len(self.shape) == 2:
            return [x for r in self.data for x in r]
        return list(self.data) if self.shape else [self.data]


def _sum(ctx, xs):
    r = 0
    for x in xs:
        r = ops.binop(ctx, '+', r, x)
    return r


def dot(ctx, a, b):
    a, b = SArr.of(ctx, a), SArr.of(ctx, b)
    mul = lambda x, y: ops.binop(ctx, '*', x, y)
    if len(a.shape) == 2 and len(b.shape) == 2:
        if a.shape[1] != b.shape[0]:
            raise PyRaise('ValueError', note='shapes not aligned')
        bt = [[b.data[k][j] for k in range(b.shape[0])] for j in range(b.shape[1])]
        return SArr([[_sum(ctx, [mul(x, y) for x, y in zip(r, c)]) for c in bt] for r in a.data], (a.shape[0], b.shape[1]))
    if len(a.shape) == 1 and len(b.shape) == 2:
        if a.shape[0] != b.shape[0]:
            raise PyRaise('ValueError', note='shapes not aligned')
        return SArr([_sum(ctx, [mul(a.data[k], b.data[k][j]) for k in range(a.shape[0])]) for j in range(b.shape[1])], (b.shape[1],))
    if len(a.shape) == 2 and len(b.shape) == 1:
        if a.shape[1] != b.shape[0]:
            raise PyRaise('ValueError', note='shapes not aligned')
        return SArr([_sum(ctx, [mul(x, y) for x, y in zip(r, b.data)]) for r in a.data], (a.shape[0],))
    if len(a.shape) == 1 and len(b.shape) == 1 and a.shape == b.shape:
        return _sum(ctx, [mul(x, y) for x, y in zip(a.data, b.data)])
    raise Unsupported('dot of shapes %r %r' % (a.shape, b.shape))


def det_rows(ctx, M):
    mul = lambda x, y: ops.binop(ctx, '*', x, y)
    sub = lambda x, y: ops.binop(ctx, '-', x, y)
    add = lambda x, y: ops.binop(ctx, '+', x, y)
    n = len(M)
    if n == 0:
        return 1
    if n == 1:
        return M[0][0]
    if n == 2:
        return sub(mul(M[0][0], M[1][1]), mul(M[0][1], M[1][0]))
    if n == 3:
        c0 = sub(mul(M[1][1], M[2][2]), mul(M[1][2], M[2][1]))
        c1 = sub(mul(M[1][0], M[2][2]), mul(M[1][2], M[2][0]))
        c2 = sub(mul(M[1][0], M[2][1]), mul(M[1][1], M[2][0]))
        return add(sub(mul(M[0][0], c0), mul(M[0][1], c1)), mul(M[0][2], c2))
    raise Unsupported('det of order %d' % n)


class IArr:
    """a concrete integer array (the table of block shapes in numeric.blockdiag), computed by the real numpy"""

    def __init__(self, a):
        self.a = _np.asarray(a)

    def _wrap(self, r):
        r = _np.asarray(r)
        return int(r) if r.ndim == 0 else tuple(int(x) for x in r) if r.ndim == 1 else IArr(r)

    def sym_getattr(self, ctx, name):
        if name == 'sum':
            return lambda ctx, axis=None: self._wrap(self.a.sum(axis))
        if name == 'cumsum':
            return lambda ctx, axis=None: self._wrap(self.a.cumsum(axis))
        if name == 'shape':
            return tuple(self.a.shape)
        raise Unsupported('integer ndarray.' + name)

    def sym_iterate(self, ctx):
        return [self._wrap(r) for r in self.a]


class NPm:
    """numpy on small arrays of concrete shape (exact)"""

    def sym_getattr(self, ctx, name):
        if name == 'newaxis':
            return None
        if name == 'asarray':
            return lambda ctx, x, dtype=None: x if isinstance(x, IArr) else SArr.of(ctx, x)
        if name == 'array':
            def array(ctx, x, dtype=None):
                xs = ops.iterate(ctx, x)
                if xs and all(isinstance(r, tuple) and all(isinstance(v, int) for v in r) for r in xs):
                    return IArr(xs)  # an array of shapes: concrete integers, handled by the real numpy
                return SArr.of(ctx, xs)
            return array
        if name == 'zeros':
            return lambda ctx, shape, dtype=None: SArr.full([int(s) for s in (shape if isinstance(shape, (tuple, list)) else (shape,))], 0)
        if name == 'ones':
            return lambda ctx, shape: SArr.full([int(s) for s in (shape if isinstance(shape, (tuple, list)) else (shape,))], 1)
        if name == 'eye':
            return lambda ctx, n: SArr([[1 if i == j else 0 for j in range(n)] for i in range(n)], (n, n))
        if name == 'dot':
            return dot
        if name == 'concatenate':
            def concatenate(ctx, parts, axis=0):
                parts = [SArr.of(ctx, p) for p in ops.iterate(ctx, parts)]
                if axis != 0:
                    raise Unsupported('concatenate axis %r' % (axis,))
                if all(len(p.shape) == 1 for p in parts):
                    d = [x for p in parts for x in p.data]
                    return SArr(d, (len(d),))
                if all(len(p.shape) == 2 for p in parts) and len(set(p.shape[1] for p in parts)) == 1:
                    d = [list(r) for p in parts for r in p.data]
                    return SArr(d, (len(d), parts[0].shape[1]))
                raise PyRaise('ValueError', note='all the input array dimensions except for the concatenation axis must match exactly')
            return concatenate
        if name == 'linalg':
            return Stub('numpy.linalg', det=lambda ctx, M: det_rows(ctx, SArr.of(ctx, M).data))
        raise Unsupported('numpy.' + name)


MRO = {
    'Updim': [('transform', 'Updim'), ('transform', 'Matrix'), ('transform', 'TransformItem')],
    'Square': [('transform', 'Square'), ('transform', 'Matrix'), ('transform', 'TransformItem')],
}
for _c in ('SimplexEdge', 'TensorEdge1', 'TensorEdge2', 'ScaledUpdim'):
    MRO[_c] = [('transform', _c)] + MRO['Updim']
REFS = {
    'SimplexReference': [('element', 'SimplexReference'), ('element', 'Reference')],
    'TensorReference': [('element', 'TensorReference'), ('element', 'Reference')],
}


def make_globals():
    def cls(name):
        return ClassRef(name, construct=lambda ctx, *a, **k: RObj.construct(ctx, name, MRO[name], a, k))
    g = {'numpy': NPm(), '_': None, 'Integral': int,
         'types': Stub('types', frozenarray=lambda ctx, x, copy=True, dtype=None: x, arraydata=lambda ctx, x: x),
         'numeric': Stub('numeric', ext=lambda ctx, A: run_real(ctx, 'numeric:ext', (A,)), blockdiag=lambda ctx, args: run_real(ctx, 'numeric:blockdiag', (args,)))}
    for name in MRO:
        g[name] = cls(name)
    g['transform'] = Stub('transform', **{name: g[name] for name in MRO})
    return g


def updim(ctx, L, b, flipped):
    """a generic edge transform (class invariant of Updim: linear n x (n-1), offset n, isflipped)"""
    n = len(L)
    return RObj('Updim', MRO['Updim'], attrs=dict(linear=SArr([list(r) for r in L], (n, n - 1)), offset=SArr(list(b), (n,)), isflipped=flipped, todims=n, fromdims=n - 1,
                                               _affine=(SArr([list(r) for r in L], (n, n - 1)), SArr(list(b), (n,)))))


def _replay(call):
    import os
    here = os.path.dirname(os.path.dirname(os.path.abspath(__file__)))
    return "import sys; sys.path.insert(0, %r)\nfrom native import c08\nc08.%s\n" % (here, call)


def _vec(ctx, v):
    v = SArr.of(ctx, v)
    if len(v.shape) != 1:
        raise Unsupported('ext of shape %r' % (v.shape,))
    return [zr(x) for x in v.data]


class _Edge(Contract):
    prop = PROP
    bounded = BOUND

    def sym_factor(self, cx, n):
        L = [[SReal(cx.real('l%d%d' % (i, j))) for j in range(n - 1)] for i in range(n)]
        b = [SReal(cx.real('b%d' % i)) for i in range(n)]
        fl = SBool(cx.bool('isflipped'))
        return L, b, fl


class TensorExt(_Edge):
    """TensorEdge1(e, m) / TensorEdge2(m, e): ext is the factor's ext padded with m zeros, same sign"""

    def __init__(self, which, d, m):
        self.which, self.d, self.m = which, d, m
        self.fn = 'transform:TensorEdge%d.__init__' % which
        self.label = 'factor-dim=%d,other-dim=%d' % (d, m)

    def setup(self, cx):
        L, b, fl = self.sym_factor(cx, self.d)
        return State(L=L, b=b, fl=fl, globals=make_globals())

    def body(self, cx, S, call):
        e = updim(cx, S.L, S.b, S.fl)
        S.e = e
        args = (e, self.m) if self.which == 1 else (self.m, e)
        t = RObj.construct(cx, 'TensorEdge%d' % self.which, MRO['TensorEdge%d' % self.which], args, {})
        return t, call('transform:Updim.ext', t), call('transform:Updim.ext', e)

    def ensures(self, cx, S, result):
        t, ext, ext0 = result
        ext, ext0 = _vec(cx, ext), _vec(cx, ext0)
        zeros = [z3.RealVal(0)] * self.m
        want = ext0 + zeros if self.which == 1 else zeros + ext0
        n = self.d + self.m
        return [('dims', z3.BoolVal(t.attrs['todims'] == n and t.attrs['fromdims'] == n - 1 and len(ext) == n)),
                ('ext-is-the-factor-ext-padded-with-zeros', z3.And(*[a == b for a, b in zip(ext, want)]) if len(ext) == len(want) else z3.BoolVal(False)),
                ('offset-is-the-factor-offset-padded', z3.And(*[zr(a) == zr(b) for a, b in zip(SArr.of(cx, t.attrs['offset']).data, (list(S.b) + [0] * self.m) if self.which == 1 else ([0] * self.m + list(S.b)))]))]

    def replay(self, ob):
        return _replay('tensor_ext(%d, %d, %d)' % (self.which, self.d, self.m))


class ScaledExt(_Edge):
    """ScaledUpdim(A, e): A^T ext' = |det A| e.ext"""
    fn = 'transform:ScaledUpdim.__init__'

    def __init__(self, n):
        self.n = n
        self.label = 'n=%d' % n

    def setup(self, cx):
        n = self.n
        L, b, fl = self.sym_factor(cx, n)
        A = [[SReal(cx.real('a%d%d' % (i, j))) for j in range(n)] for i in range(n)]
        c = [SReal(cx.real('c%d' % i)) for i in range(n)]
        return State(L=L, b=b, fl=fl, A=A, c=c, globals=make_globals())

    def body(self, cx, S, call):
        n = self.n
        e = updim(cx, S.L, S.b, S.fl)
        sq = RObj('Square', MRO['Square'], attrs=dict(linear=SArr([list(r) for r in S.A], (n, n)), offset=SArr(list(S.c), (n,)), todims=n, fromdims=n, _transform_matrix={}))
        t = RObj.construct(cx, 'ScaledUpdim', MRO['ScaledUpdim'], (sq, e), {})
        return t, call('transform:Updim.ext', t), call('transform:Updim.ext', e)

    def ensures(self, cx, S, result):
        t, ext, ext0 = result
        ext, ext0 = _vec(cx, ext), _vec(cx, ext0)
        n = self.n
        A = [[zr(x) for x in r] for r in S.A]
        d = zr(det_rows(cx, S.A))
        absd = z3.If(d < 0, -d, d)
        lin = SArr.of(cx, t.attrs['linear'])
        off = SArr.of(cx, t.attrs['offset'])
        AL = [[sum(A[i][k] * zr(S.L[k][j]) for k in range(n)) for j in range(n - 1)] for i in range(n)]
        return [('normal-transported-by-the-cofactor-keeps-its-side', z3.And(*[sum(A[j][i] * ext[j] for j in range(n)) == absd * ext0[i] for i in range(n)])),
                ('linear-is-the-product', z3.And(*[zr(lin.data[i][j]) == AL[i][j] for i in range(n) for j in range(n - 1)]) if lin.shape == (n, n - 1) else z3.BoolVal(False)),
                # the composed map x -> A (L x + b) + c
                ('offset-is-the-image-of-the-edge-offset', z3.And(*[zr(o) == sum(A[i][k] * zr(S.b[k]) for k in range(n)) + zr(S.c[i]) for i, o in enumerate(off.data)]) if off.shape == (n,) else z3.BoolVal(False))]

    def replay(self, ob):
        return _replay('scaled_ext(%d)' % self.n)


# ---- ground: the reference elements -----------------------------------------------------------------------------

def simplex_ref(n):
    return RObj('SimplexReference', REFS['SimplexReference'], attrs=dict(ndims=n))


def tensor_ref(r1, r2):
    return RObj('TensorReference', REFS['TensorReference'], attrs=dict(ref1=r1, ref2=r2, ndims=r1.attrs['ndims'] + r2.attrs['ndims']))


def centroid(spec):
    """spec: nested tuples of simplex dimensions, e.g. (2, 1) = triangle x line, ((1, 1), 1) = cube"""
    if isinstance(spec, int):
        return [Fraction(1, spec + 1)] * spec
    return centroid(spec[0]) + centroid(spec[1])


def build_ref(spec):
    if isinstance(spec, int):
        return simplex_ref(spec)
    return tensor_ref(build_ref(spec[0]), build_ref(spec[1]))


def ndims_of(spec):
    return spec if isinstance(spec, int) else ndims_of(spec[0]) + ndims_of(spec[1])


FAMILY = {'line': 1, 'triangle': 2, 'tetrahedron': 3, 'square': (1, 1), 'cube': ((1, 1), 1), 'cube-right-nested': (1, (1, 1)), 'triangle x line': (2, 1), 'line x triangle': (1, 2)}


class Outward(_Edge):
    """every edge transform of a reference element has its ext pointing out of the element"""

    def __init__(self, name):
        self.name, self.spec = name, FAMILY[name]
        top = 'SimplexReference' if isinstance(self.spec, int) else 'TensorReference'
        self.fn = 'element:%s.edge_transforms' % top
        self.label = name
        self.exact = True

    def setup(self, cx):
        return State(globals=make_globals())

    def body(self, cx, S, call):
        ref = build_ref(self.spec)
        edges = call(self.fn, ref)
        return [(e, call('transform:Updim.ext', e)) for e in ops.iterate(cx, edges)]

    def ensures(self, cx, S, result):
        n = ndims_of(self.spec)
        c = centroid(self.spec)
        nfaces = (lambda f: f(f, self.spec))(lambda f, s: s + 1 if isinstance(s, int) else f(f, s[0]) + f(f, s[1]))
        out, orth, dims = [], [], []
        for e, ext in result:
            ext = [Fraction(x) for x in SArr.of(cx, ext).data]
            off = [Fraction(x) for x in SArr.of(cx, e.attrs['offset']).data]
            lin = SArr.of(cx, e.attrs['linear'])
            dims.append(len(ext) == n and len(off) == n and lin.shape == (n, n - 1))
            if not dims[-1]:
                continue
            out.append(sum(x * (o - cc) for x, o, cc in zip(ext, off, c)) > 0)
            orth.append(all(sum(ext[i] * Fraction(lin.data[i][j]) for i in range(n)) == 0 for j in range(n - 1)))
        return [('one-edge-transform-per-face', z3.BoolVal(len(result) == nfaces and all(dims))),
                ('normal-points-out-of-the-element', z3.BoolVal(all(out) and len(out) == len(result))),
                ('normal-orthogonal-to-the-face', z3.BoolVal(all(orth)))]

    def replay(self, ob):
        return _replay('outward(%r)' % (self.name,))


class SimplexEdgeInit(_Edge):
    """SimplexEdge(n, iedge, inverted): the face opposite vertex iedge; ext points out of the simplex iff not inverted"""
    fn = 'transform:SimplexEdge.__init__'

    def __init__(self, n, iedge, inverted):
        self.n, self.iedge, self.inverted = n, iedge, inverted
        self.label = 'ndims=%d,iedge=%d,inverted=%s' % (n, iedge, inverted)
        self.exact = True

    def setup(self, cx):
        return State(globals=make_globals())

    def body(self, cx, S, call):
        e = RObj.construct(cx, 'SimplexEdge', MRO['SimplexEdge'], (self.n, self.iedge, self.inverted), {})
        return e, call('transform:Updim.ext', e)

    def ensures(self, cx, S, result):
        e, ext = result
        n = self.n
        ext = [Fraction(x) for x in SArr.of(cx, ext).data]
        off = [Fraction(x) for x in SArr.of(cx, e.attrs['offset']).data]
        lin = SArr.of(cx, e.attrs['linear'])
        verts = [[Fraction(0)] * n] + [[Fraction(int(i == j)) for j in range(n)] for i in range(n)]
        face = [v for k, v in enumerate(verts) if k != self.iedge]
        # the images of the reference vertices of the (n-1)-simplex are exactly the vertices of the face, in order
        img = [off] + [[off[i] + Fraction(lin.data[i][j]) for i in range(n)] for j in range(n - 1)]
        s = sum(x * (o - Fraction(1, n + 1)) for x, o in zip(ext, off))
        return [('maps-onto-the-face-opposite-vertex-iedge', z3.BoolVal(img == face)),
                ('normal-points-out-unless-inverted', z3.BoolVal(s < 0 if self.inverted else s > 0))]

    def replay(self, ob):
        return _replay('simplex_edge(%d, %d, %r)' % (self.n, self.iedge, self.inverted))


class Flipped(_Edge):
    """X.flipped: the same map with the opposite orientation flag; its ext is the negative"""

    def __init__(self, kind, *dims):
        self.kind, self.dims = kind, dims
        self.fn = 'transform:%s.flipped' % kind
        self.label = ','.join(str(d) for d in dims)
        self.exact = kind == 'SimplexEdge'

    def setup(self, cx):
        S = State(globals=make_globals())
        if self.kind != 'SimplexEdge':
            S.L, S.b, S.fl = self.sym_factor(cx, self.dims[0])
        if self.kind == 'ScaledUpdim':
            n = self.dims[0]
            S.A = [[SReal(cx.real('a%d%d' % (i, j))) for j in range(n)] for i in range(n)]
            S.c = [SReal(cx.real('c%d' % i)) for i in range(n)]
        return S

    def body(self, cx, S, call):
        k, d = self.kind, self.dims
        if k == 'SimplexEdge':
            x = RObj.construct(cx, k, MRO[k], (d[0], d[1], d[2]), {})
        else:
            e = updim(cx, S.L, S.b, S.fl)
            if k == 'Updim':
                x = e
            elif k == 'ScaledUpdim':
                sq = RObj('Square', MRO['Square'], attrs=dict(linear=SArr([list(r) for r in S.A], (d[0], d[0])), offset=SArr(list(S.c), (d[0],)), todims=d[0], fromdims=d[0], _transform_matrix={}))
                x = RObj.construct(cx, k, MRO[k], (sq, e), {})
            else:
                x = RObj.construct(cx, k, MRO[k], (e, d[1]) if k == 'TensorEdge1' else (d[1], e), {})
        f = call(self.fn, x)
        return x, f, call('transform:Updim.ext', x), call('transform:Updim.ext', f)

    def ensures(self, cx, S, result):
        x, f, ext, extf = result
        ext, extf = _vec(cx, ext), _vec(cx, extf)
        flat = lambda o, a: [zr(v) for v in SArr.of(cx, o.attrs[a]).flat()]
        same = lambda a: z3.And(z3.BoolVal(SArr.of(cx, x.attrs[a]).shape == SArr.of(cx, f.attrs[a]).shape), *[u == v for u, v in zip(flat(x, a), flat(f, a))])
        return [('same-class-same-map', z3.And(z3.BoolVal(isinstance(f, RObj) and f.clsname == x.clsname), same('linear'), same('offset'))),
                ('orientation-flag-negated', zbool(ops.truth(cx, f.attrs['isflipped'])) == z3.Not(zbool(ops.truth(cx, x.attrs['isflipped'])))),
                ('ext-negated', z3.And(z3.BoolVal(len(ext) == len(extf)), *[u == -v for u, v in zip(ext, extf)]))]

    def replay(self, ob):
        return _replay('flipped(%r, %r)' % (self.kind, self.dims))


def contracts():
    cs = []
    for d in (1, 2, 3):
        for m in range(0, 4 - d):
            cs.append(TensorExt(1, d, m))
            cs.append(TensorExt(2, d, m))
    for n in (1, 2, 3):
        cs.append(ScaledExt(n))
    for n in (1, 2, 3):
        for iedge in range(n + 1):
            for inv in (False, True):
                cs.append(SimplexEdgeInit(n, iedge, inv))
    for name in FAMILY:
        cs.append(Outward(name))
    for n in (1, 2, 3):
        cs.append(Flipped('Updim', n))
        cs.append(Flipped('ScaledUpdim', n))
        for iedge in range(n + 1):
            cs.append(Flipped('SimplexEdge', n, iedge, bool(iedge % 2)))
    for d, m in ((1, 1), (1, 2), (2, 1)):
        cs.append(Flipped('TensorEdge1', d, m))
        cs.append(Flipped('TensorEdge2', d, m))
    return cs
