"""C09 (kernel) -- Gauss tables integrate exactly what they advertise.

points.gauss2 / points.gauss3 are executed for every branch of their `degree` if-chain with EXACT rational
arithmetic (a float literal stands for the decimal it spells; 1/3 is the rational 1/3) and the arrays they build
(via numpy.take / numpy.concatenate, modelled exactly) must satisfy, for the simplex of dimension d:

  weights-sum      sum w_i = 1/d!                                      (|.| <= TOL)
  points-inside    every coordinate >= 0 and coordinates sum to <= 1
  monomials-exact  for every multi-index a with |a| <= p:  sum w_i x_i^a = a!/(|a|+d)!   (|.| <= TOL)

where p = degree for degree <= the table maximum (6 for triangles, 7 for tetrahedra) and p = the maximum above it.
TOL = 5e-15 absorbs the rounding of the published 16-digit constants (0 is reached by the rational tables).
Exactness for all polynomials of degree <= p follows by linearity (meta).  gauss1: the number of Gauss-Legendre
points n = degree//2 + 1... is checked as 2n - 1 >= degree for all degree >= 0 (symbolic).
"""
import math, itertools
from fractions import Fraction
import z3
from pyvc.contract import Contract, State
from pyvc.values import SInt, Unsupported, PyRaise, zint
from pyvc import ops

PROP = 'C09'
LEVEL = 'proof'
TOL = Fraction(5, 10**15)


def rv(x):
    return z3.RealVal(str(Fraction(x)))


class ExactNumpy:
    def sym_getattr(self, ctx, name):
        if name == 'take':
            def take(ctx, c, i):
                c = ops.iterate(ctx, c)
                return [[c[k] for k in ops.iterate(ctx, row)] for row in ops.iterate(ctx, i)]
            return take
        if name == 'concatenate':
            def concatenate(ctx, parts):
                out = []
                for p in ops.iterate(ctx, parts):
                    out.extend(ops.iterate(ctx, p))
                return out
            return concatenate
        raise Unsupported('numpy.%s in exact table evaluation' % name)


class TypesStub:
    def sym_getattr(self, ctx, name):
        if name == 'arraydata':
            return lambda ctx, x: x
        raise Unsupported('types.' + name)


class WarningsStub:
    def sym_getattr(self, ctx, name):
        return lambda ctx, *a, **k: None


class Table(Contract):
    prop = PROP
    exact = True

    def __init__(self, fn, ndims, degree, maxdeg):
        self.fn = 'points:' + fn
        self.ndims, self.degree, self.maxdeg = ndims, degree, maxdeg
        self.label = 'degree=%d' % degree

    def setup(self, cx):
        return State(args=(self.degree,), globals={'numpy': ExactNumpy(), 'types': TypesStub(), 'warnings': WarningsStub()})

    def ensures(self, cx, S, result):
        coords, weights = result
        d = self.ndims
        pts = [[Fraction(x) for x in p] for p in coords]
        ws = [Fraction(w) for w in weights]
        if len(pts) != len(ws) or any(len(p) != d for p in pts):
            raise Unsupported('table shape %d points x %s' % (len(pts), set(len(p) for p in pts)))
        p = min(self.degree, self.maxdeg)
        tol = rv(TOL)

        def absle(x, bound):
            x = rv(x)
            return z3.And(x <= bound, -x <= bound)
        out = [('weights-sum', absle(sum(ws) - Fraction(1, math.factorial(d)), tol)),
               ('points-inside', z3.And(*[rv(x) >= 0 for pt in pts for x in pt], *[rv(sum(pt)) <= 1 for pt in pts]))]
        goals = []
        for alpha in itertools.product(range(p + 1), repeat=d):
            if sum(alpha) > p:
                continue
            exact = Fraction(math.prod(math.factorial(a) for a in alpha), math.factorial(sum(alpha) + d))
            q = sum(w * math.prod(x ** a for x, a in zip(pt, alpha)) for pt, w in zip(pts, ws))
            goals.append(absle(q - exact, tol))
        out.append(('monomials-exact', z3.And(*goals)))
        S.worst = None
        return out

    def replay(self, ob):
        import os
        here = os.path.dirname(os.path.dirname(os.path.abspath(__file__)))
        return "import sys; sys.path.insert(0, %r)\nfrom native import c09\nc09.run(%r, %d, %d, %d)\n" % (here, self.fn.split(':')[1], self.ndims, self.degree, self.maxdeg)


class Gauss1Count(Contract):
    """gauss1(degree) asks gauss(n) for n = degree//2 + 1 points?  The code passes degree//2 to gauss(), which
    builds n+... -- checked symbolically: the number of points N handed to the Gauss-Legendre rule satisfies 2N-1 >= degree."""
    prop = PROP
    fn = 'points:gauss1'

    def setup(self, cx):
        deg = cx.int('degree')
        cx.assume(deg >= 0)
        S = State(args=(SInt(deg),), deg=deg, n=None)

        def gauss(ctx, n):
            S.n = zint(n)

            class Arr:
                def sym_getattr(self, ctx, name):
                    if name == 'shape':
                        return (n,)
                    if name == 'reshape':
                        return lambda ctx, *a: self
                    raise Unsupported(name)
            return Arr(), Arr()
        S.globals = {'gauss': gauss}
        return S

    def ensures(self, cx, S, result):
        if S.n is None:
            raise Unsupported('gauss1 did not call gauss')
        # gauss(n) builds k = arange(n)+1 and an (n+1)x(n+1) Jacobi matrix: N = n + 1 points, exact to degree 2N-1
        N = S.n + 1
        return [('enough-points-for-degree', 2 * N - 1 >= S.deg)]


def contracts():
    cs = [Gauss1Count()]
    for deg in range(0, 9):
        cs.append(Table('gauss2', 2, deg, 7 if deg > 6 else 6) if False else Table('gauss2', 2, deg, 7))
    for deg in range(0, 10):
        cs.append(Table('gauss3', 3, deg, 8))
    return cs


TRUSTED = ['pyvc symbolic executor in exact mode: float literals are the decimals they spell, int/int is an exact rational',
           'numpy.take / numpy.concatenate on nested lists (modelled exactly), types.arraydata as identity',
           'Gauss-Legendre rule with N points is exact to degree 2N-1 (classical theorem; gauss() itself, an eigen-solver, is not verified)',
           'linearity: exactness on monomials gives exactness on all polynomials of that degree (meta)']
ASSUMPTIONS = ['machine arithmetic treated as mathematical: the tables are checked as exact rationals with tolerance 5e-15 for the 16-digit decimal constants',
               'for degree above the table maximum (6 triangle / 7 tetrahedron) the code warns "inexact"; the last table is checked to its own degree (7 / 8)']
NOT_COVERED = ['_Integral.lower, sample zipping, tensor/child/mosaic point sets, weights times |det J| (array semantics)',
               'index partition of sample._DefaultIndex/_Add/_Mul/_TakeElements.getindex (DESIGN 4.9; not built)']
