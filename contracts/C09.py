"""C09 (kernel) -- Gauss tables integrate exactly what they advertise.

points.gauss2 / points.gauss3 are executed for every branch of their `degree` if-chain with EXACT rational
arithmetic (a float literal stands for the decimal it spells; 1/3 is the rational 1/3) and the arrays they build
(via numpy.take / numpy.concatenate, modelled exactly) must satisfy, for the simplex of dimension d:

  weights-sum      sum w_i = 1/d!                                      (|.| <= TOL)
  points-inside    every coordinate >= 0 and coordinates sum to <= 1
  monomials-exact  for every multi-index a with |a| <= p:  sum w_i x_i^a = a!/(|a|+d)!   (|.| <= TOL)

where p = degree for degree <= the table maximum (6 for triangles, 7 for tetrahedra) and p = the maximum above it.
TOL = 5e-15 absorbs the rounding of the published 16-digit constants (0 is reached by the rational tables).
Exactness for all polynomials of degree <= p follows by linearity (meta).  gauss1: the number of Gauss-Legendre
points n = degree//2 + 1... is checked as 2n - 1 >= degree for all degree >= 0 (symbolic).
"""
import math, itertools
from fractions import Fraction
import z3
from pyvc.contract import Contract, State
from pyvc.values import SInt, SObj, Sym, Unsupported, PyRaise, zint
from pyvc import ops

PROP = 'C09'
LEVEL = 'proof'
TOL = Fraction(5, 10**15)


def rv(x):
    return z3.RealVal(str(Fraction(x)))


class ExactNumpy:
    def sym_getattr(self, ctx, name):
        if name == 'take':
            def take(ctx, c, i):
                c = ops.iterate(ctx, c)
                return [[c[k] for k in ops.iterate(ctx, row)] for row in ops.iterate(ctx, i)]
            return take
        if name == 'concatenate':
            def concatenate(ctx, parts):
                out = []
                for p in ops.iterate(ctx, parts):
                    out.extend(ops.iterate(ctx, p))
                return out
            return concatenate
        raise Unsupported('numpy.%s in exact table evaluation' % name)


class TypesStub:
    def sym_getattr(self, ctx, name):
        if name == 'arraydata':
            return lambda ctx, x: x
        raise Unsupported('types.' + name)


class WarningsStub:
    def sym_getattr(self, ctx, name):
        return lambda ctx, *a, **k: None


class Table(Contract):
    prop = PROP
    exact = True

    def __init__(self, fn, ndims, degree, maxdeg):
        self.fn = 'points:' + fn
        self.ndims, self.degree, self.maxdeg = ndims, degree, maxdeg
        self.label = 'degree=%d' % degree

    def setup(self, cx):
        return State(args=(self.degree,), globals={'numpy': ExactNumpy(), 'types': TypesStub(), 'warnings': WarningsStub()})

    def ensures(self, cx, S, result):
        coords, weights = result
        d = self.ndims
        pts = [[Fraction(x) for x in p] for p in coords]
        ws = [Fraction(w) for w in weights]
        if len(pts) != len(ws) or any(len(p) != d for p in pts):
            raise Unsupported('table shape %d points x %s' % (len(pts), set(len(p) for p in pts)))
        p = min(self.degree, self.maxdeg)
        tol = rv(TOL)

        def absle(x, bound):
            x = rv(x)
            return z3.And(x <= bound, -x <= bound)
        out = [('weights-sum', absle(sum(ws) - Fraction(1, math.factorial(d)), tol)),
               ('points-inside', z3.And(*[rv(x) >= 0 for pt in pts for x in pt], *[rv(sum(pt)) <= 1 for pt in pts]))]
        goals = []
        for alpha in itertools.product(range(p + 1), repeat=d):
            if sum(alpha) > p:
                continue
            exact = Fraction(math.prod(math.factorial(a) for a in alpha), math.factorial(sum(alpha) + d))
            q = sum(w * math.prod(x ** a for x, a in zip(pt, alpha)) for pt, w in zip(pts, ws))
            goals.append(absle(q - exact, tol))
        out.append(('monomials-exact', z3.And(*goals)))
        S.worst = None
        return out

    def replay(self, ob):
        import os
        here = os.path.dirname(os.path.dirname(os.path.abspath(__file__)))
        return "import sys; sys.path.insert(0, %r)\nfrom native import c09\nc09.run(%r, %d, %d, %d)\n" % (here, self.fn.split(':')[1], self.ndims, self.degree, self.maxdeg)


class Gauss1Count(Contract):
    """gauss1(degree) asks gauss(n) for n = degree//2 + 1 points?  The code passes degree//2 to gauss(), which
    builds n+... -- checked symbolically: the number of points N handed to the Gauss-Legendre rule satisfies 2N-1 >= degree."""
    prop = PROP
    fn = 'points:gauss1'

    def setup(self, cx):
        deg = cx.int('degree')
        cx.assume(deg >= 0)
        S = State(args=(SInt(deg),), deg=deg, n=None)

        def gauss(ctx, n):
            S.n = zint(n)

            class Arr:
                def sym_getattr(self, ctx, name):
                    if name == 'shape':
                        return (n,)
                    if name == 'reshape':
                        return lambda ctx, *a: self
                    raise Unsupported(name)
            return Arr(), Arr()
        S.globals = {'gauss': gauss}
        return S

    def ensures(self, cx, S, result):
        if S.n is None:
            raise Unsupported('gauss1 did not call gauss')
        # gauss(n) builds k = arange(n)+1 and an (n+1)x(n+1) Jacobi matrix: N = n + 1 points, exact to degree 2N-1
        N = S.n + 1
        return [('enough-points-for-degree', 2 * N - 1 >= S.deg)]


# ---- tensor products: weights and coordinates are listed in the same order -------------------------------------------

class NdArr(Sym):
    """n-dimensional array with symbolic shape: sel(i0, .., ik) -> z3 Real term (row-major semantics for ravel/reshape)."""

    def __init__(self, shape, sel, name='arr'):
        self.shape, self.sel, self.name = list(shape), sel, name

    def getattr(self, ctx, name):
        if name == 'ravel':
            return lambda ctx: self.reshape_to([self.size()])
        if name == 'reshape':
            return lambda ctx, *sh: self.reshape_to([zint(x) for x in (sh[0] if len(sh) == 1 and isinstance(sh[0], tuple) else sh)])
        if name == 'shape':
            return tuple(SInt(x) for x in self.shape)
        raise Unsupported('ndarray.' + name)

    def size(self):
        r = z3.IntVal(1)
        for x in self.shape:
            r = r * x
        return z3.simplify(r)

    def reshape_to(self, newshape):
        """C-order reshape of an array whose trailing axes are kept: (a, b, *rest) -> (a*b, *rest) or full ravel."""
        old, sel = self.shape, self.sel
        if len(newshape) == 1 and len(old) == 2:
            b = old[1]
            return NdArr(newshape, lambda k: sel(k / b, k % b), self.name + '.ravel')
        if len(newshape) == 2 and len(old) == 3:
            b = old[1]
            return NdArr(newshape, lambda k, d: sel(k / b, k % b, d), self.name + '.reshape')
        raise Unsupported('reshape %s -> %s' % (old, newshape))

    def getitem(self, ctx, idx):
        if not isinstance(idx, tuple):
            idx = (idx,)
        # supports slice(None), None (newaxis) and half-open slices :k / k: on the LAST axis only via setitem
        src_axis = 0
        plan = []
        for it in idx:
            if it is None:
                plan.append(None)
            elif isinstance(it, slice) and it.start is None and it.stop is None:
                plan.append(src_axis)
                src_axis += 1
            else:
                raise Unsupported('index %r' % (it,))
        shape = [z3.IntVal(1) if p is None else self.shape[p] for p in plan]
        sel = self.sel
        return NdArr(shape, lambda *ix: sel(*[ix[k] for k, p in enumerate(plan) if p is not None]), self.name + '[..]')

    def binop(self, ctx, op, other, reflected):
        if op == '*' and isinstance(other, NdArr) and len(other.shape) == len(self.shape):
            a, b = (other, self) if reflected else (self, other)
            shape, pick_a, pick_b = [], [], []
            for x, y in zip(a.shape, b.shape):
                xs, ys = z3.simplify(x), z3.simplify(y)
                one_x, one_y = z3.is_int_value(xs) and xs.as_long() == 1, z3.is_int_value(ys) and ys.as_long() == 1
                shape.append(y if one_x else x)
                pick_a.append(one_x)
                pick_b.append(one_y)
            return NdArr(shape, lambda *ix: a.sel(*[z3.IntVal(0) if pa else i for i, pa in zip(ix, pick_a)]) * b.sel(*[z3.IntVal(0) if pb else i for i, pb in zip(ix, pick_b)]), 'outer')
        return NotImplemented

    def setitem(self, ctx, idx, value):
        # coords[:, :, :k] = v  /  coords[:, :, k:] = v   with v broadcast along size-1 axes
        if not (isinstance(idx, tuple) and len(idx) == len(self.shape) and all(isinstance(i, slice) for i in idx)):
            raise Unsupported('store %r' % (idx,))
        last = idx[-1]
        old = self.sel
        ones = [z3.is_int_value(z3.simplify(x)) and z3.simplify(x).as_long() == 1 for x in value.shape]
        vsel = value.sel
        if last.start is None and last.stop is not None:
            k = zint(last.stop)
            self.sel = lambda *ix: z3.If(ix[-1] < k, vsel(*[z3.IntVal(0) if o else i for i, o in zip(ix, ones)]), old(*ix))
        elif last.stop is None and last.start is not None:
            k = zint(last.start)
            self.sel = lambda *ix: z3.If(ix[-1] >= k, vsel(*[z3.IntVal(0) if o else i for i, o in zip(ix[:-1], ones[:-1])], ix[-1] - k), old(*ix))
        else:
            raise Unsupported('store slice %r' % (last,))


class TensorWeights(Contract):
    """TensorPoints.weights / .coords: point (i, j) of the product sits at flat index i*n2 + j in BOTH arrays:
    weights[i*n2+j] = w1[i]*w2[j],  coords[i*n2+j] = (coords1[i], coords2[j])."""
    prop = PROP

    def __init__(self, what):
        self.what = what
        self.fn = 'points:TensorPoints.' + what

    def setup(self, cx):
        n1, n2, d1, d2 = cx.int('n1'), cx.int('n2'), cx.int('d1'), cx.int('d2')
        cx.assume(z3.And(n1 >= 1, n2 >= 1, d1 >= 0, d2 >= 0))
        W1, W2 = z3.Function('w1', z3.IntSort(), z3.RealSort()), z3.Function('w2', z3.IntSort(), z3.RealSort())
        C1, C2 = z3.Function('c1', z3.IntSort(), z3.IntSort(), z3.RealSort()), z3.Function('c2', z3.IntSort(), z3.IntSort(), z3.RealSort())
        p1 = SObj('Points', attrs=dict(npoints=SInt(n1), ndims=SInt(d1), weights=NdArr([n1], lambda i: W1(i), 'w1'), coords=NdArr([n1, d1], lambda i, d: C1(i, d), 'c1')))
        p2 = SObj('Points', attrs=dict(npoints=SInt(n2), ndims=SInt(d2), weights=NdArr([n2], lambda i: W2(i), 'w2'), coords=NdArr([n2, d2], lambda i, d: C2(i, d), 'c2')))
        me = SObj('TensorPoints', attrs=dict(points1=p1, points2=p2, npoints=SInt(n1 * n2), ndims=SInt(d1 + d2)))
        S = State(args=(me,), n1=n1, n2=n2, d1=d1, d2=d2, W1=W1, W2=W2, C1=C1, C2=C2)
        E = z3.Function('empty3', z3.IntSort(), z3.IntSort(), z3.IntSort(), z3.RealSort())

        class NP:
            def sym_getattr(self, ctx, name):
                if name == 'empty':
                    return lambda ctx, shape: NdArr([zint(x) for x in shape], lambda i, j, d: E(i, j, d), 'coords')
                raise Unsupported('numpy.' + name)

        class Ty:
            def sym_getattr(self, ctx, name):
                return lambda ctx, x, copy=True: x
        S.globals = {'numpy': NP(), 'types': Ty(), '_': None}
        # Skolem point (i, j) and coordinate d; the L-DIVMOD instance for its row-major index is PROVED (clause
        # `arith:divmod-of-row-major-index`) and offered as a premise to the main clauses (no axiom assumed)
        S.i, S.j, S.d = cx.int('i'), cx.int('j'), cx.int('d')
        return S

    def ensures(self, cx, S, r):
        if not isinstance(r, NdArr):
            raise Unsupported('returned %r' % (r,))
        i, j, d, n2 = S.i, S.j, S.d, S.n2
        rng = z3.And(0 <= i, i < S.n1, 0 <= j, j < S.n2)
        inst = z3.Implies(z3.And(0 <= j, j < n2), z3.And((i * n2 + j) / n2 == i, (i * n2 + j) % n2 == j))
        lem = ('arith:divmod-of-row-major-index', inst)
        if self.what == 'weights':
            return [lem, ('length', z3.simplify(r.shape[0]) == S.n1 * S.n2 if len(r.shape) == 1 else z3.BoolVal(False)),
                    ('weight-of-point-(i,j)-at-i*n2+j', z3.Implies(z3.And(inst, rng), r.sel(i * S.n2 + j) == S.W1(i) * S.W2(j)))]
        return [lem, ('coords-of-point-(i,j)-at-i*n2+j', z3.Implies(z3.And(inst, rng, 0 <= d, d < S.d1 + S.d2),
                                                                    r.sel(i * S.n2 + j, d) == z3.If(d < S.d1, S.C1(i, d), S.C2(j, d - S.d1))))]

    def replay(self, ob):
        import os
        here = os.path.dirname(os.path.dirname(os.path.abspath(__file__)))
        return "import sys; sys.path.insert(0, %r)\nfrom native import c09\nc09.tensor()\n" % here


def contracts():
    cs = [Gauss1Count(), TensorWeights('weights'), TensorWeights('coords')]
    for deg in range(0, 9):
        cs.append(Table('gauss2', 2, deg, 7 if deg > 6 else 6) if False else Table('gauss2', 2, deg, 7))
    for deg in range(0, 10):
        cs.append(Table('gauss3', 3, deg, 8))
    from contracts import samplepart, pointsx
    cs += pointsx.contracts()
    cs += samplepart.contracts()
    return cs


TRUSTED = ['pyvc symbolic executor in exact mode: float literals are the decimals they spell, int/int is an exact rational',
           'numpy.take / numpy.concatenate on nested lists (modelled exactly), types.arraydata as identity',
           'Gauss-Legendre rule with N points is exact to degree 2N-1 (classical theorem; gauss() itself, an eigen-solver, is not verified)',
           'linearity: exactness on monomials gives exactness on all polynomials of that degree (meta)',
           # index partition (contracts/samplepart.py, samplector.py, sampleeval.py)
           'PART as a bijection with ghost inverses elem_of/loc_of (H1 + H2 of contracts/samplepart.py) is equivalent to "pairwise disjoint, no repetitions, covers range(npoints)" (meta)',
           'structural induction over the nesting of sample classes: every operand is assumed to satisfy PART, every class is shown to preserve it (meta, as in C11)',
           'numpy axioms (cross-checked in native/axioms.py): arange(a, b) = a..b-1; take(a, ind)[k] = a[ind[k]] with IndexError out of range; a[ind] likewise; a[s:t] and slice(*pair); '
           'cumsum recurrence (L-CUMSUM); v[:, None]*n + w[None, :] broadcasts to the outer grid and .ravel() is C order (flat q <-> (q div m, q mod m)); int64 as mathematical integers',
           'nutils.types.frozenarray / arraydata keep the values of the array they wrap; cached_property is transparent',
           'L-MONO (adjacent-monotone => monotone) and L-ROW (a monotone row pointer starting at 0 assigns every position one row) from pyvc/lemmas.py',
           'engine: a list comprehension over a sequence of symbolic length is the list of its element expression at every index (pyvc/interp.py symbolic_listcomp); [c] + L is list concatenation',
           'evaluable twins: the denotation table of IR constructors in contracts/sampleeval.py (Range, Constant, constant, Take, get, divmod, appendaxes, prependaxes, InsertAxis, Zeros, '
           'loop_concatenate of one-element chunks over loop_index, _SizesToOffsets = cumsum([0, *sizes])); induction over loops is inside the loop_concatenate axiom']
ASSUMPTIONS = ['machine arithmetic treated as mathematical: the tables are checked as exact rationals with tolerance 5e-15 for the 16-digit decimal constants',
               'for degree above the table maximum (6 triangle / 7 tetrahedron) the code warns "inexact"; the last table is checked to its own degree (7 / 8)',
               'getindex is called with 0 <= ielem < nelems (Sample.index iterates range(nelems)); out-of-range arguments are only checked for _DefaultIndex, _TakeElements, _Empty (IndexError)',
               '_DefaultIndex: points.npoints = sum of the per-element point counts (PointsSequence.npoints; pointsseq.py is not under contract) so that npoints = offsets[-1]',
               '_CustomIndex: the stored index is a permutation of range(npoints).  The constructor only asserts its SHAPE (proved: index.shape == (parent.npoints,)); bijectivity is the documented, unchecked precondition of Sample.new(index=...)',
               '_TakeElements: every entry of _indices is an element number of the parent, 0 <= i < parent.nelems (callers: Sample.take_elements); the constructor asserts only ndim == 1 and at least one entry',
               '_Zip: the class invariant its constructor builds with numpy.unique/argsort/ravel_multi_index (_offsets = cumsum([0, *_sizes]), sizes add up to npoints, _indices a permutation) is ASSUMED; _Zip.__init__ is not under contract',
               'evaluable twins: operands have one point axis (their get_evaluable_indices denotes a vector); labelled bounded for _Mul']
NOT_COVERED = ['_Integral.lower, _ConcatenatePoints/_ReorderPoints lowering, tensor/child/mosaic point sets, weights times |det J| (array semantics)',
               '_Zip.__init__ (numpy.unique / argsort / ravel_multi_index bookkeeping), _TakeElements.get_evaluable_indices (IR loops + Unravel), get_evaluable_weights / get_lower_args of every class',
               '_Add has no get_evaluable_indices (its integrals are split); _Add/_Mul take_elements, tri/hull bookkeeping',
               'points.ConcatPoints dedup, TransformPoints.weights, points.gauss table count logic (task item 7: not attempted)']
