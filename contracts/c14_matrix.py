"""C14, part 5 -- Matrix.solve_leniently and the Matrix.submatrix cache guard.

solve_leniently   relative to the contracts of Matrix.solve / Matrix._solver (a finite vector, or ToleranceNotReached whose
                  .best is finite -- _solver raises it only after its isfinite check -- or another MatrixError):
                  the result is finite and is exactly solve's result or the best of the swallowed ToleranceNotReached;
                  every other MatrixError propagates; nothing else escapes.
submatrix         the matrix returned for (rows, cols) was built by _submatrix for masks EQUAL to rows and cols (the cached
                  one is only reused for the same rows AND the same cols); `self` only if both masks are all True; the cache
                  triple (_cached_rows, _cached_cols, _cached_submatrix) stays consistent.
"""
import z3
from pyvc.contract import Contract, State
from pyvc.values import Sym, SInt, SBool, SObj, SOpaque, PyRaise, Unsupported, zbool, FIN
from pyvc.nparr import Vec, Numpy, qforall
from pyvc.ops import ExcInstance
from contracts.c14_methods import _script

PROP = 'C14'


def finite(v):
    return v.forall(lambda i, e: e[0] == FIN)


class SolveLeniently(Contract):
    prop = PROP
    fn = 'matrix/_base:Matrix.solve_leniently'
    allow_raises = {'MatrixError': lambda cx, S, e: bool(e.exc != 'ToleranceNotReached' and getattr(e, 'note', None) == 'raised by Matrix.solve')}

    def setup(self, cx):
        from contracts.C14 import Quiet
        n = cx.int('ncols')
        cx.assume(n >= 0)
        S = State(n=n, ok=None, best=None)
        rhs = Vec.fresh(cx, 'rhs', 'fp')

        def solve(ctx, s, *a, **k):
            if len(a) != 1 or a[0] is not rhs or set(k) != {'atol'}:
                raise Unsupported('solve called with other arguments than solve_leniently received')
            if ctx.branch(ctx.bool('solve.raises_ToleranceNotReached', report=False)):
                S.best = Vec.fresh(ctx, 'best', 'fp', n=n, report=False)
                ctx.assume(finite(S.best), axiom='Matrix._solver raises ToleranceNotReached(lhs) only after isfinite(lhs).all() (contract of _solver); Matrix.solve adds it to a finite lhs without overflow')
                raise PyRaise('ToleranceNotReached', payload=ExcInstance('ToleranceNotReached', (S.best,), {'best': S.best}), note='raised by Matrix.solve')
            if ctx.branch(ctx.bool('solve.raises_MatrixError', report=False)):
                raise PyRaise('MatrixError', payload=ExcInstance('MatrixError'), note='raised by Matrix.solve')
            S.ok = Vec.fresh(ctx, 'lhs', 'fp', n=n, report=False)
            ctx.assume(finite(S.ok), axiom='Matrix.solve returns a finite vector (contracts of Matrix.solve / _solver for a finite lhs0)')
            return S.ok
        A = SObj('Matrix', methods={'solve': solve})
        S.args = (A, rhs)
        S.kwargs = dict(atol=SOpaque('atol'))
        S.globals = {'treelog': Quiet(), 'numpy': Numpy()}
        return S

    def ensures(self, cx, S, result):
        if not isinstance(result, Vec):
            return [('result-is-solve-result-or-best-of-the-swallowed-error', z3.BoolVal(False))]
        return [('result-is-solve-result-or-best-of-the-swallowed-error', z3.BoolVal(result is S.ok or result is S.best)),
                ('never-a-non-finite-result', finite(result)), ('result-length', result.n == S.n)]

    def replay(self, ob):
        return _script('solve_leniently(%r)' % (ob.clause,))


class BuiltSub(Sym):
    """A matrix object built by _submatrix(rows, cols) (or the symbolic cached one); None-ness is symbolic for the cache."""

    def __init__(self, rows, cols, present=True):
        self.rows, self.cols, self.present = rows, cols, present

    def is_none(self, ctx):
        return SBool(z3.Not(zbool(self.present)))

    def truth(self, ctx):
        return zbool(self.present)


class Submatrix(Contract):
    prop = PROP
    fn = 'matrix/_base:Matrix.submatrix'

    def setup(self, cx):
        nr, nc = cx.int('nrows'), cx.int('ncols')
        cx.assume(z3.And(nr >= 0, nc >= 0))
        S = State(nr=nr, nc=nc, built=[])
        S.rows, S.cols = Vec.fresh(cx, 'rows', 'bool', n=nr), Vec.fresh(cx, 'cols', 'bool', n=nc)
        crow, ccol = Vec.fresh(cx, 'cached_rows', 'bool', n=nr), Vec.fresh(cx, 'cached_cols', 'bool', n=nc)
        # class invariant of the cache: if a submatrix is cached it was built for (_cached_rows, _cached_cols)
        cached = BuiltSub(crow, ccol, present=cx.bool('has_cached_submatrix'))
        S.cached = cached

        def _submatrix(ctx, s, rows, cols):
            if not (isinstance(rows, Vec) and isinstance(cols, Vec) and rows.kind == cols.kind == 'bool'):
                raise Unsupported('_submatrix(%r, %r)' % (rows, cols))
            b = BuiltSub(Vec('bool', rows.n, rows._sel, 'built.rows'), Vec('bool', cols.n, cols._sel, 'built.cols'))
            S.built.append(b)
            return b
        S.A = SObj('Matrix', attrs=dict(shape=(SInt(nr), SInt(nc)), _cached_submatrix=cached, _cached_rows=crow, _cached_cols=ccol), methods={'_submatrix': _submatrix})

        class Numeric:
            def sym_getattr(self, ctx, name):
                if name == 'asboolean':
                    def asboolean(ctx, a, size, **kw):
                        if not (isinstance(a, Vec) and a.kind == 'bool'):
                            raise Unsupported('asboolean of a non-boolean index')
                        if not ctx.branch(a.n == zbool_int(size)):
                            raise PyRaise('ValueError', note='asboolean: wrong length')
                        return a
                    return asboolean
                raise Unsupported('numeric.' + name)
        S.args = (S.A, S.rows, S.cols)
        S.globals = {'numeric': Numeric(), 'numpy': Numpy()}
        return S

    def ensures(self, cx, S, result):
        rows, cols, nr, nc = S.rows, S.cols, S.nr, S.nc
        allrows = qforall(1, lambda i: z3.Implies(z3.And(0 <= i, i < nr), rows.sel(i)))
        allcols = qforall(1, lambda j: z3.Implies(z3.And(0 <= j, j < nc), cols.sel(j)))
        out = []
        if result is S.A:
            out.append(('self-only-for-all-rows-and-all-cols', z3.And(allrows, allcols)))
        elif isinstance(result, BuiltSub):
            out.append(('submatrix-is-for-the-requested-rows-and-cols', z3.And(
                zbool(result.present), result.rows.n == nr, result.cols.n == nc,
                qforall(1, lambda i: z3.Implies(z3.And(0 <= i, i < nr), result.rows.sel(i) == rows.sel(i))),
                qforall(1, lambda j: z3.Implies(z3.And(0 <= j, j < nc), result.cols.sel(j) == cols.sel(j))))))
            out.append(('not-self-unless-everything-is-selected', z3.Not(z3.And(allrows, allcols))))
        else:
            out.append(('submatrix-is-for-the-requested-rows-and-cols', z3.BoolVal(False)))
        c, cr, cc = (S.A.attrs.get(k) for k in ('_cached_submatrix', '_cached_rows', '_cached_cols'))
        if isinstance(c, BuiltSub) and isinstance(cr, Vec) and isinstance(cc, Vec):
            out.append(('cache-consistent', z3.Implies(zbool(c.present), z3.And(
                c.rows.n == cr.n, c.cols.n == cc.n,
                qforall(1, lambda i: z3.Implies(z3.And(0 <= i, i < cr.n), c.rows.sel(i) == cr.sel(i))),
                qforall(1, lambda j: z3.Implies(z3.And(0 <= j, j < cc.n), c.cols.sel(j) == cc.sel(j)))))))
        else:
            out.append(('cache-consistent', z3.BoolVal(False)))
        return out

    def replay(self, ob):
        return _script('submatrix(%r)' % (ob.clause,))


def zbool_int(x):
    from pyvc.values import zint
    return zint(x)


def contracts():
    return [SolveLeniently(), Submatrix()]


TRUSTED = []
ASSUMPTIONS = ['solve_leniently: Matrix.solve returns a finite vector or raises ToleranceNotReached with a finite .best (established for _solver: raises:ToleranceNotReached clause) or another MatrixError',
               'submatrix: rows/cols are boolean masks of the matrix\' row/column count (the integer-index form of numeric.asboolean is not modelled); '
               'class invariant: a cached submatrix was built for (_cached_rows, _cached_cols)']
NOT_COVERED = ['the back ends\' _submatrix itself; solve_leniently when lhs0 is not finite']
