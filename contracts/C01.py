"""C01 (kernel) -- range-guarded integer rewrites preserve values bit-exactly.

For each rewrite rule under contract: let the children's announced ranges satisfy the Array._intbounds
invariant and (ghost) child element values lie inside them (that is C06).  If the rule returns a replacement
node r, then for those values  meaning(self) == meaning(r)  as integers, and if the original is defined
(no IndexError / assertion at evaluation) so is the replacement.  A rule that declines (returns None or
defers to super()._simplified()) claims nothing.

Integer IR values are interpreted elementwise: an `IR` object carries the ghost value of one arbitrary
(fixed) element position; Multiply/Add/Negative/constant constructors act pointwise on it.
"""
import z3
from pyvc.contract import Contract, State
from pyvc.values import SExt, SInt, SBool, SObj, SOpaque, PyRaise, Unsupported, FIN, PINF, NINF, pyfloordiv, pymod, zint, is_intlike, Sym
from pyvc.ops import ClassRef, Builtin
from pyvc import ops
from contracts.C06 import INV, inb, DType, GLOBALS as C06_GLOBALS

PROP = 'C01'
MODULE = 'evaluable'
LEVEL = 'proof'


class IR(SObj):
    """An integer array node with the ghost value `val` of one fixed element."""

    def __init__(self, cx, name, val=None, bounds=None, classes=('Array',), isconst=None, attrs=None):
        super().__init__(classes[0], attrs=attrs, classes=classes)
        self.name = name
        self.val = val
        self.isconst = isconst
        if bounds is not None:
            self.attrs['_intbounds'] = bounds

    def binop(self, ctx, op, other, reflected):
        if isinstance(other, IR):
            o = other.val
        elif isinstance(other, SExt):
            if not ctx.branch(other.t == FIN):
                raise PyRaise('ModelError:ir-with-inf', note='IR arithmetic with a non-integer')
            o = other.v
        elif is_intlike(other):
            o = zint(other)
        else:
            return NotImplemented
        a, b = (o, self.val) if reflected else (self.val, o)
        if op == '+':
            return IR(ctx, '(%s+)' % self.name, a + b)
        if op == '-':
            return IR(ctx, '(%s-)' % self.name, a - b)
        if op == '*':
            return IR(ctx, '(%s*)' % self.name, a * b)
        return NotImplemented

    def unop(self, ctx, op):
        if op == '-':
            return IR(ctx, '(-%s)' % self.name, -self.val)
        raise Unsupported('IR unary ' + op)

    def isinstance_(self, ctx, types):
        names = [getattr(t, '__name__', None) for t in types]
        if 'Constant' in names and self.isconst is not None:
            return self.isconst
        return super().isinstance_(ctx, types)

    def compare(self, ctx, op, other, reflected):
        if op in ('==', '!='):
            same = other is self
            return same if op == '==' else not same
        return NotImplemented


NOCLAIM = SOpaque('other-rule')


def child(cx, name, index=False, isconst=False):
    lo = SExt(cx.int(name + '.lo.t'), cx.int(name + '.lo.v'))
    hi = SExt(cx.int(name + '.hi.t'), cx.int(name + '.hi.v'))
    cx.assume(INV(lo, hi))
    if index:
        cx.assume(SExt.lift(0).le(lo))
    v = cx.int(name + '.val')
    cx.assume(inb(v, lo, hi))
    c = IR(cx, name, v, (lo, hi), isconst=cx.bool(name + '.isConstant') if isconst else None)
    c.lo, c.hi = lo, hi
    return c


class Rewrite(Contract):
    prop = PROP
    cls = None
    method = '_simplified'

    def __init__(self):
        self.fn = '%s:%s.%s' % (MODULE, self.cls, self.method)

    def setup(self, cx):
        selfobj, G = self.model(cx)
        selfobj.methods.setdefault('super().' + self.method, lambda ctx, s: NOCLAIM)
        S = State(args=(selfobj,), G=G, globals=dict(C06_GLOBALS))
        S.globals.update(self.extra_globals(cx, G))
        return S

    def extra_globals(self, cx, G):
        return {}

    def defined(self, cx, G):
        """condition under which evaluating the original node does not raise"""
        return z3.BoolVal(True)

    def ensures(self, cx, S, result):
        if result is None or result is NOCLAIM:
            return [('declines-or-other-rule', z3.BoolVal(True))]
        if not isinstance(result, IR):
            raise Unsupported('rule returned %r' % (result,))
        m = self.meaning(cx, S.G)
        d = self.defined(cx, S.G)
        return [('replacement-equal', z3.Implies(d, result.val == m)),
                ('replacement-defined-iff', self.replacement_defined(cx, S.G, result) == d)]

    def replacement_defined(self, cx, G, result):
        return z3.BoolVal(True)

    def replay(self, ob):
        import json, os
        here = os.path.dirname(os.path.dirname(os.path.abspath(__file__)))
        return ("import sys; sys.path.insert(0, %r)\nfrom native import c01\nc01.run(%r, %s)\n"
                % (here, self.cls, json.dumps({k: v for k, v in ob.model.items() if not k.startswith('k!')})))


def node(cls, **attrs):
    return SObj(cls, attrs=attrs, classes=(cls, 'Array'))


class ModRule(Rewrite):
    cls = 'Mod'

    def model(self, cx):
        a, b = child(cx, 'dividend'), child(cx, 'divisor')
        return node('Mod', dividend=a, divisor=b), {'x': a, 'y': b}

    def meaning(self, cx, G):
        x, y = G['x'].val, G['y'].val
        return z3.If(y == 0, 0, pymod(x, y))


class MinimumRule(Rewrite):
    cls = 'Minimum'

    def model(self, cx):
        a, b = child(cx, 'x'), child(cx, 'y')
        isint = cx.bool('dtype_is_int')
        # for non-integer dtypes the children announce no range: the guard must not fire (kept symbolic)
        return node(self.cls, x=a, y=b, dtype=DType(isint=isint)), {'x': a, 'y': b}

    def meaning(self, cx, G):
        x, y = G['x'].val, G['y'].val
        return z3.If(x < y, x, y)


class MaximumRule(MinimumRule):
    cls = 'Maximum'

    def meaning(self, cx, G):
        x, y = G['x'].val, G['y'].val
        return z3.If(x > y, x, y)


class InRangeRule(Rewrite):
    cls = 'InRange'

    def model(self, cx):
        i, n = child(cx, 'index'), child(cx, 'length')
        return node(self.cls, index=i, length=n), {'i': i, 'n': n}

    def meaning(self, cx, G):
        return G['i'].val

    def defined(self, cx, G):
        # InRange.evalf: assert 0 <= index < length
        return z3.And(0 <= G['i'].val, G['i'].val < G['n'].val)


class NormDimRule(Rewrite):
    cls = 'NormDim'

    def model(self, cx):
        n, i = child(cx, 'length', isconst=True), child(cx, 'index', isconst=True)
        n.attrs['value'] = n
        i.attrs['value'] = i
        o = node(self.cls, length=n, index=i)

        def evalf(ctx, s, length, index):
            # NormDim.evalf: elementwise numeric.normdim (IndexError when out of range)
            nn, ii = length.val, index.val
            r = z3.If(ii < 0, ii + nn, ii)
            if not ctx.branch(z3.And(0 <= r, r < nn)):
                raise PyRaise('IndexError')
            return IR(ctx, 'normdim', r)
        o.methods['evalf'] = evalf
        return o, {'i': i, 'n': n}

    def extra_globals(self, cx, G):
        return {'Constant': ClassRef('Constant'), 'constant': lambda ctx, v: v}

    def raises(self, cx, S, e):
        if e.exc == 'IndexError':  # constant folding may raise at simplification time what evaluation would raise
            return z3.Not(self.defined(cx, S.G))
        return False

    def meaning(self, cx, G):
        i, n = G['i'].val, G['n'].val
        return z3.If(i < 0, i + n, i)

    def defined(self, cx, G):
        r = self.meaning(cx, G)
        return z3.And(0 <= r, r < G['n'].val)


class ConstUniform(Contract):
    """Array._const_uniform: a returned value c means every element equals c."""
    prop = PROP
    fn = 'evaluable:Array._const_uniform'

    def setup(self, cx):
        c = child(cx, 'self')
        isint = cx.bool('dtype_is_int')
        c.attrs['dtype'] = DType(isint=isint)
        return State(args=(c,), c=c, isint=isint, globals=dict(C06_GLOBALS))

    def ensures(self, cx, S, result):
        if result is None:
            return [('none', z3.BoolVal(True))]
        r = SExt.lift(result)
        return [('uniform-value', z3.And(r.t == FIN, r.v == S.c.val))]


class PowerRule(Rewrite):
    cls = 'Power'

    def model(self, cx):
        f = child(cx, 'func')
        p = child(cx, 'power', index=True)
        has, cu = cx.bool('power.has_const_uniform'), cx.int('power.const_uniform')
        # contract of _const_uniform (ConstUniform above): a value c means every element of power equals c
        cx.assume(z3.Implies(has, p.val == cu))
        p.attrs['_const_uniform'] = OptInt(has, cu)
        pz = cx.bool('iszero(power)')
        cx.assume(z3.Implies(pz, p.val == 0), axiom='iszero(x) => every element of x is 0 (evaluable.iszero: x is a Zeros node after simplification)')
        f.methods['_power'] = lambda ctx, s, pw: NOCLAIM
        return node('Power', func=f, power=p), {'f': f, 'p': p, 'pz': pz}

    def extra_globals(self, cx, G):
        return {'iszero': lambda ctx, x: SBool(G['pz']) if x is G['p'] else False,
                'ones_like': lambda ctx, x: IR(ctx, 'ones', z3.IntVal(1))}

    def meaning(self, cx, G):
        # numpy.power on integers with exponent p >= 0 (asserted by __post_init__); only p in {0,1,2} is needed
        x, p = G['f'].val, G['p'].val
        return z3.If(p == 0, 1, z3.If(p == 1, x, z3.If(p == 2, x * x, cx.int('x**p'))))


class OptInt(Sym):
    """None | int, symbolic."""

    def __init__(self, has, v):
        self.has, self.v = has, v

    def compare(self, ctx, op, other, reflected):
        if is_intlike(other) and op in ('==', '!='):
            e = z3.And(self.has, self.v == zint(other))
            return SBool(e if op == '==' else z3.Not(e))
        return NotImplemented

    def is_none(self, ctx):
        return SBool(z3.Not(self.has))


class MultiplyUnit(Rewrite):
    """Multiply._simplified: a factor that is uniformly 1 is dropped."""
    cls = 'Multiply'
    label = 'unit-factor'

    def model(self, cx):
        a, b = child(cx, 'f0'), child(cx, 'f1')
        G = {'a': a, 'b': b}
        for c in (a, b):
            has, cu = cx.bool(c.name + '.has_const_uniform'), cx.int(c.name + '.const_uniform')
            cx.assume(z3.Implies(has, c.val == cu))
            c.attrs['_const_uniform'] = OptInt(has, cu)
            c.attrs['_inflations'] = ()
            c.attrs['_diagonals'] = ()
            c.attrs['dtype'] = DType(isint=z3.BoolVal(True), isbool=z3.BoolVal(False))
            c.methods['_multiply'] = lambda ctx, s, o: None
        o = node('Multiply', _factors=[a, b], dtype=DType(isint=z3.BoolVal(True), isbool=z3.BoolVal(False)), ndim=SInt(cx.int('ndim')), shape=SOpaque('shape'), funcs=(a, b))
        return o, G

    def extra_globals(self, cx, G):
        def multiply(ctx, *fs):
            r = z3.IntVal(1)
            for f in fs:
                if not isinstance(f, IR):
                    return NOCLAIM
                r = r * f.val
            return IR(ctx, 'product', r)

        def unalign(ctx, *fs):
            # other rewrite rules (axis alignment): outside the kernel; modelled as "no common unaligned form"
            return (*fs, Where(G))
        return {'align': lambda ctx, *a: NOCLAIM, 'range': lambda ctx, *a: [], 'multiply': multiply, 'unalign': unalign, 'map': lambda ctx, f, it: [], 'Negative': lambda ctx, x: IR(ctx, 'neg', -x.val),
                'Sign': lambda ctx, x: SObj('Sign'), 'complex': Builtin('complex'), 'Einsum': lambda ctx, *a: NOCLAIM, 'util': C06_GLOBALS['util']}

    def meaning(self, cx, G):
        return G['a'].val * G['b'].val


class Where(Sym):
    def __init__(self, G):
        self.G = G

    def length(self, ctx):
        return SInt(ctx.int('len(where)', report=False))


class MultiplyNeg(MultiplyUnit):
    """Multiply._optimized_for_numpy: a factor that is uniformly -1 becomes a Negative."""
    method = '_optimized_for_numpy'
    label = 'minus-one-factor'


def contracts():
    from contracts import c01_nd  # axis-moving swap protocols against the n-d denotational model (bounded)
    from contracts import c01_scalar  # more elementwise rewrite rules
    cs = c01_scalar.contracts() + [ModRule(), MinimumRule(), MaximumRule(), InRangeRule(), NormDimRule(), ConstUniform(), PowerRule(), MultiplyUnit(), MultiplyNeg()] + c01_nd.contracts()
    # The range-guarded rewrites above are value preserving only if the integer ranges they consult are sound: the C06 range-rule contracts
    # (every _intbounds_impl) are therefore ALSO obligations of C01 (same contracts, reported under this property).
    from contracts import C06
    for c in [k() for k in C06._base()] + [C06.IsMonotonic()]:
        c.prop = PROP
        cs.append(c)
    return cs


TRUSTED = ['pyvc symbolic executor and its Python model (DESIGN 2.3)',
           'soundness of child ranges: the C06 range-rule contracts (all _intbounds_impl) are re-run as obligations of C01, because the range-guarded rewrites consult them',
           'numpy meaning of %, minimum, maximum, power, normdim, InRange.evalf (table in contracts/C01.py)',
           'int64 arithmetic treated as mathematical',
           'n-d denotations of the node constructors Transpose, TakeDiag, Ravel, Unravel, InsertAxis, Take, Inflate (concrete dofmap shape), Power, Sign, Negative, Absolute = numpy meaning of their evalf '
           '(contracts/c01_nd.py CONSTRUCTORS; cross-checked against the real nodes on random arrays by native/axioms_c01.py); numpy reshape is row-major',
           'util.untake (inverse permutation), util.product, asarray on an Array (identity), numeric.isint are modelled natively; _certainly_different never fires and _certainly_equal holds only for the same '
           'length node (the sound direction for rules that rely on them)',
           'integer power laws (x**a)**n == x**(a*n), |x|**e == x**e for even e; real power: x**e == |x|**e for an even integer e, (y**a)**n == y**(a*n) for y >= 0; numpy.mod(a, 2) == 0 iff a is an even integer',
           'L-DIVMOD and the division algorithm (ground instances, contracts/c01_nd.py)']
ASSUMPTIONS = ['elementwise interpretation of integer IR constructors (Add/Multiply/Negative/constant act pointwise on equal-shaped operands)',
               'Python asserts enabled (no -O)',
               'swap protocols: child nodes obey the same protocol contract (modular node lemma; whole-DAG statement by structural induction); a child may always decline',
               '_take protocol precondition: index elements lie in [0, shape[axis]) (established by evaluable.take via InRange / checked constants); _takediag: the two axes have equal length; '
               '_unravel: shape[axis] == sh1*sh2; _power: the exponent array has the shape of self',
               'axis lengths are non-negative integers (_isindex); element values of n-d arrays are integers (the rules under n-d contract do not inspect values)',
               'Power._power float-even-constant-exponent: iszero() is exact on expressions built from uniform constants (constant folding by simplification); for other operands iszero(x) only implies x == 0',
               'hash-consing: Sign(fi) is the one existing Sign node over fi (Multiply._optimized_for_numpy sign-times-self)']
NOT_COVERED = ['termination of the simplification fixed point (liveness over the whole rule system)',
               'n-d swap protocols are BOUNDED: rank <= 3 (4 for the base array), listed axis configurations, Inflate with dofmap shapes (), (2,), (2,2) only; Inflate._take along the inflated axis (SwapInflateTake), '
               '_sum/_multiply/_add/_inflate/_insertaxis/_diagonalize/_determinant/_inverse/_product/_loopsum protocols, Einsum/Diagonalize/LoopSum/LoopConcatenate/Poly* nodes, float and complex rules other than Power._power',
               'Power._power with arbitrary (non-constant) float exponents: PARKED contract fails on the unchanged tree, candidate defect (notes/C01-c01.md)',
               'shape/dtype metadata (C06 first sentence) as separate contracts on the `shape` properties: only the shape clause of every swap-rule contract (announced lengths of the replacement == protocol shape) is checked',
               'Evaluable.simplified driver (deep_replace_property), Add._simplified / Multiply._simplified alignment and _inflations/_diagonals branches, Equal/Cast/Choose/Take._simplified, RavelIndex/Range/SwapInflateTake']
