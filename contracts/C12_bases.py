"""C12 -- the concrete basis classes: what `f_dofs_coeffs` (= get_dofs / get_coefficients of one element) and `get_support` deliver.

The evaluable constructors are external functions with the denotations of contracts/evalsem.py; the real bodies are executed
for one symbolic element index.  Coefficient tables are tracked as ROW IDENTITIES (which stored rows make up a row), so "the
same selection / order is applied to dofs and to coefficient rows" is a statement the solver decides.

PlainBasis.f_dofs_coeffs      dofs = self._dofs[e], coefficients = self._coeffs[e] of the SAME e; equally many (class invariant)
DiscontBasis.f_dofs_coeffs    dofs of e = the contiguous block offsets[e] .. offsets[e+1]-1, row k <-> dof offsets[e]+k, in [0, ndofs)
DiscontBasis.get_support      [e] with offsets[e] <= dof < offsets[e+1] for the normalised dof  (the inverse of the above);
                              IndexError exactly outside [-ndofs, ndofs)
MaskedBasis.f_dofs_coeffs     kept rows = exactly the parent rows whose dof is kept, in the parent's order; dof k is the renumbered
                              parent dof of ITS row: indices[dofs[k]] == parent_dofs[row(k)]; 0 <= dofs[k] < ndofs
MaskedBasis.get_support       the parent's support of indices[dof] (int dof, numpy normalisation of negatives)
PrunedBasis.f_dofs_coeffs     parent asked for element transmap[e]; all parent rows kept in order; dofmap[dofs[k]] == parent_dofs[k]
StructuredBasis.f_dofs_coeffs BOUNDED (1..3 axes, all sizes/offsets/indices symbolic): element e = (e_0, .., e_r) row-major; local
                              function p = (p_0, .., p_r) row-major; dof = sum_i ((start_i[e_i] + p_i) mod N_i) * prod_{j>i} N_j;
                              coefficient row p = product of the per-axis rows p_i of e_i, in the same order as the dofs
numeric.invmap                inverse[indices[i]] == i, everything else `missing` (what MaskedBasis / PrunedBasis renumber with)
"""
import z3
from pyvc.contract import Contract, State
from pyvc.values import SInt, SBool, SObj, SOpaque, Sym, Unsupported, PyRaise, zint, is_intlike
from pyvc.nparr import Vec, Numpy, qforall, qexists, I
from pyvc import npsets, lemmas, ops
from contracts.evalsem import Evaluable, Poly, ES, EV, EC, ArrTable, CoefTable
from contracts.C12_support import native, Numeric, PROP

B = z3.BoolSort()


def ops_unsupported(msg):
    raise Unsupported(msg)


def _ridterm(x):
    return x if z3.is_expr(x) else z3.IntVal(x)


def rid_is(rid, want):
    """row identity `rid` (tuple of (tag, elem, row)) equals `want`"""
    if len(rid) != len(want) or any(a[0] != b[0] for a, b in zip(rid, want)):
        return z3.BoolVal(False)
    return z3.And(*[z3.And(_ridterm(a[1]) == _ridterm(b[1]), _ridterm(a[2]) == _ridterm(b[2])) for a, b in zip(rid, want)])


class BasisContract(Contract):
    prop = PROP

    def replay(self, ob):
        return native('run_bases(%r)' % self.fn.split(':')[1].split('.')[0])

    def index(self, cx, ne):
        e = cx.int('index')
        cx.assume(z3.And(0 <= e, e < ne))  # Basis.__init__ wraps the index argument in InRange(., nelems)
        return e


class PlainDofsCoeffs(BasisContract):
    fn = 'function:PlainBasis.f_dofs_coeffs'

    def setup(self, cx):
        ne = cx.int('nelems')
        LEN, VAL = z3.Function('len_dofs', I, I), z3.Function('dofs', I, I, I)
        cx.assume(qforall(1, lambda e: LEN(e) >= 0))
        e = self.index(cx, ne)
        # class invariant established by PlainBasis.__init__ (asserts): as many coefficient rows as dofs, per element
        me = SObj('PlainBasis', attrs=dict(_dofs=ArrTable(ne, LEN, VAL, '_dofs'), _coeffs=CoefTable(ne, LEN, '_coeffs')))
        return State(args=(me, ES(e)), e=e, LEN=LEN, VAL=VAL, globals={'evaluable': Evaluable()})

    def ensures(self, cx, S, result):
        dofs, coeffs = result
        if not (isinstance(dofs, EV) and isinstance(coeffs, EC) and len(dofs.dims) == 1 and len(coeffs.prim()) == 1):
            raise Unsupported('returned %r' % (result,))
        e = S.e
        return [('dofs-of-this-element', z3.And(dofs.n == S.LEN(e), qforall(1, lambda k: z3.Implies(z3.And(0 <= k, k < dofs.n), dofs.sel(k) == S.VAL(e, k))))),
                ('coefficient-rows-of-this-element-in-order', z3.And(coeffs.prim()[0] == S.LEN(e), qforall(1, lambda k: z3.Implies(z3.And(0 <= k, k < S.LEN(e)), rid_is(coeffs.rid(k), (('_coeffs', e, k),)))))),
                ('one-coefficient-row-per-dof', dofs.n == coeffs.prim()[0])]


def discont_self(cx):
    ne = cx.int('nelems')
    cx.assume(ne >= 0)
    NROWS = z3.Function('nrows', I, I)
    cx.assume(qforall(1, lambda e: NROWS(e) >= 0))
    off = Vec.fresh(cx, '_offsets', 'int', n=ne + 1, probes=3)
    # class invariant established by __init__: offsets = cumsum([0] + rows per element)
    cx.assume(off.sel(z3.IntVal(0)) == 0)
    cx.assume(qforall(1, lambda e: z3.Implies(z3.And(0 <= e, e < ne), off.sel(e + 1) == off.sel(e) + NROWS(e))))
    lemmas.mono(cx, off)
    nd = off.sel(ne)
    me = SObj('DiscontBasis', attrs=dict(_coeffs=CoefTable(ne, NROWS, '_coeffs'), _offsets=off, ndofs=SInt(nd), nelems=SInt(ne)))
    return me, ne, NROWS, off, nd


class DiscontDofsCoeffs(BasisContract):
    fn = 'function:DiscontBasis.f_dofs_coeffs'

    def setup(self, cx):
        me, ne, NROWS, off, nd = discont_self(cx)
        e = self.index(cx, ne)
        return State(args=(me, ES(e)), e=e, NROWS=NROWS, off=off, nd=nd, globals={'evaluable': Evaluable()})

    def ensures(self, cx, S, result):
        dofs, coeffs = result
        if not (isinstance(dofs, EV) and isinstance(coeffs, EC) and len(dofs.dims) == 1 and len(coeffs.prim()) == 1):
            raise Unsupported('returned %r' % (result,))
        e, off = S.e, S.off
        return [('dofs-are-the-contiguous-block-of-this-element', z3.And(dofs.n == off.sel(e + 1) - off.sel(e), qforall(1, lambda k: z3.Implies(z3.And(0 <= k, k < dofs.n), dofs.sel(k) == off.sel(e) + k)))),
                ('dofs-in-range', qforall(1, lambda k: z3.Implies(z3.And(0 <= k, k < dofs.n), z3.And(0 <= dofs.sel(k), dofs.sel(k) < S.nd)))),
                ('coefficient-rows-of-this-element-in-order', z3.And(coeffs.prim()[0] == S.NROWS(e), qforall(1, lambda k: z3.Implies(z3.And(0 <= k, k < S.NROWS(e)), rid_is(coeffs.rid(k), (('_coeffs', e, k),)))))),
                ('one-coefficient-row-per-dof', dofs.n == coeffs.prim()[0])]


def np_array_list(ctx, x, dtype=None):
    if isinstance(x, list) and all(is_intlike(v) for v in x):
        vals = [zint(v) for v in x]

        def sel(i):
            r = z3.IntVal(0)
            for k in range(len(vals) - 1, -1, -1):
                r = z3.If(i == k, vals[k], r)
            return r
        return Vec('int', z3.IntVal(len(vals)), sel, 'array(list)')
    raise Unsupported('numpy.array(%r)' % (x,))


class DiscontSupport(BasisContract):
    fn = 'function:DiscontBasis.get_support'

    def setup(self, cx):
        me, ne, NROWS, off, nd = discont_self(cx)
        d = cx.int('dof')
        return State(args=(me, SInt(d)), d=d, off=off, nd=nd, ne=ne,
                     globals={'numpy': Numpy(extra={'array': np_array_list}), 'numeric': Numeric(), 'isint': lambda ctx, x: is_intlike(x)})

    def raises(self, cx, S, e):
        if e.exc.split(':')[0] != 'IndexError':
            return False
        return z3.Not(z3.And(-S.nd <= S.d, S.d < S.nd))

    def ensures(self, cx, S, result):
        if not (isinstance(result, Vec) and result.kind == 'int'):
            raise Unsupported('returned %r' % (result,))
        nd, off = S.nd, S.off
        d = z3.If(S.d < 0, S.d + nd, S.d)
        e = result.sel(z3.IntVal(0))
        return [('dof-index-in-range', z3.And(-nd <= S.d, S.d < nd)),
                ('support-is-one-element', result.n == 1),
                ('the-element-whose-block-contains-the-dof', z3.And(0 <= e, e < S.ne, off.sel(e) <= d, d < off.sel(e + 1)))]


def masked_self(cx):
    pnd, nd, pn = cx.int('parent.ndofs'), cx.int('ndofs'), cx.int('parent.nlocal')
    cx.assume(z3.And(pnd >= 0, nd >= 0, pn >= 0))
    ind = Vec.fresh(cx, '_indices', 'int', n=nd, probes=3)
    ren = Vec.fresh(cx, '_renumber', 'int', n=pnd, probes=3)
    # class invariant established by MaskedBasis.__init__: indices strictly increasing in [0, parent.ndofs); renumber = invmap(indices, parent.ndofs, missing=ndofs)
    cx.assume(npsets.strictly_increasing(ind))
    cx.assume(ind.forall(lambda i, x: z3.And(0 <= x, x < pnd)))
    cx.assume(qforall(1, lambda i: z3.Implies(z3.And(0 <= i, i < nd), ren.sel(ind.sel(i)) == i)))
    cx.assume(qforall(1, lambda j: z3.Implies(z3.And(0 <= j, j < pnd), z3.Or(ren.sel(j) == nd, z3.And(0 <= ren.sel(j), ren.sel(j) < nd, ind.sel(ren.sel(j)) == j)))))
    PD = z3.Function('parent_dofs', I, I)
    cx.assume(qforall(1, lambda k: z3.Implies(z3.And(0 <= k, k < pn), z3.And(0 <= PD(k), PD(k) < pnd))))  # parent invariant: dofs in range
    return pnd, nd, pn, ind, ren, PD


class MaskedDofsCoeffs(BasisContract):
    fn = 'function:MaskedBasis.f_dofs_coeffs'

    def setup(self, cx):
        pnd, nd, pn, ind, ren, PD = masked_self(cx)
        e = cx.int('index')
        S = State(e=e, nd=nd, pn=pn, ind=ind, ren=ren, PD=PD, asked=[])

        def parent_f(ctx, s, index):
            S.asked.append(index)
            return EV('int', [pn], lambda k: PD(k), 'p_dofs'), EC([[pn]], lambda k: (('parent', e, k),), 'p_coeffs')
        parent = SObj('Basis', methods={'f_dofs_coeffs': parent_f})
        me = SObj('MaskedBasis', attrs=dict(_parent=parent, _renumber=EV.of_vec(ren), ndofs=SInt(nd)))
        S.args = (me, ES(e))
        S.globals = {'evaluable': Evaluable()}
        return S

    def ensures(self, cx, S, result):
        dofs, coeffs = result
        if not (isinstance(dofs, EV) and isinstance(coeffs, EC) and len(dofs.dims) == 1 and len(coeffs.prim()) == 1):
            raise Unsupported('returned %r' % (result,))
        n = dofs.n

        def row(k):
            r = coeffs.rid(k)
            if len(r) != 1 or r[0][0] != 'parent':
                raise Unsupported('row identity %r' % (r,))
            return _ridterm(r[0][2])
        rng = lambda k: z3.And(0 <= k, k < n)
        kept = lambda p: qexists(1, lambda i: z3.And(0 <= i, i < S.nd, S.ind.sel(i) == S.PD(p)))
        return [('parent-asked-for-the-same-element', z3.BoolVal(len(S.asked) == 1 and S.asked[0] is S.args[1])),
                ('one-coefficient-row-per-dof', n == coeffs.prim()[0]),
                ('dofs-in-range', qforall(1, lambda k: z3.Implies(rng(k), z3.And(0 <= dofs.sel(k), dofs.sel(k) < S.nd)))),
                ('rows-are-parent-rows', qforall(1, lambda k: z3.Implies(rng(k), z3.And(0 <= row(k), row(k) < S.pn)))),
                ('dof-k-is-the-renumbered-parent-dof-of-row-k', qforall(1, lambda k: z3.Implies(rng(k), S.ind.sel(dofs.sel(k)) == S.PD(row(k))))),
                ('parent-order-preserved', qforall(2, lambda a, b: z3.Implies(z3.And(0 <= a, a < b, b < n), row(a) < row(b)))),
                ('every-parent-row-with-a-kept-dof-is-kept', qforall(1, lambda p: z3.Implies(z3.And(0 <= p, p < S.pn, kept(p)), qexists(1, lambda k: z3.And(rng(k), row(k) == p)))))]


class MaskedSupport(BasisContract):
    fn = 'function:MaskedBasis.get_support'

    def setup(self, cx):
        pnd, nd, pn, ind, ren, PD = masked_self(cx)
        d = cx.int('dof')
        S = State(d=d, nd=nd, ind=ind, asked=[])

        def parent_support(ctx, s, dof):
            S.asked.append(dof)
            return SOpaque('parent-support')
        parent = SObj('Basis', methods={'get_support': parent_support})
        me = SObj('MaskedBasis', attrs=dict(_parent=parent, _indices=ind, ndofs=SInt(nd)))
        S.args = (me, SInt(d))
        S.globals = {'numpy': Numpy(), 'numeric': Numeric()}
        return S

    def raises(self, cx, S, e):
        if e.exc.split(':')[0] != 'IndexError':
            return False
        return z3.Not(z3.And(-S.nd <= S.d, S.d < S.nd))

    def ensures(self, cx, S, result):
        nd = S.nd
        d = z3.If(S.d < 0, S.d + nd, S.d)
        ok = len(S.asked) == 1 and is_intlike(S.asked[0])
        return [('dof-index-in-range', z3.And(-nd <= S.d, S.d < nd)),
                ('returns-the-parent-support-of-the-kept-dof', z3.And(z3.BoolVal(ok and isinstance(result, SOpaque) and result.label == 'parent-support'),
                                                                         zint(S.asked[0]) == S.ind.sel(d) if ok else z3.BoolVal(False)))]


class PrunedDofsCoeffs(BasisContract):
    fn = 'function:PrunedBasis.f_dofs_coeffs'

    def setup(self, cx):
        pnd, nd, pn, ne = cx.int('parent.ndofs'), cx.int('ndofs'), cx.int('parent.nlocal'), cx.int('nelems')
        cx.assume(z3.And(pnd >= 0, nd >= 0, pn >= 0))
        tm = Vec.fresh(cx, '_transmap', 'int', n=ne, probes=3)
        dm = Vec.fresh(cx, '_dofmap', 'int', n=nd, probes=3)
        ren = Vec.fresh(cx, '_renumber', 'int', n=pnd, probes=3)
        e = self.index(cx, ne)
        PD = z3.Function('parent_dofs', I, I)
        pe = cx.int('parent.element')
        # class invariant established by PrunedBasis.__init__: dofmap = parent.get_dofs(transmap) (strictly increasing union, contract
        # of _int_or_vec), renumber = invmap(dofmap, parent.ndofs, missing=ndofs)
        cx.assume(npsets.strictly_increasing(dm))
        cx.assume(dm.forall(lambda i, x: z3.And(0 <= x, x < pnd)))
        cx.assume(qforall(1, lambda i: z3.Implies(z3.And(0 <= i, i < nd), ren.sel(dm.sel(i)) == i)))
        cx.assume(qforall(1, lambda j: z3.Implies(z3.And(0 <= j, j < pnd), z3.Or(ren.sel(j) == nd, z3.And(0 <= ren.sel(j), ren.sel(j) < nd, dm.sel(ren.sel(j)) == j)))))
        S = State(e=e, nd=nd, pn=pn, tm=tm, dm=dm, ren=ren, PD=PD, asked=[], pnd=pnd)
        pos = z3.Function('dofmap.position', I, I)

        def parent_f(ctx, s, index):
            S.asked.append(index)
            x = zint(index) if is_intlike(index) else index.v
            # the dofs of a selected parent element are in range and occur in dofmap (completeness clause of the union)
            ctx.assume(z3.Implies(x == tm.sel(e), qforall(1, lambda k: z3.Implies(z3.And(0 <= k, k < pn), z3.And(0 <= PD(k), PD(k) < pnd, 0 <= pos(k), pos(k) < nd, dm.sel(pos(k)) == PD(k))))))
            return EV('int', [pn], lambda k: PD(k), 'p_dofs'), EC([[pn]], lambda k: (('parent', x, k),), 'p_coeffs')
        parent = SObj('Basis', methods={'f_dofs_coeffs': parent_f})
        me = SObj('PrunedBasis', attrs=dict(_parent=parent, _renumber=ren, _transmap=tm, ndofs=SInt(nd)))
        S.args = (me, ES(e))
        S.globals = {'evaluable': Evaluable()}
        return S

    def ensures(self, cx, S, result):
        dofs, coeffs = result
        if not (isinstance(dofs, EV) and isinstance(coeffs, EC) and len(dofs.dims) == 1 and len(coeffs.prim()) == 1):
            raise Unsupported('returned %r' % (result,))
        n = dofs.n
        asked = S.asked[0] if len(S.asked) == 1 else None
        av = asked.v if isinstance(asked, ES) else (zint(asked) if is_intlike(asked) else None)
        rng = lambda k: z3.And(0 <= k, k < n)
        return [('parent-asked-for-the-mapped-element', av == S.tm.sel(S.e) if av is not None else z3.BoolVal(False)),
                ('one-coefficient-row-per-dof', z3.And(n == S.pn, coeffs.prim()[0] == S.pn)),
                ('all-parent-rows-in-order', qforall(1, lambda k: z3.Implies(rng(k), rid_is(coeffs.rid(k), (('parent', S.tm.sel(S.e), k),))))),
                ('dofs-in-range', qforall(1, lambda k: z3.Implies(rng(k), z3.And(0 <= dofs.sel(k), dofs.sel(k) < S.nd)))),
                ('dof-k-is-the-renumbered-parent-dof-k', qforall(1, lambda k: z3.Implies(rng(k), S.dm.sel(dofs.sel(k)) == S.PD(k))))]


class StructuredDofsCoeffs(BasisContract):
    fn = 'function:StructuredBasis.f_dofs_coeffs'

    def __init__(self, r):
        self.r = r
        self.label = 'axes=%d' % r
        self.bounded = '%d tensor axes (bound: 1..3); element counts, dof counts, offsets, lengths and the element index symbolic' % r

    def setup(self, cx):
        r = self.r
        T = [cx.int('transforms_shape%d' % i) for i in range(r)]
        N = [cx.int('dofs_shape%d' % i) for i in range(r)]
        e = [cx.int('e%d' % i) for i in range(r)]
        for i in range(r):
            cx.assume(z3.And(T[i] >= 1, N[i] >= 1, 0 <= e[i], e[i] < T[i]))
        LENS = [z3.Function('ndofs%d' % i, I, I) for i in range(r)]
        START = [z3.Function('start_dofs%d' % i, I, I) for i in range(r)]
        for i in range(r):
            cx.assume(qforall(1, lambda x, i=i: LENS[i](x) >= 0))
        # the element index is the row-major rank of (e_0, .., e_r); L-DIVMOD instances for the digits actually peeled off
        idx = z3.IntVal(0)
        for i in range(r):
            idx = idx * T[i] + e[i] if i else e[0]
        q = e[0]
        for i in range(1, r):
            cur = q * T[i] + e[i]
            from pyvc.values import pyfloordiv, pymod
            cx.assume(z3.And(cur / T[i] == q, cur % T[i] == e[i], pyfloordiv(cur, T[i]) == q, pymod(cur, T[i]) == e[i]), axiom='L-DIVMOD: divmod(q*n + r, n) = (q, r) for 0 <= r < n (ground instances for the element digits)')
            q = cur
        me = SObj('StructuredBasis', attrs=dict(
            _transforms_shape=tuple(SInt(t) for t in T), _dofs_shape=tuple(SInt(n) for n in N),
            _ndofs=tuple(Vec('int', T[i], (lambda x, i=i: LENS[i](x)), '_ndofs%d' % i) for i in range(r)),
            _start_dofs=tuple(Vec('int', T[i], (lambda x, i=i: START[i](x)), '_start_dofs%d' % i) for i in range(r)),
            _coeffs=tuple(CoefTable(T[i], LENS[i], 'axis%d' % i) for i in range(r))))
        return State(args=(me, ES(idx)), T=T, N=N, e=e, LENS=LENS, START=START, globals={'evaluable': Evaluable(), 'poly': Poly()})

    def ensures(self, cx, S, result):
        from pyvc.values import pymod
        dofs, coeffs = result
        r = self.r
        if not (isinstance(dofs, EV) and isinstance(coeffs, EC)):
            raise Unsupported('returned %r' % (result,))
        if len(dofs.dims) != r or len(coeffs.prim()) != r or len(coeffs.axes) != 1:
            return [('one-local-axis-per-tensor-axis', z3.BoolVal(False))]
        L = [S.LENS[i](S.e[i]) for i in range(r)]

        def want(*p):
            v = z3.IntVal(0)
            for i in range(r):
                v = v * S.N[i] + pymod(S.START[i](S.e[i]) + p[i], S.N[i]) if i else pymod(S.START[0](S.e[0]) + p[0], S.N[0])
            return v
        rng = lambda *p: z3.And(*[z3.And(0 <= p[i], p[i] < L[i]) for i in range(r)])
        return [('one-local-axis-per-tensor-axis', z3.BoolVal(True)),
                ('local-shape', z3.And(*[dofs.dims[i] == L[i] for i in range(r)])),
                ('dof-is-the-mixed-radix-combination-of-the-per-axis-dofs', qforall(r, lambda *p: z3.Implies(rng(*p), dofs.sel(*p) == want(*p)))),
                ('coefficient-rows-in-the-order-of-the-dofs', z3.And(*[coeffs.prim()[i] == L[i] for i in range(r)])),
                ('coefficient-row-is-the-product-of-the-per-axis-rows', qforall(r, lambda *p: z3.Implies(rng(*p), rid_is(coeffs.rid(*p), tuple(('axis%d' % i, S.e[i], p[i]) for i in range(r))))))]


class Invmap(Contract):
    """numeric.invmap(indices, length, missing) for injective in-range indices: inverse[indices[i]] == i, `missing` elsewhere."""
    prop = PROP
    fn = 'numeric:invmap'

    def setup(self, cx):
        ind = Vec.fresh(cx, 'indices', 'int', probes=3)
        n, miss = cx.int('length'), cx.int('missing')
        cx.assume(n >= 0)
        cx.assume(ind.forall(lambda i, x: z3.And(0 <= x, x < n)))
        cx.assume(qforall(2, lambda a, b: z3.Implies(z3.And(0 <= a, a < b, b < ind.n), ind.sel(a) != ind.sel(b))))
        return State(args=(ind, SInt(n)), kwargs=dict(missing=SInt(miss)), ind=ind, n=n, miss=miss,
                     globals={'numpy': Numpy(extra={'full': lambda ctx, shape, value, dtype=None: Vec.const('int', zint(shape), value) if is_intlike(value) and is_intlike(shape) and dtype is None else ops_unsupported('numpy.full variant')})})

    def ensures(self, cx, S, result):
        if not (isinstance(result, Vec) and result.kind == 'int'):
            raise Unsupported('returned %r' % (result,))
        ind = S.ind
        return [('length', result.n == S.n),
                ('inverse-of-indices', qforall(1, lambda i: z3.Implies(z3.And(0 <= i, i < ind.n), result.sel(ind.sel(i)) == i))),
                ('missing-elsewhere', qforall(1, lambda j: z3.Implies(z3.And(0 <= j, j < S.n), z3.Or(result.sel(j) == S.miss, qexists(1, lambda i: z3.And(0 <= i, i < ind.n, ind.sel(i) == j, result.sel(j) == i))))))]

    def replay(self, ob):
        return native('run_invmap()')


def contracts():
    return [PlainDofsCoeffs(), DiscontDofsCoeffs(), DiscontSupport(), MaskedDofsCoeffs(), MaskedSupport(), PrunedDofsCoeffs(),
            StructuredDofsCoeffs(1), StructuredDofsCoeffs(2), StructuredDofsCoeffs(3), Invmap()]
