"""C16 (kernel) -- what makes parallel evaluation race-free, function by function (schedules themselves are outside).

parallel.range.__next__   under the lock invariant (mutual exclusion of self._lock is ASSUMED): the shared index is read and
                          written only while the lock is held, the call returns the old index and stores old+1, or raises
                          StopIteration without writing when old >= stop.  Hence successive calls -- from whichever
                          process -- hand out 0, 1, ..., stop-1 exactly once (induction over calls, meta).
_BlockBuilder (code generator): every statement that mentions a shared array (a variable registered in _shared_arrays)
                          other than as a bare assignment target is emitted inside `with lock:` blocks for the locks of ALL
                          shared variables it mentions, each lock taken once; `if_` never emits a condition that reads a
                          shared variable while no lock is held (it evaluates it under the lock first).
_pyast `variables`        frame check: for every expression class, each child expression that its generated code (py_expr)
                          prints is included in its `variables` (so _BlockBuilder sees every shared variable a statement uses).
"""
import ast, itertools
import z3
from pyvc.contract import Contract, State
from pyvc.core import Obligation
from pyvc.values import SInt, SBool, SObj, SOpaque, Sym, Unsupported, PyRaise, zint
from pyvc.ops import ClassRef
from pyvc import ops, extract
from pyvc.inproc import InProc

PROP = 'C16'
LEVEL = 'proof'


class Next(InProc, Contract):
    prop = PROP
    fn = 'parallel:range.__next__'
    allow_raises = {}

    def setup(self, cx):
        idx, stop = cx.int('index'), cx.int('stop')
        cx.assume(idx >= 0)
        S = State(idx=idx, stop=stop, events=[], held=[False], written=[])

        class Lock(Sym):
            def sym_enter(s, ctx):
                S.events.append('acquire')
                S.held[0] = True

            def sym_exit(s, ctx):
                S.events.append('release')
                S.held[0] = False

        class Raw(Sym):
            def getattr(s, ctx, name):
                if name == 'value':
                    S.events.append('read' if S.held[0] else 'read-unlocked')
                    return SInt(S.written[-1]) if S.written else SInt(idx)
                raise Unsupported(name)

            def setattr(s, ctx, name, value):
                S.events.append('write' if S.held[0] else 'write-unlocked')
                S.written.append(zint(value))
        S.args = (SObj('range', attrs=dict(_stop=SInt(stop), _index=Raw(), _lock=Lock())),)
        return S

    def raises(self, cx, S, e):
        if e.exc == 'StopIteration':
            ok = not S.written and 'read-unlocked' not in S.events and S.events[-1] == 'release'
            return z3.And(S.idx >= S.stop, z3.BoolVal(ok))
        return False

    def ensures(self, cx, S, result):
        disciplined = S.events and S.events[0] == 'acquire' and S.events[-1] == 'release' and not any(e.endswith('unlocked') for e in S.events) and S.events.count('acquire') == 1
        return [('claims-the-old-index', zint(result) == S.idx), ('in-range', S.idx < S.stop),
                ('advances-by-one', z3.And(z3.BoolVal(len(S.written) == 1), S.written[0] == S.idx + 1) if S.written else z3.BoolVal(False)),
                ('shared-index-touched-only-under-the-lock', z3.BoolVal(bool(disciplined)))]


# ---- _BlockBuilder ---------------------------------------------------------------------------------------------------

class Var(Sym):
    def __init__(self, name):
        self.name = name

    @property
    def variables(self):
        return (self,)

    def getattr(self, ctx, name):
        if name == 'variables':
            return (self,)
        if name == 'call':
            return lambda ctx, *a, **k: Expr('call', (self,) + tuple(a) + tuple(k.values()))
        if name == 'get_attr':
            return lambda ctx, n: Expr('attr:' + n, (self,))
        raise Unsupported('Variable.' + name)

    def isinstance_(self, ctx, types):
        return any(getattr(t, '__name__', None) in ('Variable', 'Expression') for t in types)

    def truth(self, ctx):
        return True


class Expr(Sym):
    def __init__(self, kind, children):
        self.kind, self.children = kind, tuple(children)

    def vars(self):
        out = []
        for c in self.children:
            for v in (c.vars() if isinstance(c, Expr) else [c] if isinstance(c, Var) else []):
                if v not in out:
                    out.append(v)
        return out

    def getattr(self, ctx, name):
        if name == 'variables':
            return tuple(self.vars())
        if name == 'call':
            return lambda ctx, *a, **k: Expr('call', (self,) + tuple(a) + tuple(k.values()))
        if name == 'get_attr':
            return lambda ctx, n: Expr('attr:' + n, (self,))
        raise Unsupported('Expression.' + name)

    def isinstance_(self, ctx, types):
        return any(getattr(t, '__name__', None) == 'Expression' for t in types)

    def truth(self, ctx):
        return True


class Block(Sym):
    def __init__(self):
        self.items = []

    def getattr(self, ctx, name):
        if name == 'append':
            return lambda ctx, x: self.items.append(x)
        raise Unsupported('Block.' + name)

    def truth(self, ctx):
        return True


class Stmt(Sym):
    def __init__(self, kind, *parts):
        self.kind, self.parts = kind, parts


class PyAst:
    def sym_getattr(self, ctx, name):
        if name == 'Block':
            return lambda ctx: Block()
        if name == 'Variable':
            return ClassRef('Variable', construct=lambda ctx, n: Var(n))
        if name == 'BinOp':
            return lambda ctx, a, op, b: Expr('binop', (a, b))
        if name == 'LiteralInt':
            return lambda ctx, v: Expr('lit', ())
        if name in ('With', 'Exec', 'Assign', 'Assert', 'Raise', 'If'):
            return lambda ctx, *parts: Stmt(name, *parts)
        raise Unsupported('_pyast.' + name)


def emitted(block, held=()):
    """all (statement, locks held) pairs of a block tree"""
    for it in block.items:
        if it.kind == 'With':
            yield from emitted(it.parts[1], held + (it.parts[0],))
        elif it.kind == 'If':
            yield it, held
            yield from emitted(it.parts[1], held)
        else:
            yield it, held


def mentions(stmt):
    """variables a statement reads or writes through (a bare Variable on the left of an assignment is a plain rebinding)"""
    out = []
    parts = list(stmt.parts)
    if stmt.kind == 'Assign' and isinstance(parts[0], Var):
        parts = parts[1:]
    if stmt.kind == 'If':
        parts = parts[:1]
    for p in parts:
        for v in ([p] if isinstance(p, Var) else p.vars() if isinstance(p, Expr) else []):
            if v not in out:
                out.append(v)
    return out


class Builder(InProc, Contract):
    prop = PROP
    bounded = 'statements over three variables (two shared with distinct locks, one private), every subset of them in each operand'

    def __init__(self, method, subsets):
        self.method, self.subsets = method, subsets
        self.fn = 'evaluable:_BlockBuilder.' + method
        self.label = '|'.join(','.join(s) or '-' for s in subsets)

    def setup(self, cx):
        vs = {'a': Var('a'), 'b': Var('b'), 'p': Var('p')}
        locks = {'a': Var('lock_a'), 'b': Var('lock_b')}
        shared = {vs['a']: locks['a'], vs['b']: locks['b']}
        S = State(vs=vs, shared=shared, block=Block(), counter=[0])

        def new_var(ctx):
            S.counter[0] += 1
            return Var('tmp%d' % S.counter[0])
        parent = SObj('_BlockTreeBuilder', attrs=dict(_shared_arrays=shared, new_var=new_var))
        me = SObj('_BlockBuilder', attrs=dict(_parent=parent, _block=S.block, new_var=new_var))
        for m in ('_needs_lock', '_iter_locks', '_block_for', 'exec', 'assign_to', 'eval', 'assert_true'):
            me.methods[m] = (lambda mm: (lambda ctx, s, *a, **k: ctx.interp.call_function(extract.get('evaluable:_BlockBuilder.' + mm).node, (s,) + a, k)))(m)
        exprs = [vs['a'] if sub == ('TARGET',) else Expr('e', [vs[n] for n in sub]) for sub in self.subsets]  # TARGET: a bare variable on the left
        S.exprs = exprs
        S.args = (me, *exprs)
        S.globals = {'_pyast': PyAst(), 'dict': DictStub(), 'filter': lambda ctx, f, it: [x for x in ops.iterate(ctx, it) if x is not None],
                     'map': lambda ctx, f, it: [ctx.interp.call(f, [x], {}) for x in ops.iterate(ctx, it)], '_BlockBuilder': ClassRef('_BlockBuilder', construct=lambda ctx, p, b: SObj('_BlockBuilder', attrs=dict(_parent=p, _block=b)))}
        return S

    def ensures(self, cx, S, result):
        ok_locks, ok_once, ok_emitted = True, True, False
        for stmt, held in emitted(S.block):
            ok_emitted = True
            need = [S.shared[v] for v in mentions(stmt) if v in S.shared]
            if any(l not in held for l in need):
                ok_locks = False
            if len(set(map(id, held))) != len(held):
                ok_once = False
        return [('statement-emitted', z3.BoolVal(ok_emitted)), ('shared-variables-only-under-their-locks', z3.BoolVal(ok_locks)), ('no-lock-taken-twice', z3.BoolVal(ok_once))]


class DictStub:
    def sym_getattr(self, ctx, name):
        if name == 'fromkeys':
            def fromkeys(ctx, it):
                d = {}
                for x in ops.iterate(ctx, it):
                    d.setdefault(x, None)
                return d
            return fromkeys
        raise Unsupported('dict.' + name)


def builder_contracts():
    names = ('a', 'b', 'p')
    subsets = [tuple(c) for r in range(0, 4) for c in itertools.combinations(names, r)]
    cs = []
    for m in ('exec', 'assert_true', 'raise_', 'if_'):
        for s in subsets:
            cs.append(Builder(m, (s,)))
    for s1 in [('TARGET',)] + subsets:
        for s2 in subsets:
            if len(s1) + len(s2) <= 4:
                cs.append(Builder('assign_to', (s1, s2)))
    return cs


# ---- _pyast variables frame ------------------------------------------------------------------------------------------

def pyast_frame():
    src, tree = extract.module_ast('_pyast')
    obs = []
    for c in tree.body:
        if not isinstance(c, ast.ClassDef):
            continue
        fns = {f.name: f for f in c.body if isinstance(f, ast.FunctionDef)}
        if 'variables' not in fns or 'py_expr' not in fns:
            continue
        def fields(fn):
            return {n.attr for n in ast.walk(fn) if isinstance(n, ast.Attribute) and isinstance(n.value, ast.Name) and n.value.id == 'self'}
        printed = set()
        for n in ast.walk(fns['py_expr']):
            # self.X.py_expr / self.X.py_paren_expr / iteration over self.X with item.py_expr
            if isinstance(n, ast.Attribute) and n.attr in ('py_expr', 'py_paren_expr') and isinstance(n.value, ast.Attribute) and isinstance(n.value.value, ast.Name) and n.value.value.id == 'self':
                printed.add(n.value.attr)
            if isinstance(n, ast.comprehension) or isinstance(n, ast.For):
                it = n.iter
                while isinstance(it, ast.Call):
                    it = it.func.value if isinstance(it.func, ast.Attribute) else (it.args[0] if it.args else it)
                    if not isinstance(it, (ast.Call, ast.Attribute)):
                        break
                if isinstance(it, ast.Attribute) and isinstance(it.value, ast.Name) and it.value.id == 'self':
                    printed.add(it.attr)
        invars = fields(fns['variables'])
        missing = sorted(printed - invars)
        ob = Obligation('C16/_pyast:%s.variables/frame' % c.name, [], z3.BoolVal(not missing), 'ground', fn='_pyast:%s.variables' % c.name, clause='covers-printed-children',
                        info={'printed_children': sorted(printed), 'children_in_variables': sorted(invars), 'missing': missing})
        obs.append(ob)
    return obs


def extra_obligations(tier, seed):
    obs = pyast_frame()
    from pyvc.inproc import decide_in_process
    for ob in obs:
        decide_in_process(ob)
    return {'obligations': obs, 'summary': '_pyast variables frame: %d expression classes' % len(obs)}


def contracts():
    from contracts import c16_fork
    return [Next()] + builder_contracts() + c16_fork.contracts()


TRUSTED = ['pyvc symbolic executor; lock objects as context managers recording acquire/release; _pyast constructors as tagged nodes',
           'mutual exclusion of multiprocessing.Lock and sequential consistency of RawValue (ASSUMED)',
           '_shared_arrays maps each shared array variable to its own lock (new_empty_array_for_evaluable asserts the variable is new)']
ASSUMPTIONS = ['BOUNDED: _BlockBuilder statements over two shared variables with distinct locks and one private variable, all subsets (labelled bounded)',
               'the frame check of _pyast `variables` is syntactic: children printed by py_expr must be named in variables']
NOT_COVERED = ['all interleavings of worker processes, visibility of shared memory to the parent: concurrency -- this family is silent on it (the SEQUENTIAL exit-code / kill logic of fork/_fork/_wait is under contract, see contracts/c16_fork.py)',
               'that every shared result array is registered in _shared_arrays (new_empty_array_for_evaluable placement logic), loop grouping']


def _merge_fork_lists():
    from contracts import c16_fork
    TRUSTED.extend(c16_fork.TRUSTED)
    ASSUMPTIONS.extend(c16_fork.ASSUMPTIONS)
    NOT_COVERED.extend(c16_fork.NOT_COVERED)


_merge_fork_lists()

from contracts import C16b as _c16b  # the second part (shared-array placement, remaining emitters, code generation, printer) lives in contracts/C16b.py
_c16b.install(globals())
