"""C09 (index partition kernel, constructors): the nelems / npoints a sample class hands to Sample.__init__ are the ones
PART is stated for (contracts/samplepart.py takes them as `self.nelems` / `self.npoints`), and the operands are stored
in the attributes getindex reads.  Each __init__ body is executed with `super().__init__` recording its arguments."""
import z3
from pyvc.contract import Contract, State
from pyvc.values import SInt, SObj, Sym, Unsupported, zint, is_intlike
from pyvc import nparr
from contracts.samplepart import PROP, I, PSample, PointsSeq, fresh_idxvec, cumsum_invariant, numpy_model, TypesStub, HERE


class PySet:
    """set(<tuple of concrete strings>): only isdisjoint is used (space names; outside the partition property)."""

    def __init__(self, items):
        self.s = set(items)

    def sym_getattr(self, ctx, name):
        if name == 'isdisjoint':
            return lambda ctx, o: self.s.isdisjoint(o.s)
        raise Unsupported('set.' + name)


def py_set(ctx, x=()):
    if isinstance(x, tuple) and all(isinstance(i, str) for i in x):
        return PySet(x)
    raise Unsupported('set(%r)' % (x,))


class TransformsStub(SObj):
    def __init__(self, n, fromdims):
        super().__init__('Transforms', attrs=dict(fromdims=fromdims))
        self.n = n

    def length(self, ctx):
        return SInt(self.n)


class PointsSeqN(PointsSeq):
    def __init__(self, n, cnt, total):
        super().__init__(n, cnt)
        self.total = total

    def getattr(self, ctx, name):
        if name == 'npoints':
            return SInt(self.total)
        raise Unsupported('PointsSequence.' + name)


class Ctor(Contract):
    prop = PROP

    def __init__(self, cls):
        self.cls = cls
        self.fn = 'sample:%s.__init__' % cls

    def setup(self, cx):
        S = State()
        S.globals = {'numpy': numpy_model(), 'types': TypesStub(), 'set': py_set}
        S.rec = None

        def sup(ctx, me, *a, **k):
            if S.rec is not None:
                raise Unsupported('super().__init__ called twice')
            S.rec = (a, k)
        me = SObj(self.cls, methods={'super().__init__': sup})
        S.me = me
        cls = self.cls
        if cls in ('_Add', '_Mul'):
            s1, s2 = PSample(cx, 's1', part=False), PSample(cx, 's2', part=False)
            if cls == '_Add':  # Sample.__add__ raises unless the spaces agree
                s2.attrs['spaces'] = s1.attrs['spaces']
            S.s1, S.s2 = s1, s2
            S.args = (me, s1, s2)
            S.expect = dict(nelems=s1.ne + s2.ne if cls == '_Add' else s1.ne * s2.ne, npoints=s1.np + s2.np if cls == '_Add' else s1.np * s2.np)
            S.stored = dict(_sample1=s1, _sample2=s2)
        elif cls == '_TakeElements':
            par = PSample(cx, 'parent', part=False)
            ne = cx.int('len(indices)')
            cx.assume(ne >= 0)
            ind = fresh_idxvec(cx, 'indices', ne)
            off = fresh_idxvec(cx, '_offsets', ne + 1)  # the cached property, by its own contract (samplepart.Offsets)
            me.attrs['_offsets'] = off
            S.args = (me, par, ind)
            S.expect = dict(nelems=ne, npoints=off.sel(ne))
            S.stored = dict(_parent=par, _indices=ind)
        elif cls == '_CustomIndex':
            par = PSample(cx, 'parent', part=False)
            par.attrs.update(space='X', transforms=SObj('transforms-tuple'), points=SObj('PointsSequence'))
            n = cx.int('len(index)')
            cx.assume(n >= 0)
            index = fresh_idxvec(cx, 'index', n)
            S.n, S.par = n, par
            S.args = (me, par, index)
            S.expect = None
            S.stored = dict(_parent=par, _index=index)
        elif cls == '_Empty':
            S.args = (me, ('X',), SInt(cx.int('ndims')))
            S.expect = dict(nelems=z3.IntVal(0), npoints=z3.IntVal(0))
            S.stored = {}
        elif cls == '_TransformChainsSample':
            ne, tot = cx.int('len(points)'), cx.int('points.npoints')
            cx.assume(z3.And(ne >= 0, tot >= 0))
            pts = PointsSeqN(ne, z3.Function('cnt', I, I), tot)
            tr = TransformsStub(ne, SInt(cx.int('fromdims')))
            S.args = (me, 'X', (tr,), pts)
            S.expect = dict(nelems=ne, npoints=tot)
            S.stored = dict(points=pts)
        else:
            raise ValueError(cls)
        return S

    def raises(self, cx, S, e):
        if self.cls == '_TakeElements' and e.exc == 'AssertionError':
            return S.expect['nelems'] == 0  # documented: at least one element is taken
        if self.cls == '_CustomIndex' and e.exc == 'AssertionError':
            return S.n != S.par.np  # the one thing the constructor checks: the shape of the index
        return False

    def ensures(self, cx, S, r):
        if S.rec is None:
            raise Unsupported('super().__init__ was not called')
        a, k = S.rec
        out = []
        if self.cls == '_CustomIndex':
            # delegates to _TransformChainsSample.__init__ with the parent's space, transforms, points
            ok = len(a) == 3 and not k and a[1] is S.par.attrs['transforms'] and a[2] is S.par.attrs['points']
            out.append(('same-transforms-and-points-as-parent', z3.BoolVal(bool(ok))))
            out.append(('index-has-one-entry-per-point', S.n == S.par.np))
        else:
            names = ('spaces', 'ndims', 'nelems', 'npoints')
            got = dict(zip(names, a))
            got.update(k)
            for nm in ('nelems', 'npoints'):
                if nm not in got or not is_intlike(got[nm]):
                    raise Unsupported('super().__init__ %s = %r' % (nm, got.get(nm)))
                out.append((nm, zint(got[nm]) == S.expect[nm]))
        for nm, v in S.stored.items():
            out.append(('stores-' + nm, z3.BoolVal(S.me.attrs.get(nm) is v)))
        return out

    def replay(self, ob):
        kind = {'_TransformChainsSample': '_DefaultIndex'}.get(self.cls, self.cls)
        return "import sys; sys.path.insert(0, %r)\nfrom native import c09\nc09.part(%r, %r)\n" % (HERE, kind, 'constructor')


def contracts():
    return [Ctor(c) for c in ('_Add', '_Mul', '_TakeElements', '_CustomIndex', '_Empty', '_TransformChainsSample')]
