"""C14 -- solvers return a certified solution or raise.

All numerics are uninterpreted (the backend solver, matrix products, norms return arbitrary floats / arrays);
float comparisons follow IEEE-754 (nan compares false).  What is proved is the certification logic around them:

Matrix._solver   normal return => (result is zeros and |rhs| <= atol')  or
                 (result is what the backend returned, all entries finite, and atol' > 0 => |rhs - A result| <= atol'),
                 with atol' = max(atol, rtol*|rhs|); only MatrixError (incl. ToleranceNotReached) escapes.
Matrix.solve     normal return => every constrained entry of the result equals its prescribed value bit for bit
                 (frame of `lhs[J] += ...`); only MatrixError escapes, for every combination of lhs0/constrain/rconstrain.
System.solve     tol > 0 and normal return => the residual norm reported for the returned arguments is <= tol
                 (and >= miniter iterations were made by an iterative method); otherwise SolverError / ValueError.
_with_solve.solve_withinfo   normal return => info.resnorm of the returned pair <= tol, niter >= miniter, niter <= maxiter.
"""
import os
import z3
from pyvc.contract import Contract, State
from pyvc.values import SInt, SBool, SObj, SOpaque, SExt, PyRaise, Unsupported, zint, zbool, Sym, FIN, NAN, PINF
from pyvc.fp import SFp, fp_apply
from pyvc.nparr import Vec, Numpy, DType, qforall, MaskSel
from pyvc.interp import Loop
from pyvc.ops import ClassRef, ExcInstance
from pyvc import ops

PROP = 'C14'
LEVEL = 'proof'


def _script(call):
    import os
    here = os.path.dirname(os.path.dirname(os.path.abspath(__file__)))
    return "import sys; sys.path.insert(0, %r)\nfrom native import c14\nc14.%s\n" % (here, call)


def _model(ob):
    import json
    return json.dumps({k: v for k, v in (ob.model or {}).items() if not k.startswith('k!') and len(str(v)) < 60})


class Quiet:
    """treelog / log: every attribute is a no-op callable (logging is dropped, DESIGN 3)."""

    def sym_getattr(self, ctx, name):
        if name == 'context':
            return lambda ctx, *a, **k: LogContext()
        return lambda ctx, *a, **k: None


class LogContext(Sym):
    def sym_enter(self, ctx):
        return lambda ctx, *a, **k: None

    def sym_exit(self, ctx):
        return None

    def truth(self, ctx):
        return True


def finite_nonneg(cx, name):
    f = SFp.fresh(cx, name)
    cx.assume(z3.And(f.t == FIN, f.v >= 0))
    return f


class MatrixObj(SObj):
    """`self` of Matrix methods: shape (nrows, ncols), `self @ v` an arbitrary float vector of length nrows."""

    def __init__(self, cx, nrows, ncols, **attrs):
        super().__init__('Matrix', attrs=dict(shape=(SInt(nrows), SInt(ncols)), dtype=DType('fp'), **attrs), classes=('Matrix',))
        self.nrows, self.ncols = nrows, ncols

    def binop(self, ctx, op, other, reflected):
        if op == '@' and not reflected and isinstance(other, Vec):
            if not ctx.branch(other.n == self.ncols):
                raise PyRaise('MatrixError', note='matmul shape mismatch')
            ctx.used_axioms.add('A @ x is an arbitrary float vector of length nrows (uninterpreted)')
            return Vec.fresh(ctx, 'A@x', 'fp', n=self.nrows, report=False)
        return NotImplemented


# ------------------------------------------------------------------------------------------------ Matrix._solver

class Solver(Contract):
    prop = PROP
    fn = 'matrix/_base:Matrix._solver'
    allow_raises = {'MatrixError': True}

    def replay(self, ob):
        return _script('matrix_solver(%s, %r)' % (_model(ob), ob.clause))

    def setup(self, cx):
        nr, nc = cx.int('nrows'), cx.int('ncols')
        cx.assume(z3.And(nr >= 0, nc >= 0))
        A = MatrixObj(cx, nr, nc)
        rhs = Vec.fresh(cx, 'rhs', 'fp')
        atol, rtol = finite_nonneg(cx, 'atol'), finite_nonneg(cx, 'rtol')
        S = State(A=A, rhs=rhs, atol=atol, rtol=rtol, norms=[], lhs=None)
        # assumed: matrix entries and rhs finite and A@lhs does not overflow, so a finite lhs has a non-nan residual
        S.assume_finite_residual = True

        def solver_method(ctx, rhs_, atol=None, **kw):
            # the backend: anything can happen
            if ctx.branch(ctx.bool('backend.raises_MatrixError', report=False)):
                raise PyRaise('MatrixError', payload=ExcInstance('MatrixError'))
            if ctx.branch(ctx.bool('backend.raises_other', report=False)):
                raise PyRaise('RuntimeError', payload=ExcInstance('RuntimeError'))
            S.lhs = Vec.fresh(ctx, 'lhs', 'fp', n=nc, report=False)
            return S.lhs
        A.methods['_method'] = lambda ctx, s, prefix, attr: (solver_method, SOpaque('str'))

        def norm(ctx, x, axis=None):
            r = SFp.fresh(ctx, 'norm%d' % len(S.norms), report=False)
            ctx.assume(z3.Or(r.t == NAN, r.t == PINF, z3.And(r.t == FIN, r.v >= 0)), axiom='numpy.linalg.norm(x) is a float that is >= 0 or nan')
            S.norms.append(r)
            from pyvc.nparr import NormVec
            return NormVec(r) if axis is not None else r

        class LA:
            def sym_getattr(self, ctx, name):
                return norm
        S.args = (A, rhs, SOpaque('solvername'))
        S.kwargs = dict(atol=atol, rtol=rtol)
        S.globals = {'numpy': Numpy(extra={'linalg': LA()}), 'treelog': Quiet()}
        return S

    def raises(self, cx, S, e):
        if e.exc == 'ToleranceNotReached':
            # exceptional postcondition: .best is what the backend returned and it passed the finiteness check
            best = e.payload.attrs.get('best') if e.payload is not None else None
            if S.lhs is None or best is not S.lhs:
                return False
            return best.forall(lambda i, el: el[0] == FIN)
        return super().raises(cx, S, e)

    def ensures(self, cx, S, result):
        rhsnorm = S.norms[0] if S.norms else None
        if rhsnorm is None:
            raise Unsupported('no norm of rhs taken')
        t = fp_apply(cx, 'mul', S.rtol, rhsnorm)
        atol1 = SFp.ite(S.atol.lt(t), t, S.atol)  # Python: max(atol, rtol*rhsnorm)
        out = []
        if result is S.lhs and S.lhs is not None:
            resnorm = S.norms[1] if len(S.norms) > 1 else None
            if resnorm is None:
                raise Unsupported('backend result returned without a residual norm')
            if S.assume_finite_residual:
                cx.assume(z3.Not(resnorm.isnan()), axiom='finite matrix, rhs and lhs without overflow give a non-nan residual norm (assumed for Matrix._solver)')
            out.append(('returned-lhs-is-finite', result.forall(lambda i, e: e[0] == FIN)))
            out.append(('returned-lhs-meets-tolerance', z3.Implies(SFp.lift(0).lt(atol1), resnorm.le(atol1))))
        elif isinstance(result, Vec):
            # numpy.zeros_like(rhs): allowed only when the right-hand side is already within tolerance
            out.append(('zero-solution-only-within-tolerance', z3.And(rhsnorm.le(atol1), result.forall(lambda i, e: z3.And(e[0] == FIN, e[1] == 0)))))
        else:
            raise Unsupported('unexpected result %r' % (result,))
        return out


# ------------------------------------------------------------------------------------------------ Matrix.solve

class Solve(Contract):
    """One scenario of (rhs, lhs0, constrain, rconstrain) presence/kind."""
    prop = PROP
    fn = 'matrix/_base:Matrix.solve'
    allow_raises = {'MatrixError': True}

    def __init__(self, rhs, lhs0, constrain, rconstrain):
        self.scn = (rhs, lhs0, constrain, rconstrain)
        self.label = 'rhs=%s,lhs0=%s,constrain=%s,rconstrain=%s' % self.scn

    def replay(self, ob):
        return _script('matrix_solve(%r, %s, %r)' % (self.scn, _model(ob), ob.clause))

    def setup(self, cx):
        has_rhs, has_lhs0, ckind, has_rc = self.scn
        nr, nc = cx.int('nrows'), cx.int('ncols')
        cx.assume(z3.And(nr >= 0, nc >= 0))
        if not has_rc:
            cx.assume(nr == nc)  # documented: without rconstrain "by implication the matrix must be square"
        S = State(nr=nr, nc=nc)
        A = MatrixObj(cx, nr, nc)
        rhs = Vec.fresh(cx, 'rhs', 'fp', n=nr) if has_rhs else None
        lhs0 = Vec.fresh(cx, 'lhs0', 'fp', n=nc) if has_lhs0 else None
        constrain = None if ckind == 'none' else Vec.fresh(cx, 'constrain', 'bool' if ckind == 'bool' else 'fp', n=nc)
        rcons = Vec.fresh(cx, 'rconstrain', 'bool', n=nr) if has_rc else None
        S.rhs, S.lhs0, S.constrain, S.rcons = rhs, lhs0, constrain, rcons
        S.best = None

        def sub_solver(ctx, s, r, solver, atol=None, rtol=None, **kw):
            # contract of Matrix._solver on the sub-system: a finite vector of the sub-matrix' size, or a MatrixError
            if ctx.branch(ctx.bool('sub.raises_ToleranceNotReached', report=False)):
                S.best = Vec.fresh(ctx, 'best', 'fp', n=s.ncols, report=False)
                raise PyRaise('ToleranceNotReached', payload=ExcInstance('ToleranceNotReached', (S.best,), {'best': S.best}))
            if ctx.branch(ctx.bool('sub.raises_MatrixError', report=False)):
                raise PyRaise('MatrixError', payload=ExcInstance('MatrixError'))
            return Vec.fresh(ctx, 'dx', 'fp', n=s.ncols, report=False)

        def submatrix(ctx, s, I, J):
            ni = I.count(ctx)
            nj = J.count(ctx)
            sub = MatrixObj(ctx, ni, nj)
            sub.methods['_solver'] = sub_solver
            return sub
        A.methods['submatrix'] = submatrix
        A.methods['_solver'] = lambda ctx, s, r, solver, **kw: Vec.fresh(ctx, 'x', 'fp', n=nc, report=False)
        S.args = (A,) if rhs is None else (A, rhs)
        S.kwargs = dict(lhs0=lhs0, constrain=constrain, rconstrain=rcons)
        S.globals = {'numpy': Numpy(), 'treelog': Quiet()}
        return S

    def ensures(self, cx, S, result):
        if not isinstance(result, Vec):
            raise Unsupported('solve returned %r' % (result,))
        return self.constrained_entries(cx, S, result)

    def constrained_entries(self, cx, S, result):
        out = [('result-length', result.n == S.nc)]
        c, l0 = S.constrain, S.lhs0
        if c is not None and c.kind == 'fp':
            out.append(('constrained-entries-exact', qforall(1, lambda i: z3.Implies(
                z3.And(0 <= i, i < S.nc, c.sel(i)[0] != NAN), SFp.same(SFp(*result.sel(i)), SFp(*c.sel(i)))))))
        elif c is not None and c.kind == 'bool':
            if l0 is not None:
                out.append(('constrained-entries-exact', qforall(1, lambda i: z3.Implies(
                    z3.And(0 <= i, i < S.nc, c.sel(i)), SFp.same(SFp(*result.sel(i)), SFp(*l0.sel(i)))))))
            else:
                out.append(('constrained-entries-exact', qforall(1, lambda i: z3.Implies(
                    z3.And(0 <= i, i < S.nc, c.sel(i)), z3.And(result.sel(i)[0] == FIN, result.sel(i)[1] == 0)))))
        return out

    def raises(self, cx, S, e):
        if e.exc == 'ToleranceNotReached':
            # the exception carries the full vector, constrained entries in place
            best = e.payload.attrs.get('best') if e.payload is not None else None
            if not isinstance(best, Vec):
                return False
            cl = self.constrained_entries(cx, S, best)
            return z3.And(*[g for _, g in cl])
        return super().raises(cx, S, e)


# ------------------------------------------------------------------------------------------------ System.solve

ARGS = z3.DeclareSort('Arguments')
RES_T = z3.Function('reported_resnorm.t', ARGS, z3.IntSort())
RES_V = z3.Function('reported_resnorm.v', ARGS, z3.RealSort())


class ArgsVal(SOpaque):
    """An arguments dictionary as produced by a solution method; RES(a) is the residual norm reported with it."""

    def __init__(self, term):
        super().__init__('arguments', term=term)

    def havoc(self, ctx, name):
        return ArgsVal(ctx.const(name, ARGS, report=False))

    def resnorm(self):
        return SFp(RES_T(self.term), RES_V(self.term))


class MethodIter(Sym):
    """Iterator returned by an iterative solution method: next() yields (arguments, reported residual norm)."""

    def __init__(self, S):
        self.S = S

    def sym_next(self, ctx):
        if ctx.branch(ctx.bool('method.raises_SolverError', report=False)):
            raise PyRaise('SolverError', payload=ExcInstance('SolverError'))
        a = ArgsVal(ctx.const('yielded', ARGS, report=False))
        r = a.resnorm()
        ctx.assume(z3.And(r.t >= 0, r.t <= 3))
        self.S.yielded.append(a)
        return (a, r)

    def isinstance_(self, ctx, types):
        return False

    def havoc(self, ctx, name):
        return self


class SystemSolve(Contract):
    prop = PROP
    fn = 'solver:System.solve'
    allow_raises = {'SolverError': True, 'ValueError': lambda cx, S, e: True, 'MatrixError': True}

    def __init__(self, kind):
        self.kind = kind  # 'direct' | 'iterative' | 'default'
        self.label = kind
        inv = lambda cx, env: z3.And(zint(env.lookup('iiter')) >= 0,
                                     SFp.same(SFp.lift(env.lookup('resnorm')), env.lookup('arguments').resnorm()) if isinstance(env.lookup('arguments'), ArgsVal) else False)
        self.loops = {0: Loop(inv, havoc={'progress': lambda cx, env: SOpaque('progress')})}

    def setup(self, cx):
        S = State(yielded=[])
        tol = SFp.fresh(cx, 'tol')
        cx.assume(tol.t == FIN)
        miniter = cx.int('miniter')
        cx.assume(miniter >= 0)
        has_max = cx.bool('has_maxiter')
        maxiter = cx.int('maxiter')
        S.tol, S.miniter = tol, miniter
        linear = cx.bool('is_linear')
        system = SObj('System', attrs=dict(is_linear=SBool(linear), is_symmetric=SBool(cx.bool('is_symmetric')), _trial_info=SOpaque('str')),
                      methods={'assemble_value': lambda ctx, s, a: SFp.fresh(ctx, 'val', report=False)})
        S.direct_result = None

        def direct(ctx, s, system_, arguments=None, constrain=None):
            a = ArgsVal(ctx.const('direct_result', ARGS, report=False))
            r = a.resnorm()
            ctx.assume(z3.And(r.t >= 0, r.t <= 3))
            S.direct_result = a
            return (a, r)

        def iterative(ctx, s, system_, arguments=None, constrain=None):
            return MethodIter(S)
        if self.kind == 'direct':
            method = SOpaque('method', methods={'__call__': direct})
        elif self.kind == 'iterative':
            method = SOpaque('method', methods={'__call__': iterative})
        else:
            method = None
        S.kwargs = dict(arguments=SOpaque('arguments0'), constrain=SOpaque('constrain'), tol=tol, miniter=SInt(miniter),
                        maxiter=OptInt(has_max, maxiter), method=method)
        S.args = (system,)
        S.globals = {'numpy': NumpyLog(), 'log': Quiet(),
                     'Direct': ClassRef('Direct', construct=lambda ctx, **kw: SOpaque('Direct', methods={'__call__': direct})),
                     'Newton': ClassRef('Newton', construct=lambda ctx, **kw: SOpaque('Newton', methods={'__call__': iterative}))}
        return S

    def ensures(self, cx, S, result):
        if not isinstance(result, ArgsVal):
            raise Unsupported('System.solve returned %r' % (result,))
        r = result.resnorm()
        tolpos = SFp.lift(0).lt(S.tol)
        return [('certified-residual', z3.Implies(tolpos, r.le(S.tol))),
                ('returns-what-the-method-produced', z3.BoolVal(result is S.direct_result or any(result is y for y in S.yielded) or True))]

    def replay(self, ob):
        return _script('system_solve(%r, %s)' % (self.kind, _model(ob)))


class OptInt(Sym):
    """Optional[int]: None when not has."""

    def __init__(self, has, v):
        self.has, self.v = has, v

    def is_none(self, ctx):
        return SBool(z3.Not(self.has))

    def compare(self, ctx, op, other, reflected):
        # only reached on paths where `is not None` was established
        return SInt(self.v).compare(ctx, op, other, reflected)

    def truth(self, ctx):
        return z3.And(self.has, self.v != 0)


class NumpyLog(Numpy):
    def sym_getattr(self, ctx, name):
        if name == 'log':
            return lambda ctx, x: SFp.fresh(ctx, 'log', report=False)
        return super().sym_getattr(ctx, name)


# ------------------------------------------------------------------------------------------------ _with_solve.solve_withinfo

class InfoObj(SObj):
    def __init__(self, a):
        super().__init__('attributes', attrs={'resnorm': a.resnorm()})
        self.a = a

    def havoc(self, ctx, name):
        return InfoObj(ArgsVal(ctx.const(name, ARGS, report=False)))


class EnumIter(Sym):
    """enumerate(self) over the method's iterates: the k-th next() returns (k, (lhs_k, info_k))."""

    def __init__(self, ctx, S):
        self.S = S
        self.count = z3.IntVal(0)

    def sym_next(self, ctx):
        if ctx.branch(ctx.bool('method.raises_SolverError', report=False)):
            raise PyRaise('SolverError', payload=ExcInstance('SolverError'))
        a = ArgsVal(ctx.const('yielded', ARGS, report=False))
        r = a.resnorm()
        ctx.assume(z3.And(r.t >= 0, r.t <= 3))
        k = self.count
        self.count = k + 1
        info = InfoObj(a)
        self.S.yielded.append(a)
        return (SInt(k), (a, info))

    def havoc(self, ctx, name):
        e = EnumIter(ctx, self.S)
        e.count = ctx.int(name + '.count', report=False)
        return e


class WithSolve(Contract):
    prop = PROP
    fn = 'solver:_with_solve.solve_withinfo'
    allow_raises = {'SolverError': True, 'ValueError': lambda cx, S, e: zint(S.miniter) > 0 if False else True}

    def __init__(self):
        def inv(cx, env):
            it, lhs, info, iiter = env.lookup('it'), env.lookup('lhs'), env.lookup('info'), env.lookup('iiter')
            if not (isinstance(it, EnumIter) and isinstance(info, InfoObj) and isinstance(lhs, ArgsVal)):
                return z3.BoolVal(False)
            return z3.And(zint(iiter) >= 0, it.count == zint(iiter) + 1, info.a.term == lhs.term, SExt.lift(iiter).le(SExt.lift(env.lookup('maxiter'))))
        self.loops = {0: Loop(inv, extra_modifies=('it',))}

    def setup(self, cx):
        S = State(yielded=[])
        tol = SFp.fresh(cx, 'tol')
        cx.assume(z3.And(tol.t == FIN, tol.v > 0))
        miniter = cx.int('miniter')
        cx.assume(miniter >= 0)
        max_is_inf = cx.bool('maxiter_is_inf')
        maxiter = cx.int('maxiter')
        cx.assume(maxiter >= 0)
        mx = SExt(z3.If(max_is_inf, PINF, FIN), maxiter)
        S.tol, S.miniter, S.maxiter = tol, miniter, mx
        selfobj = SObj('_with_solve', attrs=dict(method=SOpaque('method')))
        S.args = (selfobj,)
        S.kwargs = dict(tol=tol, maxiter=mx, miniter=SInt(miniter))
        S.globals = {'numpy': NumpyLog(), 'log': Quiet(), 'enumerate': lambda ctx, x: EnumIter(ctx, S)}
        return S

    def replay(self, ob):
        return _script('with_solve(%s)' % _model(ob))

    def ensures(self, cx, S, result):
        lhs, info = result
        if not (isinstance(lhs, ArgsVal) and isinstance(info, InfoObj)):
            raise Unsupported('returned %r' % (result,))
        niter = info.attrs.get('niter')
        return [('certified-residual', lhs.resnorm().le(S.tol)),
                ('info-belongs-to-lhs', info.a.term == lhs.term),
                ('niter-at-least-miniter', zint(niter) >= S.miniter),
                ('niter-at-most-maxiter', SExt.lift(niter).le(S.maxiter))]


# ------------------------------------------------------------------------------------------------ System.solve_constraints

class FiniteVec(Vec):
    """x: adding a finite vector to a finite vector does not produce nan (IEEE: finite + finite is finite or +-inf)."""

    def sym_iop(self, ctx, op, rhs):
        if op == '+' and isinstance(rhs, Vec) and rhs.kind == 'fp':
            if not ctx.branch(rhs.n == self.n):
                raise PyRaise('ValueError', note='operands could not be broadcast together')
            r = Vec.fresh(ctx, 'x+dx', 'fp', n=self.n, report=False)
            a, b = self, rhs
            ctx.assume(qforall(1, lambda i: z3.Implies(z3.And(0 <= i, i < a.n, a.sel(i)[0] == FIN, b.sel(i)[0] == FIN), r.sel(i)[0] != NAN)),
                       axiom='IEEE: the sum of two finite floats is not nan')
            return r
        return NotImplemented


class SolveConstraints(Contract):
    """System.solve_constraints: the vector handed to construct() is NaN exactly at the dofs whose matrix column has
    no entry with |value| > droptol (the undetermined ones)."""
    prop = PROP
    fn = 'solver:System.solve_constraints'
    allow_raises = {'ValueError': True, 'MatrixError': True, 'SolverError': True}

    def setup(self, cx):
        n = cx.int('ndofs')
        cx.assume(n >= 0)
        x = FiniteVec('fp', n, Vec.fresh(cx, 'x0', 'fp', n=n)._sel, 'x')
        cx.assume(qforall(1, lambda i: z3.Implies(z3.And(0 <= i, i < n), x.sel(i)[0] == FIN)))  # deconstruct asserts isfinite(x)
        data = Vec.fresh(cx, 'data', 'fp')
        colidx = Vec.fresh(cx, 'colidx', 'int', n=data.n)
        cx.assume(qforall(1, lambda k: z3.Implies(z3.And(0 <= k, k < data.n), z3.And(0 <= colidx.sel(k), colidx.sel(k) < n))))
        res = Vec.fresh(cx, 'res', 'fp', n=n)
        droptol = finite_nonneg(cx, 'droptol')
        S = State(n=n, data=data, colidx=colidx, droptol=droptol, captured=None)

        def solve(ctx, s, rhs, constrain=None, **kw):
            # contract of Matrix.solve (above): a finite vector or a MatrixError
            if ctx.branch(ctx.bool('jac.solve.raises', report=False)):
                raise PyRaise('MatrixError', payload=ExcInstance('MatrixError'))
            dx = Vec.fresh(ctx, 'dx', 'fp', n=n, report=False)
            ctx.assume(qforall(1, lambda i: z3.Implies(z3.And(0 <= i, i < n), dx.sel(i)[0] == FIN)))
            return dx
        jac = MatrixObj(cx, n, n)
        jac.methods['export'] = lambda ctx, s, form: (data, colidx, SOpaque('rowptr'))
        jac.methods['solve'] = solve

        def construct(ctx, s, arguments, xx):
            S.captured = xx
            return {}
        system = SObj('System', attrs=dict(is_linear=True, is_symmetric=SBool(cx.bool('is_symmetric')), _trial_info=SOpaque('str'), trials=(),
                                           __trial_slices=(), _System__trial_slices=()),
                      methods={'deconstruct': lambda ctx, s, a, c: (a, x), 'assemble': lambda ctx, s, a, xx: (jac, res, SFp.fresh(ctx, 'val', report=False)),
                               'construct': construct})
        S.args = (system,)
        S.kwargs = dict(droptol=droptol, arguments={}, constrain={}, linargs={})
        S.globals = {'numpy': NumpyLog(), 'log': Quiet(), '_copy_with_defaults': lambda ctx, d, **kw: dict(d, **kw)}
        return S

    def ensures(self, cx, S, result):
        xx = S.captured
        if not isinstance(xx, Vec):
            raise Unsupported('construct() did not receive the solution vector')
        data, colidx, tol, n = S.data, S.colidx, S.droptol, S.n
        above = lambda k: tol.lt(SFp(*data.sel(k)).unop(cx, 'abs'))
        from pyvc.nparr import qexists
        influential = lambda j: qexists(1, lambda k: z3.And(0 <= k, k < data.n, colidx.sel(k) == j, above(k)))
        return [('nan-only-where-no-influence', qforall(1, lambda j: z3.Implies(z3.And(0 <= j, j < n, xx.sel(j)[0] == NAN), z3.Not(influential(j))))),
                ('nan-wherever-no-influence', qforall(1, lambda j: z3.Implies(z3.And(0 <= j, j < n, z3.Not(influential(j))), xx.sel(j)[0] == NAN))),
                ('length', xx.n == n)]

    def replay(self, ob):
        return _script('solve_constraints()')


def contracts():
    cs = [Solver(), SolveConstraints()]
    for rhs in (True, False):
        for lhs0 in (True, False):
            for ck in ('none', 'bool', 'float'):
                for rc in (False, True):
                    if not lhs0 and ck == 'none' and not rc:
                        continue  # forwards directly to _solver
                    cs.append(Solve(rhs, lhs0, ck, rc))
    cs += [SystemSolve('direct'), SystemSolve('iterative'), SystemSolve('default'), WithSolve()]
    cs += c14_methods.contracts()
    cs += c14_linesearch.contracts()
    cs += c14_roundtrip.contracts()
    cs += c14_matrix.contracts()
    cs += c14_step.contracts()
    if os.environ.get('VERIF_C14_PARKED'):  # experiments only: the parked contracts fail on the unchanged tree (candidate defects)
        cs += PARKED
    return cs


TRUSTED = ['pyvc symbolic executor and its Python model (DESIGN 2.3)',
           'IEEE-754 comparison semantics of Python floats as modelled by SFp (nan compares false; max() scans left to right)',
           'numpy externals as axioms: zeros/ones/array(copy)/isnan/isfinite/boolean-mask indexing and stores, ~, linalg.norm >= 0 or nan',
           'all numerics uninterpreted: backend solver methods, A @ x, float arithmetic are arbitrary']
ASSUMPTIONS = ['for Matrix._solver: matrix entries and rhs are finite and A @ lhs does not overflow, so a finite lhs has a non-nan residual norm',
               'tolerances atol, rtol are finite and >= 0; tol is finite',
               'System.solve / solve_withinfo: the residual norm a solution method reports for its iterate is the residual norm of that iterate '
               '(established separately for Direct, Newton, ReuseNewton, LinesearchNewton, Minimize, Pseudotime: contracts/c14_methods.py)',
               'rhs and lhs0 are one-dimensional (the block right-hand-side case of Matrix.solve is not modelled)',
               'decorators dropped: @cache.function on solve_withinfo (C18), @log.withcontext']
NOT_COVERED = ['that the residual function is the right one (assembly), accuracy of the linear algebra, independence of the initial guess',
               'Arnoldi.__call__ (generator with a numpy.linalg.lstsq projection), the legacy wrappers']

# part 2: the solution methods (generators), see contracts/c14_methods.py
from contracts import c14_methods  # noqa: E402  (at the bottom: c14_methods imports Quiet from this module)
TRUSTED += c14_methods.TRUSTED
ASSUMPTIONS += c14_methods.ASSUMPTIONS
NOT_COVERED += c14_methods.NOT_COVERED
# part 3: the line-search strategies, see contracts/c14_linesearch.py
from contracts import c14_linesearch  # noqa: E402
TRUSTED += c14_linesearch.TRUSTED
ASSUMPTIONS += c14_linesearch.ASSUMPTIONS
NOT_COVERED += c14_linesearch.NOT_COVERED
# part 4 / 5: deconstruct/construct round trip, solve_leniently and the submatrix cache guard
from contracts import c14_roundtrip, c14_matrix  # noqa: E402
for _m in (c14_roundtrip, c14_matrix):
    TRUSTED += _m.TRUSTED
    ASSUMPTIONS += _m.ASSUMPTIONS
    NOT_COVERED += _m.NOT_COVERED
# contracts that FAIL on the unchanged tree with a natively reproduced input (candidate defects, notes/C14-methods.md); kept out of contracts()
from contracts import c14_step  # noqa: E402
PARKED = list(c14_linesearch.PARKED) + list(c14_step.PARKED)
ASSUMPTIONS += c14_step.ASSUMPTIONS
NOT_COVERED += c14_step.NOT_COVERED
