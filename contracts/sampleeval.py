"""C09 (index partition kernel, evaluable twins): get_evaluable_indices(ielem) builds an evaluable (IR) expression; the
value it DENOTES must be the array getindex(ielem) returns (reshaped to the operands' point shapes for _Mul), because
evaluation scatters its points through the former and Sample.index advertises the latter.

The real bodies are executed with a denotational model of the few IR constructors they use: an IR node of dtype int is
interpreted as (shape, element function) -- Range, Constant, constant, Take, get, divmod, appendaxes, prependaxes,
InsertAxis, Zeros, loop_index/loop_concatenate of one-element chunks, _SizesToOffsets.  The meanings are TRUSTED (they are
the numpy meanings of the nodes' evalf, cross-checked natively in native/axioms.py by evaluating the real nodes); a
constructor outside the table makes the check undecided.  Operands are abstract samples whose get_evaluable_indices
denotes their getindex (modular hypothesis) with one point axis (BOUNDED: nested products have more)."""
import z3
from pyvc.contract import Contract, State
from pyvc.values import SInt, SObj, Sym, Unsupported, PyRaise, zint, is_intlike, pyfloordiv, pymod
from pyvc.nparr import Vec
from pyvc import nparr
from contracts.samplepart import PROP, I, HERE, PSample, fresh_idxvec, cumsum_invariant, fa, IdxVec, TypesStub


class IRA(Sym):
    """Denotation of an evaluable.Array with dtype int: shape (tuple of z3 Int terms) and sel(*indices) -> z3 Int term."""

    def __init__(self, shape, sel, name='ir'):
        self.shape_, self.sel, self.name = tuple(shape), sel, name

    @staticmethod
    def lift(x):
        if isinstance(x, IRA):
            return x
        if is_intlike(x):
            v = zint(x)
            return IRA((), lambda: v, 'const')
        raise Unsupported('IR operand %r' % (x,))

    def val(self):
        if self.shape_:
            raise Unsupported('scalar IR node expected, got rank %d' % len(self.shape_))
        return self.sel()

    def getattr(self, ctx, name):
        if name == 'shape':
            return tuple(IRA((), (lambda n=n: n), 'len') for n in self.shape_)
        if name == 'ndim':
            return len(self.shape_)
        raise Unsupported('IR attribute ' + name)

    def binop(self, ctx, op, other, reflected):
        f = {'+': lambda x, y: x + y, '-': lambda x, y: x - y, '*': lambda x, y: x * y}.get(op)
        if f is None:
            return NotImplemented
        try:
            o = IRA.lift(other)
        except Unsupported:
            return NotImplemented
        a, b = (o, self) if reflected else (self, o)
        # evaluable._numpy_align: the operand of lower rank gets leading axes prepended; equal trailing shapes required
        ra, rb = len(a.shape_), len(b.shape_)
        big, small = (a, b) if ra >= rb else (b, a)
        k = len(big.shape_) - len(small.shape_)
        for x, y in zip(big.shape_[k:], small.shape_):
            if not z3.eq(z3.simplify(x), z3.simplify(y)):
                raise Unsupported('IR operands of different shapes')
        if ra >= rb:
            return IRA(a.shape_, lambda *ix: f(a.sel(*ix), b.sel(*ix[k:])), 'op')
        return IRA(b.shape_, lambda *ix: f(a.sel(*ix[k:]), b.sel(*ix)), 'op')


class LoopIndex(IRA):
    def __init__(self, var, length):
        super().__init__((), lambda: var, 'loopindex')
        self.var, self.length = var, length


class Evaluable:
    """the `evaluable` module as seen by the get_evaluable_indices bodies"""

    def sym_getattr(self, ctx, name):
        f = getattr(self, 'ev_' + name, None)
        if f is None:
            raise Unsupported('evaluable.%s has no denotation in the contract model' % name)
        return f

    def ev_constant(self, ctx, v):
        return IRA.lift(v)

    def ev_Constant(self, ctx, v):
        if isinstance(v, Vec) and v.kind == 'int':
            return IRA((v.n,), lambda i: v.sel(i), 'Constant(%s)' % v.name)
        raise Unsupported('evaluable.Constant(%r)' % (v,))

    def ev_Range(self, ctx, n):
        return IRA((IRA.lift(n).val(),), lambda i: i, 'Range')

    def _take1(self, ctx, arr, index, what):
        arr, index = IRA.lift(arr), IRA.lift(index)
        if len(arr.shape_) != 1:
            raise Unsupported('%s of an IR array of rank %d' % (what, len(arr.shape_)))
        ks = [ctx.int('%s!i%d' % (what, d), report=False) for d in range(len(index.shape_))]
        inside = z3.And(*[z3.And(0 <= k, k < n) for k, n in zip(ks, index.shape_)]) if ks else z3.BoolVal(True)
        v = index.sel(*ks)
        ctx.oblige(ctx.name('pre:%s-index-in-range' % what), z3.Implies(inside, z3.And(0 <= v, v < arr.shape_[0])), kind='lemma')
        return IRA(index.shape_, lambda *ix: arr.sel(index.sel(*ix)), what)

    def ev_Take(self, ctx, arr, index):
        return self._take1(ctx, arr, index, 'Take')

    def ev_get(self, ctx, arr, iax, item):
        if iax != 0:
            raise Unsupported('evaluable.get on axis %r' % (iax,))
        return self._take1(ctx, arr, item, 'get')

    def ev_divmod(self, ctx, x, y):
        x, y = IRA.lift(x).val(), IRA.lift(y).val()
        ctx.oblige('pre:divmod-divisor-nonzero', y != 0, kind='lemma')
        return IRA((), lambda: pyfloordiv(x, y), 'floordiv'), IRA((), lambda: pymod(x, y), 'mod')

    def ev_appendaxes(self, ctx, func, shape):
        func = IRA.lift(func)
        r = len(func.shape_)
        return IRA(func.shape_ + tuple(IRA.lift(n).val() for n in shape), lambda *ix: func.sel(*ix[:r]), 'appendaxes')

    def ev_prependaxes(self, ctx, func, shape):
        func = IRA.lift(func)
        k = len(tuple(shape))
        return IRA(tuple(IRA.lift(n).val() for n in shape) + func.shape_, lambda *ix: func.sel(*ix[k:]), 'prependaxes')

    def ev_InsertAxis(self, ctx, func, n):
        return self.ev_appendaxes(ctx, func, (n,))

    def ev_Zeros(self, ctx, shape, dtype=None):
        return IRA(tuple(IRA.lift(n).val() for n in shape), lambda *ix: z3.IntVal(0), 'Zeros')

    def ev_loop_index(self, ctx, name, length):
        return LoopIndex(z3.Int(ctx.name('loop!' + str(name))), zint(length) if is_intlike(length) else IRA.lift(length).val())

    def ev_loop_concatenate(self, ctx, func, index):
        func = IRA.lift(func)
        if not isinstance(index, LoopIndex) or len(func.shape_) != 1:
            raise Unsupported('loop_concatenate of rank %d' % len(func.shape_))
        m = z3.simplify(func.shape_[0])
        if not (z3.is_int_value(m) and m.as_long() == 1):
            raise Unsupported('loop_concatenate of chunks whose length is not the literal 1')
        body = func.sel(z3.IntVal(0))
        var = index.var
        return IRA((index.length,), lambda i: z3.substitute(body, (var, i if z3.is_expr(i) else z3.IntVal(i))), 'loop_concatenate')

    def ev__SizesToOffsets(self, ctx, sizes):
        sizes = IRA.lift(sizes)
        if len(sizes.shape_) != 1:
            raise Unsupported('_SizesToOffsets of rank %d' % len(sizes.shape_))
        n = sizes.shape_[0]
        off = fresh_idxvec(ctx, 'SizesToOffsets', n + 1)
        ctx.assume(off.sel(z3.IntVal(0)) == 0, axiom='evaluable._SizesToOffsets(sizes) = numpy.cumsum([0, *sizes]) (its _compile_expression): o[0] = 0, o[k+1] = o[k] + sizes[k]')
        ctx.assume(fa(1, lambda k: z3.Implies(z3.And(0 <= k, k < n), off.sel(k + 1) == off.sel(k) + sizes.sel(k))))
        return IRA((n + 1,), lambda i: off.sel(i), 'offsets')


class PSampleE(PSample):
    """abstract operand whose get_evaluable_indices(e) denotes getindex(e) (one point axis)"""

    def __init__(self, cx, name):
        super().__init__(cx, name, part=False)
        self.methods['get_evaluable_indices'] = PSampleE._gei

    def _gei(ctx, self, e):
        e = IRA.lift(e).val()
        ctx.oblige(ctx.name('pre:%s-element-in-range' % self.pname), z3.And(0 <= e, e < self.ne), kind='lemma')
        cnt, idx = self.cnt, self.idx
        return IRA((cnt(e),), lambda k: idx(e, k), self.pname + '.indices')


class PointsE(Sym):
    """self.points: get_evaluable_coords(ielem) has shape (number of points of the element, ndims)"""

    def __init__(self, n, cnt, ndims):
        self.n, self.cnt, self.ndims = n, cnt, ndims

    def length(self, ctx):
        return SInt(self.n)

    def getattr(self, ctx, name):
        if name == 'get_evaluable_coords':
            def gec(ctx, ielem):
                e = IRA.lift(ielem).val()
                nd = self.ndims
                return IRA((self.cnt(e), nd), lambda i, j: z3.IntVal(0), 'coords')
            return gec
        raise Unsupported('PointsSequence.' + name)


class Twin(Contract):
    prop = PROP

    def __init__(self, cls):
        self.cls = cls
        self.fn = 'sample:%s.get_evaluable_indices' % cls
        if cls == '_Mul':
            self.bounded = 'operands with one point axis (their get_evaluable_indices is a vector); nested products have more axes'

    def setup(self, cx):
        S = State()
        S.globals = {'evaluable': Evaluable(), 'types': TypesStub()}
        cls = self.cls
        e = cx.int('ielem')
        S.e = e
        ks = [cx.int('k%d' % d) for d in range(2)]
        S.ks = ks
        if cls == '_DefaultIndex':
            ne = cx.int('nelems')
            cx.assume(ne >= 0)
            cnt = z3.Function('cnt', I, I)
            cx.assume(fa(1, lambda i: cnt(i) >= 0, lambda i: [cnt(i)]))
            pts = PointsE(ne, cnt, cx.int('ndims'))
            S.ne = ne
            S.me = SObj('_DefaultIndex', attrs=dict(nelems=SInt(ne), points=pts))
            # _offsets(pointsseq) is the module-level IR builder; its own contract (OffsetsIR) gives the denotation used here
            off = fresh_idxvec(cx, 'offsets', ne + 1)
            cumsum_invariant(cx, off, ne, cnt)

            def offsets_ir(ctx, p):
                if p is not pts:
                    raise Unsupported('_offsets of another sequence')
                return IRA((ne + 1,), lambda i: off.sel(i), '_offsets')
            S.globals['_offsets'] = offsets_ir
            S.shape = lambda: (cnt(e),)
            S.value = lambda k0: off.sel(e) + k0   # getindex(e)[k0], see samplepart.DefaultIndexGet
        elif cls == '_CustomIndex':
            par = PSampleE(cx, 'parent')
            index = fresh_idxvec(cx, '_index', par.np)
            cx.assume(fa(2, lambda a, b: z3.Implies(z3.And(0 <= a, a < par.ne, 0 <= b, b < par.cnt(a)), z3.And(0 <= par.idx(a, b), par.idx(a, b) < par.np)), lambda a, b: [par.idx(a, b)]),
                      axiom='operand indices lie in range(npoints) (part of PART(parent))')
            S.ne = par.ne
            S.me = SObj('_CustomIndex', attrs=dict(_parent=par, _index=index))
            S.shape = lambda: (par.cnt(e),)
            S.value = lambda k0: index.sel(par.idx(e, k0))
        elif cls == '_Mul':
            s1, s2 = PSampleE(cx, 's1'), PSampleE(cx, 's2')
            S.ne = s1.ne * s2.ne
            S.me = SObj('_Mul', attrs=dict(_sample1=s1, _sample2=s2))
            e1, e2 = e / s2.ne, e % s2.ne
            S.shape = lambda: (s1.cnt(e1), s2.cnt(e2))
            S.value = lambda k0, k1: s1.idx(e1, k0) * s2.np + s2.idx(e2, k1)   # getindex(e)[k0*cnt2 + k1], see samplepart.MulGet
        elif cls == '_Zip':
            ne, np_ = cx.int('nelems'), cx.int('npoints')
            cx.assume(z3.And(ne >= 0, np_ >= 0))
            sizes = fresh_idxvec(cx, '_sizes', ne)
            off = fresh_idxvec(cx, '_offsets', ne + 1)
            cumsum_invariant(cx, off, ne, lambda i: sizes.sel(i))
            cx.assume(off.sel(ne) == np_, axiom='class invariant of _Zip: _offsets = cumsum([0, *_sizes]) and the sizes add up to npoints')
            ind = fresh_idxvec(cx, '_indices', np_)
            S.ne = ne
            S.me = SObj('_Zip', attrs=dict(_offsets=off, _sizes=sizes, _indices=ind))
            S.me.methods['_getslice'] = lambda ctx, me, ielem: self._inline(ctx, 'sample:_Zip._getslice', me, ielem)
            S.shape = lambda: (off.sel(e + 1) - off.sel(e),)
            S.value = lambda k0: ind.sel(off.sel(e) + k0)
        else:
            raise ValueError(cls)
        cx.assume(z3.And(0 <= e, e < S.ne))
        S.args = (S.me, IRA((), lambda: e, 'ielem'))
        return S

    def _inline(self, ctx, ref, *args):
        from pyvc import extract
        f = extract.get(ref)
        return ctx.interp.call_function(f.node, args, {})

    def ensures(self, cx, S, r):
        if not isinstance(r, IRA):
            raise Unsupported('get_evaluable_indices returned %r' % (r,))
        shape = S.shape()
        if len(r.shape_) != len(shape):
            return [('same-rank-as-getindex', z3.BoolVal(False))]
        ks = S.ks[:len(shape)]
        inside = z3.And(*[z3.And(0 <= k, k < n) for k, n in zip(ks, shape)])
        return [('same-rank-as-getindex', z3.BoolVal(True)),
                ('same-shape-as-getindex', z3.And(*[a == b for a, b in zip(r.shape_, shape)])),
                ('denotes-the-index-getindex-returns', z3.Implies(inside, r.sel(*ks) == S.value(*ks)))]

    def replay(self, ob):
        return "import sys; sys.path.insert(0, %r)\nfrom native import c09\nc09.twin(%r)\n" % (HERE, self.cls)


class OffsetsIR(Contract):
    """sample._offsets(pointsseq) denotes cumsum([0] + [number of points of element e ...])."""
    prop = PROP
    fn = 'sample:_offsets'

    def setup(self, cx):
        S = State()
        S.globals = {'evaluable': Evaluable(), 'len': lambda ctx, x: x.length(ctx)}
        ne = cx.int('nelems')
        cx.assume(ne >= 0)
        cnt = z3.Function('cnt', I, I)
        S.ne, S.cnt, S.e = ne, cnt, cx.int('e')
        S.args = (PointsE(ne, cnt, cx.int('ndims')),)
        return S

    def ensures(self, cx, S, r):
        if not isinstance(r, IRA) or len(r.shape_) != 1:
            raise Unsupported('_offsets returned %r' % (r,))
        e = S.e
        return [('length-is-nelems-plus-1', r.shape_[0] == S.ne + 1),
                ('starts-at-0', r.sel(z3.IntVal(0)) == 0),
                ('step-is-point-count-of-element', z3.Implies(z3.And(0 <= e, e < S.ne), r.sel(e + 1) == r.sel(e) + S.cnt(e)))]

    def replay(self, ob):
        return "import sys; sys.path.insert(0, %r)\nfrom native import c09\nc09.twin('_DefaultIndex')\n" % HERE


class EmptyTwin(Contract):
    prop = PROP
    fn = 'sample:_Empty.get_evaluable_indices'

    def setup(self, cx):
        S = State()
        S.globals = {'evaluable': Evaluable()}
        e = cx.int('ielem')
        S.args = (SObj('_Empty', attrs=dict(spaces=('X', 'Y'))), IRA((), lambda: e, 'ielem'))
        return S

    def ensures(self, cx, S, r):
        if not isinstance(r, IRA):
            raise Unsupported('returned %r' % (r,))
        size = z3.IntVal(1)
        for n in r.shape_:
            size = size * n
        return [('denotes-an-empty-array', z3.And(len(r.shape_) >= 1, size == 0))]

    def replay(self, ob):
        return "import sys; sys.path.insert(0, %r)\nfrom native import c09\nc09.twin('_Empty')\n" % HERE


def contracts():
    return [Twin('_DefaultIndex'), OffsetsIR(), Twin('_CustomIndex'), Twin('_Mul'), Twin('_Zip'), EmptyTwin()]
