"""C15 -- matrices are faithful to the data they were assembled from (validation kernel).

WF(values, rowptr, colidx, ncols) :=
    len(rowptr) >= 1, rowptr[0] = 0, rowptr adjacent-monotone, rowptr[-1] = len(values) = len(colidx),
    forall k: 0 <= colidx[k] < ncols,
    forall r, k: rowptr[r] <= k and k+1 < rowptr[r+1]  =>  colidx[k] < colidx[k+1]      (strictly increasing per row)

assemble_csr:  normal return  =>  WF of exactly what is handed to the backend; only MatrixError may escape.
diag / empty: what they pass to assemble_csr is WF (by the callee's contract) and denotes the intended matrix.
assemble_coo:  hands assemble_csr the ROW-POINTER FORM of the COO input (numeric.compress_indices by contract: len = nrows+1, c[0] = 0,
               c[-1] = len(rowidx), monotone, c[i] <= k < c[i+1] <=> rowidx[k] == i), values/colidx/ncols unchanged; it returns normally
               exactly for valid COO data (lengths agree, rowidx in range and sorted, colidx in range and strictly increasing within a row)
               and otherwise raises ValueError/MatrixError.
Matrix.diagonal (under WF of the exported CSR): diag[r] = the stored value at (r, r) or 0.
Matrix.rowsupp:  supp[r] <=> some stored entry of row r has |value| > tol.
Matrix.__reduce__: the reconstruction call is assemble_csr(data, indptr, indices, shape[1]) and is accepted.
assemble_block_csr (contracts/blockcsr.py, bounded block grids): what is handed to assemble_csr is WF and denotes the block matrix.
eye, deprecated assemble, Matrix.__sub__/__rmul__/__truediv__ (contracts/matwrap.py): delegate with the right arguments / sign / inverse.
"""
import z3
from pyvc.contract import Contract, State
from pyvc.values import SInt, SBool, SObj, SOpaque, PyRaise, Unsupported, zint, Sym
from pyvc.nparr import Vec, Numpy, DType, qforall
from pyvc.fp import SFp
from pyvc.values import FIN
from pyvc.interp import Loop
from pyvc import lemmas
from contracts import compress as _compress

PROP = 'C15'
LEVEL = 'proof'


def WF_clauses(values_n, rowptr, colidx, ncols):
    n = colidx.n
    out = [
        ('rowptr-nonempty', rowptr.n >= 1),
        ('rowptr-starts-at-0', rowptr.sel(z3.IntVal(0)) == 0),
        ('rowptr-monotone', qforall(1, lambda i: z3.Implies(z3.And(0 <= i, i + 1 < rowptr.n), rowptr.sel(i) <= rowptr.sel(i + 1)))),
        ('rowptr-ends-at-nnz', z3.And(rowptr.sel(rowptr.n - 1) == values_n, colidx.n == values_n)),
        ('colidx-below-ncols', qforall(1, lambda k: z3.Implies(z3.And(0 <= k, k < n), colidx.sel(k) < ncols))),
        ('colidx-nonnegative', qforall(1, lambda k: z3.Implies(z3.And(0 <= k, k < n), colidx.sel(k) >= 0))),
        ('colidx-strictly-increasing-per-row', qforall(2, lambda r, k: z3.Implies(
            z3.And(0 <= r, r + 1 < rowptr.n, rowptr.sel(r) <= k, k + 1 < rowptr.sel(r + 1)), colidx.sel(k) < colidx.sel(k + 1)))),
    ]
    return out


def WF(values_n, rowptr, colidx, ncols):
    return z3.And(*[c for _, c in WF_clauses(values_n, rowptr, colidx, ncols)])


class Backend(Sym):
    """matrix.backend.current: whatever assemble() receives is recorded (the postcondition speaks about it)."""

    def __init__(self):
        self.received = None

    def getattr(self, ctx, name):
        if name == 'current':
            return self
        if name == 'assemble':
            def assemble(ctx, values, rowptr, colidx, ncols):
                self.received = (values, rowptr, colidx, ncols)
                return SOpaque('Matrix')
            return assemble
        raise Unsupported('backend.' + name)


class AssembleCSR(Contract):
    prop = PROP
    fn = 'matrix/__init__:assemble_csr'

    def raises(self, cx, S, e):
        # any exception counts as rejection; it is acceptable exactly when the input is not well-formed
        if e.exc.startswith('ModelError'):
            return False
        v0, r0, c0, n0 = S.inputs
        return z3.Not(WF(v0.n, r0, c0, n0))

    def setup(self, cx):
        values = Vec.fresh(cx, 'values', 'fp', probes=0)
        rowptr = Vec.fresh(cx, 'rowptr', 'int', probes=6)
        colidx = Vec.fresh(cx, 'colidx', 'int', probes=6)
        ncols = cx.int('ncols')
        cx.assume(ncols >= 0)  # 'number of matrix columns'
        lemmas.mono(cx, rowptr)  # L-MONO instance for the input row pointer
        lemmas.row_of(cx, rowptr, trigger=colidx)  # L-ROW instance
        be = Backend()
        S = State(args=(values, rowptr, colidx, SInt(ncols)), be=be, inputs=(values, rowptr, colidx, ncols),
                  globals={'numpy': Numpy(), 'backend': be})
        return S

    def ensures(self, cx, S, result):
        if S.be.received is None:
            raise Unsupported('assemble_csr returned without calling the backend')
        values, rowptr, colidx, ncols = S.be.received
        if not (isinstance(rowptr, Vec) and isinstance(colidx, Vec) and isinstance(values, Vec)):
            raise Unsupported('backend received non-array data')
        out = WF_clauses(values.n, rowptr, colidx, zint(ncols))
        # frame: the data handed on is the data received
        v0, r0, c0, n0 = S.inputs
        out.append(('passes-input-unchanged', z3.And(
            rowptr.n == r0.n, colidx.n == c0.n, values.n == v0.n, zint(ncols) == n0,
            qforall(1, lambda i: z3.Implies(z3.And(0 <= i, i < r0.n), rowptr.sel(i) == r0.sel(i))),
            qforall(1, lambda i: z3.Implies(z3.And(0 <= i, i < c0.n), colidx.sel(i) == c0.sel(i))))))
        return out

    def replay(self, ob):
        import json, os
        here = os.path.dirname(os.path.dirname(os.path.abspath(__file__)))
        return ("import sys; sys.path.insert(0, %r)\nfrom native import c15\nc15.run_csr(%s, %r)\n"
                % (here, json.dumps({k: v for k, v in ob.model.items() if not k.startswith('k!')}), ob.clause))


class Diagonal(Contract):
    split_conjunctions = True

    """Matrix.diagonal under the class invariant WF of the exported CSR triple:
       diag[r] == the stored value at (r, r) if row r stores column r, else 0  -- for every number of rows (loop invariant)."""
    prop = PROP
    fn = 'matrix/_base:Matrix.diagonal'

    def __init__(self):
        def inv(cx, env, i):
            S = self.S
            diag = env.lookup('diag')
            return z3.And(diag.n == S.n, self.spec(S, diag, i, cx.inv_mode == 'assume'))

        def row_lemmas(cx, env, i):
            S = self.S
            ptr, ind, data = S.ptr, S.ind, S.data
            cx.lemma('row-bounds', z3.And(0 <= ptr.sel(i), ptr.sel(i) <= ptr.sel(i + 1), ptr.sel(i + 1) <= data.n))
            cx.lemma('row-sorted', qforall(2, lambda a, b: z3.Implies(z3.And(ptr.sel(i) <= a, a <= b, b < ptr.sel(i + 1)), ind.sel(a) <= ind.sel(b))))
        self.loops = {0: Loop(inv, label='rows', match='in range(nrows)', on_body=row_lemmas)}

    def replay(self, ob):
        import os
        here = os.path.dirname(os.path.dirname(os.path.abspath(__file__)))
        return "import sys; sys.path.insert(0, %r)\nfrom native import c15b\nc15b.run_diagonal()\n" % here

    def spec(self, S, diag, upto, skolem=False):
        data, ind, ptr = S.data, S.ind, S.ptr
        d = lambda r: SFp(*diag.sel(r))
        hit = qforall(2, lambda r, k: z3.Implies(z3.And(0 <= r, r < upto, ptr.sel(r) <= k, k < ptr.sel(r + 1), ind.sel(k) == r), SFp.same(d(r), SFp(*data.sel(k)))))
        # rows that do not store their diagonal: 0 (stated with a witness function for the stored position)
        pos = S.pos
        from pyvc.nparr import qexists
        stored = (lambda r: z3.And(ptr.sel(r) <= pos(r), pos(r) < ptr.sel(r + 1), ind.sel(pos(r)) == r)) if skolem else \
                 (lambda r: qexists(1, lambda k: z3.And(ptr.sel(r) <= k, k < ptr.sel(r + 1), ind.sel(k) == r)))
        miss = qforall(1, lambda r: z3.Implies(z3.And(0 <= r, r < upto), z3.Or(z3.And(d(r).t == FIN, d(r).v == 0), stored(r))))
        return z3.And(hit, miss)

    def setup(self, cx):
        n = cx.int('nrows')
        cx.assume(n >= 0)
        data = Vec.fresh(cx, 'data', 'fp')
        ind = Vec.fresh(cx, 'indices', 'int', n=data.n)
        ptr = Vec.fresh(cx, 'indptr', 'int', n=n + 1)
        for nm, c in WF_clauses(data.n, ptr, ind, n):
            cx.assume(c)
        lemmas.mono(cx, ptr)
        # strictly increasing within a row, transitive form (L-MONO applied to each row segment)
        cx.assume(qforall(3, lambda r, a, b: z3.Implies(z3.And(0 <= r, r < n, ptr.sel(r) <= a, a < b, b < ptr.sel(r + 1)), ind.sel(a) < ind.sel(b))),
                  axiom='L-MONO (strict, per row segment): adjacent strictly increasing => strictly increasing')
        S = State(n=n, data=data, ind=ind, ptr=ptr, pos=z3.Function('stored_pos', z3.IntSort(), z3.IntSort()))
        self.S = S
        A = SObj('Matrix', attrs=dict(shape=(SInt(n), SInt(n)), dtype=DType('fp')), methods={'export': lambda ctx, s, form: (data, ind, ptr)})
        S.args = (A,)
        S.globals = {'numpy': Numpy()}
        return S

    def ensures(self, cx, S, result):
        if not isinstance(result, Vec):
            raise Unsupported('diagonal returned %r' % (result,))
        return [('length', result.n == S.n), ('diagonal-entries', self.spec(S, result, S.n))]


class Constructor(Contract):
    """matrix.diag / matrix.empty: what they hand to assemble_csr is well-formed CSR (so, by its contract, accepted)
    and denotes the intended matrix (diagonal d / all zero)."""
    prop = PROP

    def __init__(self, which):
        self.which = which
        self.fn = 'matrix/__init__:' + which

    def setup(self, cx):
        S = State(received=None)

        def assemble_csr(ctx, values, rowptr, colidx, ncols):
            S.received = (values, rowptr, colidx, ncols)
            return SOpaque('Matrix')
        S.globals = {'numpy': Numpy(), 'assemble_csr': assemble_csr}
        if self.which == 'diag':
            d = Vec.fresh(cx, 'd', 'fp')
            S.d = d
            S.args = (d,)
        else:
            nr, nc = cx.int('nrows'), cx.int('ncols')
            cx.assume(z3.And(nr >= 0, nc >= 0))
            S.nr, S.nc = nr, nc
            S.args = ((SInt(nr), SInt(nc)),)
        return S

    def ensures(self, cx, S, result):
        if S.received is None:
            raise Unsupported('assemble_csr not called')
        values, rowptr, colidx, ncols = S.received
        out = WF_clauses(values.n, rowptr, colidx, zint(ncols))
        if self.which == 'diag':
            n = S.d.n
            out += [('square-n-by-n', z3.And(rowptr.n == n + 1, zint(ncols) == n)),
                    ('entry-r-is-at-(r,r)', qforall(1, lambda r: z3.Implies(z3.And(0 <= r, r < n), z3.And(rowptr.sel(r) == r, colidx.sel(r) == r, SFp.same(SFp(*values.sel(r)), SFp(*S.d.sel(r)))))))]
        else:
            out += [('shape', z3.And(rowptr.n == S.nr + 1, zint(ncols) == S.nc)), ('no-entries', values.n == 0)]
        return out


def valid_coo_clauses(nvals, rowidx, nrows, colidx, ncols):
    """COO data that define a matrix unambiguously (the property statement): consistent lengths, row indices in range and
    sorted, column indices in range, and strictly increasing columns within a run of equal row indices (no repeats)."""
    n = rowidx.n
    return [('lengths-agree', z3.And(nvals == n, colidx.n == n)),
            ('rowidx-in-range-and-sorted', _compress.valid(rowidx, nrows)),
            ('colidx-in-range', qforall(1, lambda k: z3.Implies(z3.And(0 <= k, k < n), z3.And(0 <= colidx.sel(k), colidx.sel(k) < ncols)))),
            ('colidx-strictly-increasing-within-a-row', qforall(1, lambda k: z3.Implies(z3.And(0 <= k, k + 1 < n, rowidx.sel(k) == rowidx.sel(k + 1)), colidx.sel(k) < colidx.sel(k + 1))))]


def csr_by_contract(S, on_accept=None):
    """assemble_csr replaced by its contract (AssembleCSR above): MatrixError iff the data are not well-formed, else they
    are handed to the backend unchanged.  What it received is recorded in S.received; `on_accept(ctx, wf)` may state
    lemmas at that point (wf: clause name -> the formula object that is now a hypothesis)."""
    def assemble_csr(ctx, values, rowptr, colidx, ncols):
        if not (isinstance(values, Vec) and isinstance(rowptr, Vec) and isinstance(colidx, Vec)):
            raise Unsupported('assemble_csr received non-array data: %r' % ((values, rowptr, colidx),))
        ctx.used_axioms.add('matrix.assemble_csr by its contract (this file): MatrixError iff not WF, else the backend receives the data unchanged')
        S.offered = (values, rowptr, colidx, ncols)
        clauses = WF_clauses(values.n, rowptr, colidx, zint(ncols))
        if not ctx.branch(z3.And(*[f for _, f in clauses])):
            raise PyRaise('MatrixError', note='assemble_csr: data are not well-formed CSR')
        for _, f in clauses:
            ctx.assume(f)  # the conjuncts of the branch condition, as these formula objects
        S.received = (values, rowptr, colidx, ncols)
        S.received_wf = clauses
        if on_accept is not None:
            on_accept(ctx, dict(clauses))
        return SOpaque('Matrix')
    return assemble_csr


def same_vec(a, b):
    if a is b:
        return z3.BoolVal(True)
    from pyvc.nparr import eq_elem
    return z3.And(a.n == b.n, qforall(1, lambda i: z3.Implies(z3.And(0 <= i, i < a.n), eq_elem(a.kind, a.sel(i), b.sel(i)))))


class AssembleCOO(Contract):
    """matrix.assemble_coo (composition): what it hands to assemble_csr is the row-pointer form of the COO input
    (compress_indices by contract), everything else unchanged; hence accepted iff the COO data define a matrix unambiguously."""
    prop = PROP
    fn = 'matrix/__init__:assemble_coo'

    def setup(self, cx):
        values = Vec.fresh(cx, 'values', 'fp', probes=0)
        rowidx = Vec.fresh(cx, 'rowidx', 'int', probes=4)
        colidx = Vec.fresh(cx, 'colidx', 'int', probes=4)
        nrows, ncols = cx.int('nrows'), cx.int('ncols')
        cx.assume(z3.And(nrows >= 0, ncols >= 0))
        S = State(args=(values, rowidx, SInt(nrows), colidx, SInt(ncols)), inputs=(values, rowidx, nrows, colidx, ncols), received=None, offered=None, entry_in_row=None)
        S.valid_clauses = valid_coo_clauses(values.n, rowidx, nrows, colidx, ncols)
        S.valid = z3.And(*[f for _, f in S.valid_clauses])
        S.globals = {'numeric': _compress.NumericByContract(), 'assemble_csr': csr_by_contract(S, lambda ctx, wf: self.hints(ctx, S, wf)), 'numpy': Numpy()}
        return S

    def hints(self, cx, S, wf):
        """At the point where assemble_csr accepts: WF of the row-pointer form => the COO input is valid (each clause a lemma
        proved from the few facts it needs)."""
        values, rowptr, colidx, ncols = S.received
        v0, r0, nrows, c0, nc0 = S.inputs
        g = [g for g in cx.ghost.get('compress_indices', []) if g['result'] is rowptr and g['indices'] is r0]
        if not g or colidx is not c0:
            return
        post = dict(g[0]['post'])
        V = dict(S.valid_clauses)
        from pyvc import npext
        npext.lemma(cx, 'coo-valid:lengths-agree', V['lengths-agree'], using=[wf['rowptr-ends-at-nnz'], post['ends-at-len'], post['length']])
        npext.lemma(cx, 'coo-valid:rowidx-in-range-and-sorted', V['rowidx-in-range-and-sorted'], using=[g[0]['valid']])
        npext.lemma(cx, 'coo-valid:colidx-in-range', V['colidx-in-range'], using=[wf['colidx-below-ncols'], wf['colidx-nonnegative'], wf['rowptr-ends-at-nnz'], post['ends-at-len'], post['length']])
        S.entry_in_row = npext.lemma(cx, 'entry-k-lies-in-row-rowidx[k]', qforall(1, lambda k: z3.Implies(z3.And(0 <= k, k < r0.n), z3.And(
            0 <= r0.sel(k), r0.sel(k) < nrows, rowptr.sel(r0.sel(k)) <= k, k < rowptr.sel(r0.sel(k) + 1)))), using=[post['rows-partition-positions'], g[0]['valid']])
        npext.lemma(cx, 'coo-valid:colidx-strictly-increasing-within-a-row', V['colidx-strictly-increasing-within-a-row'],
                    using=[wf['colidx-strictly-increasing-per-row'], S.entry_in_row, post['length']])

    def ensures(self, cx, S, result):
        if S.received is None:
            raise Unsupported('assemble_coo returned without assemble_csr accepting anything')
        values, rowptr, colidx, ncols = S.received
        v0, r0, nrows, c0, nc0 = S.inputs
        out = [('accepted-input-is-valid-coo:' + nm, f) for nm, f in S.valid_clauses]
        out += [('csr:' + nm, f) for nm, f in S.received_wf]
        # the callee contract of compress_indices gives exactly these clauses when it was called on (rowidx, nrows) and its
        # result was passed on (then they are literally among the hypotheses); otherwise they are stated afresh
        post = None
        for g in cx.ghost.get('compress_indices', []):
            if g['result'] is rowptr and g['indices'] is r0 and z3.eq(z3.simplify(g['L'] - nrows), z3.IntVal(0)):
                post = g['post']
        out += [('rowptr-is-row-pointer-form:' + nm, f) for nm, f in (post or _compress.post_clauses(r0, nrows, rowptr))]
        out.append(('entry-k-lies-in-row-rowidx[k]', getattr(S, 'entry_in_row', None) if getattr(S, 'entry_in_row', None) is not None else qforall(1, lambda k: z3.Implies(z3.And(0 <= k, k < r0.n), z3.And(
            0 <= r0.sel(k), r0.sel(k) < nrows, rowptr.sel(r0.sel(k)) <= k, k < rowptr.sel(r0.sel(k) + 1))))))
        out.append(('values-colidx-ncols-unchanged', z3.And(same_vec(values, v0), same_vec(colidx, c0), zint(ncols) == nc0)))
        return out

    def raises(self, cx, S, e):
        # rejection (ValueError from compress_indices, MatrixError from assemble_csr) is acceptable exactly for invalid COO data
        if e.exc.split(':')[0] not in ('ValueError', 'MatrixError'):
            return False
        return z3.Not(S.valid)

    def replay(self, ob):
        import json, os
        here = os.path.dirname(os.path.dirname(os.path.abspath(__file__)))
        return ("import sys; sys.path.insert(0, %r)\nfrom native import c15\nc15.run_coo(%s, %r)\n"
                % (here, json.dumps({k: v for k, v in (ob.model or {}).items() if not k.startswith('k!')}), ob.clause))


class RowSupp(Contract):
    """Matrix.rowsupp(tol): supp[r] <=> some stored entry of row r has |value| > tol (IEEE comparison: a NaN entry does not count),
    for any number of rows and entries.  Class invariant of export('coo'): equally long data/row/col, row indices in range."""
    prop = PROP
    fn = 'matrix/_base:Matrix.rowsupp'

    def __init__(self, tol):
        self.tol = tol  # 'default' | 'given'
        self.label = 'tol-' + tol

    def setup(self, cx):
        nr, nc = cx.int('nrows'), cx.int('ncols')
        cx.assume(z3.And(nr >= 0, nc >= 0))
        data = Vec.fresh(cx, 'data', 'fp')
        row = Vec.fresh(cx, 'row', 'int', n=data.n, probes=3)
        col = Vec.fresh(cx, 'col', 'int', n=data.n)
        cx.assume(qforall(1, lambda k: z3.Implies(z3.And(0 <= k, k < data.n), z3.And(0 <= row.sel(k), row.sel(k) < nr))))
        A = SObj('Matrix', attrs=dict(shape=(SInt(nr), SInt(nc)), dtype=DType('fp')), methods={'export': lambda ctx, s, form: self.export(ctx, form, data, row, col)})
        S = State(nr=nr, data=data, row=row, args=(A,), globals={'numpy': Numpy()})
        if self.tol == 'given':
            S.tol = SFp.fresh(cx, 'tol')
            S.kwargs = {'tol': S.tol}
        else:
            S.tol = SFp.lift(0)
        return S

    def export(self, ctx, form, data, row, col):
        if form != 'coo':
            raise Unsupported('rowsupp exported %r' % (form,))
        return (data, (row, col))

    def ensures(self, cx, S, result):
        if not (isinstance(result, Vec) and result.kind == 'bool'):
            raise Unsupported('rowsupp returned %r' % (result,))
        data, row, nr = S.data, S.row, S.nr
        big = lambda k: SFp.lt(S.tol, SFp(*data.sel(k)).unop(cx, 'abs'))
        from pyvc.nparr import qexists
        return [('length', result.n == nr),
                ('row-with-a-large-entry-is-in-the-support', qforall(2, lambda r, k: z3.Implies(z3.And(0 <= k, k < data.n, row.sel(k) == r, big(k)), result.sel(r)))),
                ('row-in-the-support-has-a-large-entry', qforall(1, lambda r: z3.Implies(z3.And(0 <= r, r < nr, result.sel(r)), qexists(1, lambda k: z3.And(0 <= k, k < data.n, row.sel(k) == r, big(k))))))]

    def replay(self, ob):
        import os
        here = os.path.dirname(os.path.dirname(os.path.abspath(__file__)))
        return "import sys; sys.path.insert(0, %r)\nfrom native import c15b\nc15b.run_rowsupp()\n" % here


class Reduce(Contract):
    """Matrix.__reduce__ followed by the call pickle makes: the reconstruction call is assemble_csr(data, indptr, indices, shape[1])
    with the exported CSR triple in the right argument order, and (class invariant: the export is well-formed) it is accepted."""
    prop = PROP
    fn = 'matrix/_base:Matrix.__reduce__'

    def setup(self, cx):
        nr, nc = cx.int('nrows'), cx.int('ncols')
        cx.assume(z3.And(nr >= 0, nc >= 0))
        data = Vec.fresh(cx, 'data', 'fp')
        ind = Vec.fresh(cx, 'indices', 'int', n=data.n, probes=3)
        ptr = Vec.fresh(cx, 'indptr', 'int', n=nr + 1, probes=3)
        for nm, c in WF_clauses(data.n, ptr, ind, nc):
            cx.assume(c)

        def export(ctx, s, form):
            if form != 'csr':
                raise Unsupported('__reduce__ exported %r' % (form,))
            return (data, ind, ptr)
        A = SObj('Matrix', attrs=dict(shape=(SInt(nr), SInt(nc)), dtype=DType('fp')), methods={'export': export})
        S = State(nr=nr, nc=nc, data=data, ind=ind, ptr=ptr, A=A, received=None, offered=None)
        S.token = SOpaque('function assemble_csr')
        S.globals = {'numpy': Numpy(), 'assemble_csr': S.token}
        return S

    def body(self, cx, S, call):
        r = call(self.fn, S.A)
        S.reduced = r
        if not (isinstance(r, tuple) and len(r) == 2 and isinstance(r[1], tuple) and len(r[1]) == 4):
            raise Unsupported('__reduce__ returned %r' % (r,))
        if r[0] is S.token:
            csr_by_contract(S)(cx, *r[1])  # what pickle.loads does with the reduced value
        return r

    def ensures(self, cx, S, result):
        f, args = result
        out = [('reconstructs-with-assemble_csr', z3.BoolVal(f is S.token))]
        if S.received is not None:
            values, rowptr, colidx, ncols = S.received
            out += [('values-are-the-exported-data', z3.BoolVal(values is S.data)),
                    ('rowptr-is-the-exported-indptr', same_vec(rowptr, S.ptr) if isinstance(rowptr, Vec) and rowptr.kind == 'int' else z3.BoolVal(False)),
                    ('colidx-is-the-exported-indices', same_vec(colidx, S.ind) if isinstance(colidx, Vec) and colidx.kind == 'int' else z3.BoolVal(False)),
                    ('ncols-is-shape[1]', zint(ncols) == S.nc), ('nrows-is-shape[0]', rowptr.n == S.nr + 1)]
        return out

    def replay(self, ob):
        import os
        here = os.path.dirname(os.path.dirname(os.path.abspath(__file__)))
        return "import sys; sys.path.insert(0, %r)\nfrom native import c15b\nc15b.run_pickle()\n" % here


def _submatrix_contract():
    # Matrix.submatrix (cache guard): the same contract as in C14 (contracts/c14_matrix.py), claimed under C15 as well because the property names
    # sub-matrix selection: the returned object was built by _submatrix for masks EQUAL to the requested rows AND cols
    from contracts import c14_matrix
    c = c14_matrix.Submatrix()
    c.prop = PROP
    return c


def contracts():
    from contracts import blockcsr, matwrap
    return ([AssembleCSR(), AssembleCOO(), Diagonal(), Constructor('diag'), Constructor('empty'), RowSupp('default'), RowSupp('given'), Reduce()]
            + matwrap.contracts() + blockcsr.contracts() + [_submatrix_contract()])


TRUSTED = ['pyvc symbolic executor and its Python model (DESIGN 2.3)',
           'numpy externals as axioms: asarray (identity on arrays), elementwise comparisons, basic slices as views, greater_equal(out=) writes through, '
           'x[idx]=v with integer-array idx (Skolem witness form), ndarray.all(), numpy.zeros, abs() and > on float arrays (IEEE comparison), '
           'arr[mask] as an order-preserving selection (rowsupp)',
           'lemma L-MONO (adjacent-monotone => monotone), lemmas/LMono.lean',
           'numpy int64 treated as mathematical integers',
           'assemble_coo: numeric.compress_indices is replaced by its contract (contracts/compress.py), which is PROVED for all lengths under property C05 '
           '(./check C05); matrix.assemble_csr is replaced by its contract, proved above (AssembleCSR)',
           'Matrix.__reduce__: pickle calls the returned callable with the returned argument tuple (the harness applies the assemble_csr contract to it)',
           'assemble_block_csr (contracts/blockcsr.py, BOUNDED block grids): the local lists values/colidx (lists of arrays) and rowptr (list of ints) are '
           'represented by append-only symbolic lists (pyvc/chunks.py): a list of arrays by (number of chunks, concatenation), exact for append / truthiness / '
           'numpy.concatenate; list.extend(array), numpy.array(list of ints), numpy.concatenate(list) = the arrays laid end to end (ValueError for the empty list), '
           'unpacking a slice into two names (ValueError unless its length is 2), a[i:j] without clamping when the path proves 0 <= i <= j <= len; '
           'appending defines a fresh array symbol by a quantified definition (definitional extension); loop-head havoc of an append-only list keeps the prefix; '
           'matrix.assemble_csr is replaced by its contract with its precondition WF PROVED at the call, matrix.empty by its contract (Constructor above); '
           'block arguments are never written (a store into one is outside the model)',
           'eye / deprecated assemble / Matrix.__sub__, __rmul__, __truediv__ (contracts/matwrap.py): the callees (diag, assemble_coo, __add__, __mul__, __neg__) are recorded, not executed; '
           'unary minus on a matrix is its __neg__ (Python data model); warnings.deprecation is a no-op; numpy.ones(n) = n float ones, ValueError iff n < 0']
ASSUMPTIONS = ['inputs are 1-D integer/float numpy arrays (ndim/dtype.kind rejections are concrete in the model)',
               'Python asserts enabled',
               'assemble_coo: nrows >= 0, ncols >= 0 (shape entries)',
               "Matrix.rowsupp: class invariant of export('coo'): data/row/col equally long, 0 <= row[k] < shape[0]; float (not complex) data; tol a float (any IEEE value) or the default 0",
               'assemble_block_csr: at least one block row, every block row has at least one block; every block is well-formed CSR (WF) with ncols >= 0; block values are float '
               'arrays (one scenario with an int block for the dtype assertion); the grid shape is fixed per scenario: 1x1, 1x2, 1x3, 2x1, 3x1, 2x2',
               'Matrix.__rmul__/__truediv__: the scalar is a real number (exact arithmetic: 1/other is the exact inverse; float rounding of the quotient is not modelled)',
               "Matrix.__reduce__: class invariant of export('csr'): the exported (data, indices, indptr) is well-formed CSR for shape (this is what assemble_csr established when the matrix was built; "
               'backend arithmetic preserving it is not covered)']
NOT_COVERED = ['scipy and MKL backends (native code)', 'matrix arithmetic inside the backends (__add__/__mul__/__neg__ are abstract in the base class; the base-class __sub__/__rmul__/__truediv__ only delegate), transpose, export, submatrix; values after a pickle ROUND TRIP through a backend (only the reconstruction call is covered)',
               'values of the assembled matrix inside the backend (matrix/_numpy:assemble and NumpyMatrix.export/_submatrix/T need a 2-D array model; not attempted)',
               'assemble_block_csr on grids other than 1x1, 1x2, 1x3, 2x1, 3x1, 2x2 (rows with different numbers of blocks, larger grids); any number of block rows / blocks per row '
               '(an outer loop invariant) is not attempted; '
               'complex or mixed-dtype blocks (numpy casting rules)',
               'complex data in rowsupp']
