"""C05 (kernel) -- the index bookkeeping behind sparse extraction.

UniqueMask.evalf(sorted_array)          mask[0] is True and mask[i] <=> a[i] != a[i-1]            (any length)
UniqueInverse.evalf(unique_mask, sorter) for a permutation `sorter`:  inverse[sorter[k]] = (number of True in mask[:k+1]) - 1,
                                        hence inverse[sorter[0]] = 0 when mask[0], consecutive values differ by mask[k] in {0,1}
numeric.compress_indices                DEDUCTIVE, any length (contracts/compress.py): the result is the row pointer of the index
                                        vector (len = length+1, c[0] = 0, c[-1] = len(indices), monotone, c[i] the insertion point of i,
                                        c[i] <= k < c[i+1] <=> indices[k] == i) and ValueError is raised exactly for out-of-bounds or
                                        non-monotone input.  The prefix-sum facts behind numpy.repeat are lemmas with explicit
                                        base + step obligations.  The exhaustive native enumeration (length <= 6) is kept as a
                                        bounded cross-check of the same statement against the real numpy.
"""
import z3
from pyvc.contract import Contract, State
from pyvc.values import SInt, SBool, SObj, Unsupported, PyRaise, zint
from pyvc.nparr import Vec, Numpy, qforall
from pyvc.native import NativeBounded
from pyvc import ops
from contracts import compress as _compress

PROP = 'C05'
LEVEL = 'proof'


class UniqueMask(Contract):
    prop = PROP
    fn = 'evaluable:UniqueMask.evalf'

    def setup(self, cx):
        a = Vec.fresh(cx, 'sorted_array', 'int', probes=4)
        return State(args=(a,), a=a, globals={'numpy': Numpy()})

    def ensures(self, cx, S, result):
        a = S.a
        if not (isinstance(result, Vec) and result.kind == 'bool'):
            raise Unsupported('returned %r' % (result,))
        return [('length', result.n == a.n),
                ('first-is-true', z3.Implies(a.n > 0, result.sel(z3.IntVal(0)))),
                ('marks-changes', qforall(1, lambda i: z3.Implies(z3.And(1 <= i, i < a.n), result.sel(i) == (a.sel(i) != a.sel(i - 1)))))]

    def replay(self, ob):
        return NativeBounded.script_for('c05', 'unique_mask()')


class UniqueInverse(Contract):
    prop = PROP
    fn = 'evaluable:UniqueInverse.evalf'

    def setup(self, cx):
        sorter = Vec.fresh(cx, 'sorter', 'int', probes=4)
        n = sorter.n
        mask = Vec.fresh(cx, 'unique_mask', 'bool', n=n, probes=4)
        # sorter is a permutation of range(n) (argsort output): values in range, injective
        cx.assume(qforall(1, lambda k: z3.Implies(z3.And(0 <= k, k < n), z3.And(0 <= sorter.sel(k), sorter.sel(k) < n))))
        cx.assume(qforall(2, lambda a, b: z3.Implies(z3.And(0 <= a, a < b, b < n), sorter.sel(a) != sorter.sel(b))))
        return State(args=(mask, sorter), mask=mask, sorter=sorter, n=n, globals={'numpy': Numpy()})

    def ensures(self, cx, S, result):
        mask, sorter, n = S.mask, S.sorter, S.n
        if not (isinstance(result, Vec) and result.kind == 'int'):
            raise Unsupported('returned %r' % (result,))
        inv = lambda k: result.sel(sorter.sel(k))
        b = lambda k: z3.If(mask.sel(k), 1, 0)
        return [('length', result.n == n),
                ('first', z3.Implies(n > 0, inv(z3.IntVal(0)) == b(z3.IntVal(0)) - 1)),
                ('step', qforall(1, lambda k: z3.Implies(z3.And(1 <= k, k < n), inv(k) == inv(k - 1) + b(k))))]

    def replay(self, ob):
        return NativeBounded.script_for('c05', 'unique_inverse()')


class CompressIndices(NativeBounded):
    prop = PROP
    fn = 'numeric:compress_indices'
    label = 'native-enumeration'
    bounded = 'exhaustive native enumeration: length <= 6, every index vector of len <= 6 with entries in [-1, length]'
    module = 'c05'
    call = 'compress_indices()'
    clauses = ('equals-searchsorted', 'monotone-rowptr', 'rejects-exactly-invalid')


class InflateAssparse(Contract):
    """Inflate._assparse: the scatter index of a sparse chunk is the dofmap entry at the ROW-MAJOR flat position of the
    chunk's trailing indices:  Take(flat(dofmap), sum_i idx_i * prod_{j>i} dofmap.shape[j])."""
    prop = PROP
    fn = 'evaluable:Inflate._assparse'
    bounded = 'dofmap of rank 1..3 (symbolic lengths), one kept leading axis, one sparse chunk'

    def __init__(self, rank):
        self.rank = rank
        self.label = 'dofmap.ndim=%d' % rank

    def setup(self, cx):
        from contracts.ravel import ir, rowmajor
        from pyvc.values import SObj, SOpaque
        r = self.rank
        lens = [ir(cx, 'len%d' % k, 1) for k in range(r)]
        idx = [ir(cx, 'idx%d' % k, 0) for k in range(r)]
        lead = ir(cx, 'lead', 0)
        values = SObj('Array', attrs={'shape': SOpaque('shape')})
        dofmap = SObj('Array', attrs={'ndim': r, 'shape': tuple(lens)})
        func = SObj('Array', attrs={'ndim': r + 1, '_assparse': ((lead, *idx, values),)})
        S = State(args=(SObj('Inflate', attrs=dict(func=func, dofmap=dofmap)),), lens=lens, idx=idx, lead=lead, values=values, takes=[])

        def Take(ctx, arr, index):
            S.takes.append((arr, index))
            return ('TAKE', arr, index)

        class IT:
            def sym_getattr(self, ctx, name):
                if name == 'accumulate':
                    def accumulate(ctx, seq, f):
                        out, acc = [], None
                        for x in ops.iterate(ctx, seq):
                            acc = x if acc is None else ctx.interp.call(f, [acc, x], {})
                            out.append(acc)
                        return out
                    return accumulate
                raise Unsupported('itertools.' + name)

        class OP:
            def sym_getattr(self, ctx, name):
                return {'mul': lambda ctx, a, b: ops.binop(ctx, '*', a, b), 'add': lambda ctx, a, b: ops.binop(ctx, '+', a, b)}[name]

        class FT:
            def sym_getattr(self, ctx, name):
                if name == 'reduce':
                    def reduce(ctx, f, seq):
                        xs = ops.iterate(ctx, seq)
                        acc = xs[0]
                        for x in xs[1:]:
                            acc = ctx.interp.call(f, [acc, x], {})
                        return acc
                    return reduce
                raise Unsupported('functools.' + name)
        S.globals = {'_flat': lambda ctx, a: ('FLAT', a), 'Take': Take, 'itertools': IT(), 'operator': OP(), 'functools': FT(), 'appendaxes': lambda ctx, a, sh: a}
        S.dofmap = dofmap
        return S

    def ensures(self, cx, S, result):
        from contracts.ravel import rowmajor
        from contracts.C01 import IR
        if not (isinstance(result, tuple) and len(result) == 1):
            raise Unsupported('chunks %r' % (result,))
        chunk = result[0]
        ok_shape = len(chunk) == 3 and chunk[0] is S.lead and chunk[2] is S.values and isinstance(chunk[1], tuple) and chunk[1][0] == 'TAKE' and chunk[1][1] == ('FLAT', S.dofmap)
        if not ok_shape:
            return [('chunk-structure', z3.BoolVal(False))]
        flat = chunk[1][2]
        want, _ = rowmajor([x.val for x in S.idx], [l.val for l in S.lens])
        val = flat.val if isinstance(flat, IR) else zint(flat)
        return [('chunk-structure', z3.BoolVal(True)), ('row-major-flat-index', val == want)]

    def replay(self, ob):
        return NativeBounded.script_for('c05', 'inflate_assparse()')


def contracts():
    return [UniqueMask(), UniqueInverse(), _compress.CompressIndices(PROP), CompressIndices(), InflateAssparse(1), InflateAssparse(2), InflateAssparse(3)]


TRUSTED = ['pyvc symbolic executor; numpy externals: empty/empty_like, slice stores, not_equal(out=), cumsum recurrence (L-CUMSUM), injective integer-array store',
           'int64 as mathematical integers'] + _compress.TRUSTED
ASSUMPTIONS = ['UniqueInverse: sorter is a permutation (it is numpy.argsort output)'] + _compress.ASSUMPTIONS
NOT_COVERED = ['the structural recursion _assparse of the node classes and "scattering the listed values reproduces the dense array" (needs array semantics)',
               'ravel/unravel loops of Array.assparse (IR-level; DESIGN 4.5), evaluable.as_csr composition']


from contracts import C05b as _C05b; _base_contracts = contracts  # extension (assparse merge, _assparse rules, CSR composition): contracts/C05b.py
contracts = lambda: _base_contracts() + _C05b.contracts(); TRUSTED, ASSUMPTIONS, NOT_COVERED = TRUSTED + _C05b.TRUSTED, ASSUMPTIONS + _C05b.ASSUMPTIONS, _C05b.NOT_COVERED
