"""C13 extension, part 1 -- the public argument-manipulation entry points of function.py announce the right metadata.

function.derivative / _Derivative.__init__ :  for `var` spelled as a name or as an Argument object
    shape      = f.shape + var.shape   (the argument's own shape for the name spelling)
    dtype      = complex if var.dtype == complex else f.dtype
    spaces     = spaces of f
    arguments  = arguments of f  joined with  {var.name: (var.shape, var.dtype)}
    _eval_var  = evaluable.Argument(var.name, map(constant, var.shape), var.dtype)   (what lower() differentiates to)
    raises ValueError exactly for: a name that is no argument of f, a non-str non-Argument, an Argument whose shape/dtype
    disagrees with f's argument of that name; nothing else escapes.
function.replace_arguments : the _Replace contract of C13.py, through the public wrapper, plus shape/dtype/spaces of f.
function.linearize(f, 'u:v') for every spelling: shape of f, arguments = arguments of f plus v with the shape/dtype of u.
    The metadata of the Array operations it composes (`*`, numpy.sum over axes, util.sum) are AXIOMS (listed in TRUSTED,
    cross-checked natively in native/axioms.py), the bodies of derivative, _Derivative.__init__, _argument_to_array and
    _join_arguments are the real ones.
function.field / dotarg : bounded in the number and ranks of the arrays (see Field).

Shapes are values of an uninterpreted sort with concatenation; names and dtypes as in C13.py.
"""
import z3
from pyvc.contract import Contract, State
from pyvc.values import SObj, SOpaque, STerm, SBool, SInt, Sym, Unsupported, PyRaise, zbool, zint
from pyvc.ops import ClassRef
from pyvc import ops, extract
from pyvc.interp import LazyGen, Env
from contracts.C13 import (PROP, NAME, SHAPE, DT, DT_CONST, CONCAT, NDIM, ShapeT, DTerm, name, shape, dtype, setup_common, InlineFn,
                           BOUND, _script, ReplaceInit)

SPACES = z3.DeclareSort('Spaces')
EMPTY = z3.Const('no_spaces', SPACES)
UNION = z3.Function('spaces_union', SPACES, SPACES, SPACES)
BROADCAST = z3.Function('broadcast_shapes', SHAPE, SHAPE, SHAPE)
PROMOTE = z3.Function('promote_dtypes', DT, DT, DT)
SUMAXES = z3.Function('shape_without_axes', SHAPE, z3.IntSort(), z3.IntSort(), SHAPE)  # shape, first axis, number of consecutive axes
SUMDT = z3.Function('sum_dtype', DT, DT)


class SpacesT(STerm):
    """frozenset of space names: equality, union, emptiness of the literal empty set."""

    def binop(self, ctx, op, other, reflected):
        if op == '|' and isinstance(other, SpacesT):
            a, b = (other, self) if reflected else (self, other)
            t = UNION(a.term, b.term)
            ctx.assume(z3.And(z3.Implies(b.term == EMPTY, t == a.term), z3.Implies(a.term == EMPTY, t == b.term)), axiom='frozenset: s | frozenset() == s == frozenset() | s')
            return SpacesT(t, (frozenset,))
        return NotImplemented

    def truth(self, ctx):
        return self.term != EMPTY


def no_spaces():
    return SpacesT(EMPTY, (frozenset,))


def sh_ndim(sh):
    return SInt(NDIM(sh.term))


class FArr(SObj):
    """A function.Array known by its announced metadata (shape, dtype, spaces, arguments).  `*` follows the metadata
    contract of function.multiply (a _Wrapper over the broadcast operands): AXIOM, see TRUSTED."""

    def __init__(self, clsname, shape_, dtype_, spaces, arguments, classes=('Array',), **extra):
        super().__init__(clsname, attrs=dict(shape=shape_, dtype=dtype_, spaces=spaces, arguments=arguments, ndim=sh_ndim(shape_), **extra), classes=classes)

    def binop(self, ctx, op, other, reflected):
        if op not in ('*', '+') or not (isinstance(other, SObj) and 'Array' in other.classes):
            return NotImplemented
        a, b = (other, self) if reflected else (self, other)
        sa, sb = a.attrs['shape'], b.attrs['shape']
        t = BROADCAST(sa.term, sb.term)
        ax = [z3.Implies(sa.term == sb.term, t == sa.term)]
        for x, y in ((sa, sb), (sb, sa)):
            d = x.term.decl() if z3.is_app(x.term) else None
            if d is not None and d.eq(CONCAT):  # numpy aligns trailing axes: (s + t) broadcast with t is s + t
                ax.append(z3.Implies(x.term.arg(1) == y.term, t == x.term))
        ctx.assume(z3.And(*ax), axiom='function.multiply/add metadata: shape = numpy broadcast of the operand shapes, with broadcast(s + t, t) == s + t and broadcast(s, s) == s; '
                   'dtype = promotion with promote(d, d) == d; spaces = union; arguments = _join_arguments of the operands (function._Wrapper.__init__)')
        da, db = a.attrs['dtype'], b.attrs['dtype']
        p = PROMOTE(da.term, db.term)
        ctx.assume(z3.Implies(da.term == db.term, p == da.term))
        join = InlineFn('function:_join_arguments')
        arguments = join(ctx, [a.attrs['arguments'], b.attrs['arguments']])
        r = FArr('_Wrapper', ShapeT(t, (tuple,)), DTerm(p, (type,)), ops.binop(ctx, '|', a.attrs['spaces'], b.attrs['spaces']), arguments)
        r.shape_hints = concat_terms(a) + concat_terms(b)
        return r


def concat_terms(x):
    """the concatenation terms an array's shape is (possibly) equal to: instantiation hints for the ground axioms"""
    t = x.attrs['shape'].term
    own = [t] if z3.is_app(t) and t.decl().eq(CONCAT) else []
    return own + list(getattr(x, 'shape_hints', []))


class AxesRange(Sym):
    """numpy.arange(n) and k + numpy.arange(n): the consecutive axes k, ..., k+n-1"""

    def __init__(self, start, count):
        self.start, self.count = start, count

    def binop(self, ctx, op, other, reflected):
        if op == '+' and isinstance(other, (int, SInt)):
            return AxesRange(zint(ops.binop(ctx, '+', SInt(self.start), other)), self.count)
        return NotImplemented


class NumpyMeta:
    def sym_getattr(self, ctx, attr):
        if attr == 'arange':
            return lambda ctx, n: AxesRange(z3.IntVal(0), zint(n))
        if attr == 'sum':
            def np_sum(ctx, x, axes):
                if not (isinstance(x, SObj) and isinstance(axes, AxesRange)):
                    raise Unsupported('numpy.sum(%r, %r)' % (x, axes))
                sx = x.attrs['shape']
                t = SUMAXES(sx.term, axes.start, axes.count)
                ax = [z3.BoolVal(True)]
                for c in concat_terms(x):  # ground instances of the axiom for the concatenations the shape is known to be built from
                    s, u = c.arg(0), c.arg(1)
                    ax.append(z3.Implies(z3.And(sx.term == c, axes.start == NDIM(s), axes.count == NDIM(u)), t == s))
                sd = SUMDT(x.attrs['dtype'].term)
                ax += [z3.Implies(x.attrs['dtype'].term == DT_CONST[T], sd == DT_CONST[T]) for T in (int, float, complex)]
                ctx.assume(z3.And(*ax), axiom='numpy.sum(function.Array, axes) metadata: the summed axes are removed -- summing the axes len(s), ..., len(s)+len(t)-1 of an array '
                           'of shape s + t leaves shape s; int/float/complex dtypes are kept; spaces and arguments are those of the operand')
                return FArr('_Wrapper', ShapeT(t, (tuple,)), DTerm(sd, (type,)), x.attrs['spaces'], dict(x.attrs['arguments']))
            return np_sum
        raise Unsupported('numpy.%s is not modelled in C13' % attr)


class UtilMeta:
    def sym_getattr(self, ctx, attr):
        if attr == 'sum':
            def util_sum(ctx, it):
                items = ops.iterate(ctx, it)
                ctx.used_axioms.add('util.sum = functools.reduce(operator.add): TypeError on an empty iterable, the item itself for one item')
                if not items:
                    raise PyRaise('TypeError', note='reduce() of empty iterable with no initial value')
                r = items[0]
                for x in items[1:]:
                    r = ops.binop(ctx, '+', r, x)
                return r
            return util_sum
        raise Unsupported('util.%s is not modelled in C13' % attr)


class ShapeElem(Sym):
    """the generic element of a shape of unknown rank (parametric reading of a comprehension over it)"""

    def __init__(self, src):
        self.src = src


class ConstOf(Sym):
    def __init__(self, arg):
        self.arg = arg


class MappedShape(Sym):
    """tuple(g(n) for n in shape): `value` is g applied to the generic element"""

    def __init__(self, src, elem, value):
        self.src, self.elem, self.value = src, elem, value


def tuple_model(ctx, it=()):
    if isinstance(it, LazyGen) and len(it.node.generators) == 1 and not it.node.generators[0].ifs:
        g = it.node.generators[0]
        src = it.interp.expr(g.iter, it.env)
        if isinstance(src, ShapeT):
            ctx.used_axioms.add('tuple(g(n) for n in shape) over a shape of unknown rank is the elementwise map of g (g evaluated once on a generic element)')
            e2 = Env(it.env)
            elem = ShapeElem(src)
            it.interp.assign(g.target, elem, e2)
            return MappedShape(src, elem, it.interp.expr(it.node.elt, e2))
    if isinstance(it, ShapeT):
        return it
    return ops.py_tuple(ctx, it)


class EvaluableStub:
    def sym_getattr(self, ctx, attr):
        if attr == 'Argument':
            return lambda ctx, nm, sh, dt=None: SObj('evaluable.Argument', attrs=dict(name=nm, shape=sh, dtype=dt))
        if attr == 'constant':
            return lambda ctx, v: ConstOf(v)
        raise Unsupported('evaluable.%s is not modelled in C13' % attr)


def make_argument2(ctx, nm, sh, dt=None, dtype=None):
    dt = dt if dt is not None else dtype
    if dt is None:
        dt = DTerm(DT_CONST[float], (type,))  # the default of function.Argument.__init__
    dt = dt_term(dt)
    if isinstance(sh, MappedShape) or not isinstance(sh, ShapeT):
        raise Unsupported('Argument shape %r' % (sh,))
    return FArr('Argument', sh, dt, no_spaces(), {nm: (sh, dt)}, classes=('Argument', 'Array'), name=nm)


def make_derivative(S):
    def construct(ctx, arg, var):
        def super_init(ctx, s, shape_, dtype_, spaces, arguments):
            s.attrs.update(shape=shape_, dtype=dt_term(dtype_), spaces=spaces, arguments=arguments)
            if isinstance(shape_, ShapeT):
                s.attrs['ndim'] = sh_ndim(shape_)
        obj = FArr.__new__(FArr)
        SObj.__init__(obj, '_Derivative', attrs={}, classes=('_Derivative', 'Array'), methods={'super().__init__': super_init})
        InlineFn('function:_Derivative.__init__')(ctx, obj, arg, var)
        S.made.append(obj)
        return obj
    return construct


class Other(Sym):
    """something that is neither a str nor an Argument"""

    def isinstance_(self, ctx, types):
        return False

    def pytype(self, ctx):
        class T:
            def sym_getattr(s, ctx, attr):
                return SOpaque('str')
        return T()

    def truth(self, ctx):
        return True


def base_globals(S):
    return {'Argument': ClassRef('Argument', construct=make_argument2), 'Array': ClassRef('Array', attrs={'cast': lambda ctx, x: x}),
            '_Derivative': ClassRef('_Derivative', construct=make_derivative(S)), '_join_arguments': InlineFn('function:_join_arguments'), '_dtypes': (),
            'evaluable': EvaluableStub(), 'tuple': tuple_model}


def dt_term(x):
    """a dtype value as a DTerm (the builtin types are the distinct constants)"""
    from pyvc.ops import Builtin
    if isinstance(x, Builtin) and x.type in DT_CONST:
        return DTerm(DT_CONST[x.type], (type,))
    return x


def table_clause(got, expected):
    """the announced table `got` (dict name -> (shape, dtype)) has exactly the entries `expected` = [(cond, name, shape term, dtype term)]"""
    if not isinstance(got, dict):
        raise Unsupported('announced arguments %r' % (got,))
    gotl = list(got.items())
    clauses = []
    for cond, nm, sh, dt in expected:
        hit = z3.Or(*[z3.And(gk.term == nm.term, gv[0].term == sh, gv[1].term == dt) for gk, gv in gotl]) if gotl else z3.BoolVal(False)
        clauses.append(z3.Implies(cond, hit))
    for gk, gv in gotl:
        clauses.append(z3.Or(*[z3.And(cond, gk.term == nm.term) for cond, nm, sh, dt in expected]))
    return z3.And(*clauses)


def function_array(cx, G):
    """the array f of setup_common with metadata the new contracts need (spaces as a set term, ndim)"""
    a = G['array']
    sp = SpacesT(cx.const('array.spaces', SPACES), (frozenset,))
    f = FArr('Array', a.attrs['shape'], a.attrs['dtype'], sp, a.attrs['arguments'])
    G['array'] = f
    return f


def argument_like(G, which):
    """rebuild the Argument objects of setup_common with set-valued spaces"""
    o = G[which]
    if isinstance(o, SObj) and 'Argument' in o.classes:
        G[which] = make_argument2(None, o.attrs['name'], o.attrs['shape'], o.attrs['dtype'])
    return G[which]


class Derivative(Contract):
    prop = PROP
    fn = 'function:derivative'
    bounded = BOUND
    direct = False

    def __init__(self, varkind):
        self.varkind = varkind
        self.label = 'var=%s' % varkind
        self.expect_return = varkind != 'other'

    def setup(self, cx):
        G = setup_common(cx, self.varkind if self.varkind != 'other' else 'name', 'name', 'dict')
        f = function_array(cx, G)
        var = argument_like(G, 'key') if self.varkind != 'other' else Other()
        S = State(G=G, made=[], var=var)
        S.globals = base_globals(S)
        if self.direct:
            construct = make_derivative(S)
            S.args = None
            S.run = lambda ctx: construct(ctx, f, var)
        else:
            S.args = (f, var)
        return S

    def must_reject(self, G):
        if self.varkind == 'other':
            return z3.BoolVal(True)
        if self.varkind == 'name':
            return z3.Not(G['inarr'])
        return z3.And(G['inarr'], z3.Or(G['ksh'].term != G['tsh'], G['kdt'].term != G['tdt']))

    def raises(self, cx, S, e):
        if e.exc == 'ValueError':
            return self.must_reject(S.G)
        return False

    def ensures(self, cx, S, result):
        G = S.G
        f = G['array']
        if not (isinstance(result, SObj) and '_Derivative' in result.classes and 'arguments' in result.attrs):
            raise Unsupported('derivative returned %r' % (result,))
        if self.varkind == 'name':
            vsh, vdt = G['tsh'], G['tdt']
        else:
            vsh, vdt = G['ksh'].term, G['kdt'].term
        n1, n2 = G['n']
        sh1, sh2 = G['sh']
        dt1, dt2 = G['dt']
        T = z3.BoolVal(True)
        out = [('accepted-only-if-consistent', z3.Not(self.must_reject(G)))]
        rs, rd, rp = result.attrs['shape'], dt_term(result.attrs['dtype']), result.attrs['spaces']
        if not (isinstance(rs, ShapeT) and isinstance(rd, STerm) and isinstance(rp, SpacesT)):
            raise Unsupported('announced shape/dtype/spaces %r %r %r' % (rs, rd, rp))
        out.append(('shape-is-f.shape+var.shape', rs.term == CONCAT(f.attrs['shape'].term, vsh)))
        out.append(('dtype-is-complex-for-a-complex-argument-else-that-of-f', rd.term == z3.If(vdt == DT_CONST[complex], DT_CONST[complex], f.attrs['dtype'].term)))
        out.append(('spaces-are-those-of-f', rp.term == f.attrs['spaces'].term))
        out.append(('announces-arguments-of-f-joined-with-var', table_clause(result.attrs['arguments'],
                    [(T, n1, sh1.term, dt1.term), (T, n2, sh2.term, dt2.term), (T, G['k'], vsh, vdt)])))
        ev = result.attrs.get('_eval_var')
        ok = isinstance(ev, SObj) and ev.clsname == 'evaluable.Argument' and isinstance(ev.attrs['name'], STerm) and isinstance(ev.attrs['dtype'], STerm) \
            and isinstance(ev.attrs['shape'], MappedShape) and isinstance(ev.attrs['shape'].value, ConstOf) and ev.attrs['shape'].value.arg is ev.attrs['shape'].elem
        if not ok:
            out.append(('differentiates-to-the-evaluable-argument-of-that-name-shape-dtype', z3.BoolVal(False)))
        else:
            out.append(('differentiates-to-the-evaluable-argument-of-that-name-shape-dtype',
                        z3.And(ev.attrs['name'].term == G['k'].term, ev.attrs['dtype'].term == vdt, ev.attrs['shape'].src.term == vsh)))
        return out

    def body(self, cx, S, call):
        if self.direct:
            return S.run(cx)
        return call(self.fn, *S.args)

    def replay(self, ob):
        return _script('derivative(%r)' % (self.varkind,))


class DerivativeInit(Derivative):
    """_Derivative.__init__ called directly with an Argument of ANY name (also one that f does not depend on)."""
    fn = 'function:_Derivative.__init__'
    direct = True

    def __init__(self):
        super().__init__('argument')
        self.label = None

    def must_reject(self, G):
        return z3.And(G['inarr'], z3.Or(G['ksh'].term != G['tsh'], G['kdt'].term != G['tdt']))


class ReplaceArguments(ReplaceInit):
    """the public wrapper: same announced table as _Replace.__init__, for every spelling; shape/dtype/spaces of f"""
    fn = 'function:replace_arguments'

    def setup(self, cx):
        S = super().setup(cx)
        selfobj, array, spec = S.args
        S.shape_etc = None

        def super_init(ctx, s, shape_, dtype_, spaces, arguments):
            S.captured = arguments
            S.shape_etc = (shape_, dtype_, spaces)
        selfobj.methods['super().__init__'] = super_init

        def construct(ctx, arg, replacements):
            InlineFn('function:_Replace.__init__')(ctx, selfobj, arg, replacements)
            return selfobj
        S.globals['_Replace'] = ClassRef('_Replace', construct=construct)
        S.args = (array, spec)
        return S

    def ensures(self, cx, S, result):
        if S.captured is None:
            return [('announced-arguments-are-unreplaced-plus-replacement-arguments', z3.BoolVal(False)), ('returns-the-_Replace-node-with-shape-dtype-spaces-of-f', z3.BoolVal(False))]
        out = super().ensures(cx, S, result)
        a = S.G['array']
        se = S.shape_etc
        out.append(('returns-the-_Replace-node-with-shape-dtype-spaces-of-f', z3.BoolVal(se is not None and se[0] is a.attrs['shape'] and se[1] is a.attrs['dtype'] and se[2] is a.attrs['spaces']
                                                                                          and isinstance(result, SObj) and result.clsname == '_Replace')))
        return out


class Linearize(Contract):
    """linearize(f, SPEC) for one specification item u:v in every spelling."""
    prop = PROP
    fn = 'function:linearize'
    bounded = BOUND

    def __init__(self, spelling, valkind, foreign=False):
        self.spelling, self.valkind, self.foreign = spelling, valkind, foreign
        self.label = '%s,value=%s%s' % (spelling, valkind, ',any-name' if foreign else '')

    def setup(self, cx):
        G = setup_common(cx, 'name', self.valkind, self.spelling)
        f = function_array(cx, G)
        if self.valkind == 'argument':
            argument_like(G, 'value')
        from contracts.C13 import build_spec
        spec = build_spec(cx, self.spelling, G['key'], G['value'])
        if not self.foreign:
            cx.assume(G['inarr'])  # see ASSUMPTIONS: a name that is no argument of f makes util.sum fail (candidate defect, parked contract)
        S = State(G=G, made=[])
        S.globals = base_globals(S)
        S.globals.update({'_argument_to_array': InlineFn('function:_argument_to_array'), 'derivative': InlineFn('function:derivative'),
                          'numpy': NumpyMeta(), 'util': UtilMeta()})
        S.args = (f, spec)
        return S

    def clash(self, G):
        """v names another argument of f with a different shape/dtype (or the replacement Argument disagrees with u)"""
        (n1, n2), (sh1, sh2), (dt1, dt2) = G['n'], G['sh'], G['dt']
        c = [z3.And(G['v'].term == n.term, z3.Or(sh.term != G['tsh'], dt.term != G['tdt'])) for n, sh, dt in ((n1, sh1, dt1), (n2, sh2, dt2))]
        if self.valkind == 'argument':
            c.append(z3.Or(G['vsh'].term != G['tsh'], G['vdt'].term != G['tdt']))
        return z3.And(G['inarr'], z3.Or(*c))

    def raises(self, cx, S, e):
        if e.exc == 'ValueError':
            return self.clash(S.G)
        return False

    def ensures(self, cx, S, result):
        G = S.G
        f = G['array']
        if not (isinstance(result, FArr)):
            raise Unsupported('linearize returned %r' % (result,))
        (n1, n2), (sh1, sh2), (dt1, dt2) = G['n'], G['sh'], G['dt']
        T = z3.BoolVal(True)
        return [('accepted-only-without-clash', z3.Not(self.clash(G))),
                ('shape-of-f', result.attrs['shape'].term == f.attrs['shape'].term),
                ('spaces-of-f', result.attrs['spaces'].term == f.attrs['spaces'].term),
                ('float-functional-of-float-argument-stays-float', z3.Implies(z3.And(f.attrs['dtype'].term == DT_CONST[float], G['tdt'] == DT_CONST[float]), result.attrs['dtype'].term == DT_CONST[float])),
                ('announces-arguments-of-f-plus-the-direction-with-shape-dtype-of-u', table_clause(result.attrs['arguments'],
                 [(T, n1, sh1.term, dt1.term), (T, n2, sh2.term, dt2.term), (T, G['v'], G['tsh'], G['tdt'])]))]

    def replay(self, ob):
        return _script('linearize(%r, %r)' % (self.spelling, self.valkind))


PARKED = [Linearize('dict', 'name', foreign=True), Linearize('str', 'name', foreign=True)]


def contracts():
    cs = [Derivative('name'), Derivative('argument'), Derivative('other'), DerivativeInit()]
    for spelling in ('dict', 'pairs', 'str', 'strs'):
        for valkind in ('name', 'array'):
            if spelling in ('str', 'strs') and valkind != 'name':
                continue
            cs.append(ReplaceArguments(spelling, valkind))
    for spelling in ('dict', 'pairs', 'str', 'strs'):
        for valkind in ('name', 'argument'):
            if spelling in ('str', 'strs') and valkind != 'name':
                continue
            cs.append(Linearize(spelling, valkind))
    return cs


# ---- function.field / dotarg: tuple shapes of fixed rank with symbolic lengths (bounded) ---------------------------------

class TArr(SObj):
    """function.Array with a shape of known rank (tuple of symbolic lengths).  transpose / `*` / numpy.sum(axis) /
    _append_axes follow the numpy shape rules (AXIOMS, see TRUSTED)."""

    def __init__(self, clsname, shape_, dtype_, arguments, classes=('Array',), **extra):
        super().__init__(clsname, attrs=dict(shape=tuple(shape_), dtype=dtype_, spaces=no_spaces(), arguments=arguments, ndim=len(shape_), **extra), classes=classes,
                         methods={'transpose': TArr._transpose})

    @staticmethod
    def _transpose(ctx, self, axes):
        axes = tuple(axes)
        n = len(self.attrs['shape'])
        if sorted(axes) != list(range(n)):
            raise PyRaise('ValueError', note='transpose%r of an array of rank %d' % (axes, n))
        return TArr('_Transpose', tuple(self.attrs['shape'][i] for i in axes), self.attrs['dtype'], dict(self.attrs['arguments']))

    def binop(self, ctx, op, other, reflected):
        if op != '*' or not isinstance(other, TArr):
            return NotImplemented
        a, b = (other, self) if reflected else (self, other)
        sa, sb = list(a.attrs['shape']), list(b.attrs['shape'])
        n = max(len(sa), len(sb))
        sa, sb = [1] * (n - len(sa)) + sa, [1] * (n - len(sb)) + sb
        out = []
        for x, y in zip(sa, sb):  # numpy broadcasting, axis by axis from the right-aligned shapes
            eq = ops.compare(ctx, '==', x, y)
            if ctx.branch(zbool(eq)):
                out.append(x)
            elif ctx.branch(zbool(ops.compare(ctx, '==', x, 1))):
                out.append(y)
            elif ctx.branch(zbool(ops.compare(ctx, '==', y, 1))):
                out.append(x)
            else:
                raise PyRaise('ValueError', note='cannot broadcast')
        da, db = a.attrs['dtype'], b.attrs['dtype']
        p = PROMOTE(da.term, db.term)
        ctx.assume(z3.Implies(da.term == db.term, p == da.term), axiom='function.multiply metadata for shapes of known rank: numpy broadcasting axis by axis (ValueError when two lengths differ and neither is 1), '
                   'dtype promotion, arguments = _join_arguments of the operands')
        arguments = InlineFn('function:_join_arguments')(ctx, [a.attrs['arguments'], b.attrs['arguments']])
        return TArr('_Wrapper', out, DTerm(p, (type,)), arguments)


class NumpyAxis:
    def sym_getattr(self, ctx, attr):
        if attr == 'sum':
            def np_sum(ctx, x, axis):
                if not (isinstance(x, TArr) and isinstance(axis, int) and not isinstance(axis, bool)):
                    raise Unsupported('numpy.sum(%r, %r)' % (x, axis))
                sh = list(x.attrs['shape'])
                if not -len(sh) <= axis < len(sh):
                    raise PyRaise('ValueError', note='axis out of range')
                del sh[axis]
                ctx.used_axioms.add('numpy.sum(function.Array, axis) removes that axis; dtype int/float/complex, arguments kept')
                return TArr('_Wrapper', sh, x.attrs['dtype'], dict(x.attrs['arguments']))
            return np_sum
        raise Unsupported('numpy.%s is not modelled in C13' % attr)


def append_axes(ctx, a, shape_):
    ctx.used_axioms.add('function._append_axes(a, shape) has shape a.shape + shape, dtype and arguments of a')
    return TArr('_Wrapper', tuple(a.attrs['shape']) + tuple(shape_), a.attrs['dtype'], dict(a.attrs['arguments']))


def make_argument_t(ctx, nm, sh, dt=None, dtype=None):
    dt = dt if dt is not None else dtype
    if dt is None:
        dt = DTerm(DT_CONST[float], (type,))
    dt = dt_term(dt)
    sh = tuple(sh)
    return TArr('Argument', sh, dt, {nm: (sh, dt)}, classes=('Argument', 'Array'), name=nm)


FIELD_CONFIGS = {'no-arrays,shape-rank-1': ((), 1), 'one-matrix,shape-rank-0': ((2,), 0), 'one-vector,shape-rank-1': ((1,), 1), 'two-matrices,shape-rank-1': ((2, 2), 1),
                 'vector-and-matrix,shape-rank-0': ((1, 2), 0)}


class Field(Contract):
    """field(name, *arrays, shape=, dtype=): the created argument has shape (arrays[0].shape[0], ..., arrays[-1].shape[0]) + shape and the given
    dtype; the result announces it together with the arguments of the arrays and has shape  shape + arrays[0].shape[1:] + ... + arrays[-1].shape[1:]."""
    prop = PROP
    fn = 'function:field'

    def __init__(self, config):
        self.config = config
        self.label = config
        self.bounded = 'arrays of ranks %r, extra shape of rank %d (symbolic lengths); each array has one argument' % FIELD_CONFIGS[config]

    def setup(self, cx):
        ranks, srank = FIELD_CONFIGS[self.config]
        nm = name(cx, 'field.name')
        dt = dtype(cx, 'field.dtype')
        extra = tuple(SInt(cx.int('shape%d' % i)) for i in range(srank))
        arrays = []
        for k, r in enumerate(ranks):
            sh = tuple(SInt(cx.int('array%d.shape%d' % (k, i))) for i in range(r))
            an, ash, adt = name(cx, 'array%d.argname' % k), (SInt(cx.int('array%d.arg.len' % k)),), dtype(cx, 'array%d.arg.dtype' % k)
            arrays.append(TArr('Array', sh, dtype(cx, 'array%d.dtype' % k), {an: (ash, adt)}))
        for v in list(extra) + [x for a in arrays for x in a.attrs['shape']] + [a.attrs['arguments'][k][0][0] for a in arrays for k in a.attrs['arguments']]:
            cx.assume(v.v >= 0)
        S = State(nm=nm, dt=dt, extra=extra, arrays=arrays)
        S.globals = {'Argument': ClassRef('Argument', construct=make_argument_t), 'numpy': NumpyAxis(), '_append_axes': append_axes, 'field': InlineFn('function:field'), '_dtypes': ()}
        S.args = (nm,) + tuple(arrays)
        S.kwargs = dict(shape=extra, dtype=dt)
        return S

    def field_shape(self, S):
        return tuple(a.attrs['shape'][0] for a in S.arrays) + tuple(S.extra)

    def clash(self, S):
        """an array depends on an argument of the field's name with another shape/dtype, or two arrays disagree"""
        fs = self.field_shape(S)
        entries = [(S.nm, fs, S.dt)] + [(k, v[0], v[1]) for a in S.arrays for k, v in a.attrs['arguments'].items()]
        cs = []
        for i in range(len(entries)):
            for j in range(i + 1, len(entries)):
                (n1, s1, d1), (n2, s2, d2) = entries[i], entries[j]
                same_shape = z3.And(*[x.v == y.v for x, y in zip(s1, s2)]) if len(s1) == len(s2) else z3.BoolVal(False)
                cs.append(z3.And(n1.term == n2.term, z3.Not(z3.And(same_shape, d1.term == d2.term))))
        return z3.Or(*cs) if cs else z3.BoolVal(False)

    def raises(self, cx, S, e):
        if e.exc == 'ValueError':
            return self.clash(S)
        return False

    def ensures(self, cx, S, result):
        if not isinstance(result, TArr):
            raise Unsupported('field returned %r' % (result,))
        fs = self.field_shape(S)
        want = tuple(S.extra) + tuple(x for a in S.arrays for x in a.attrs['shape'][1:])
        got = result.attrs['shape']
        shape_ok = z3.And(*[zint(x) == zint(y) for x, y in zip(got, want)]) if len(got) == len(want) else z3.BoolVal(False)
        table = result.attrs['arguments']
        hits = []
        for k, v in table.items():
            if len(v[0]) == len(fs):
                hits.append(z3.And(k.term == S.nm.term, v[1].term == S.dt.term, *[zint(x) == zint(y) for x, y in zip(v[0], fs)]))
        others = []
        for a in S.arrays:
            for k0, v0 in a.attrs['arguments'].items():
                others.append(z3.Or(*[z3.And(k.term == k0.term, v[1].term == v0[1].term, zint(v[0][0]) == zint(v0[0][0])) for k, v in table.items() if len(v[0]) == 1] or [z3.BoolVal(False)]))
        only = z3.And(*[z3.Or(k.term == S.nm.term, *[k.term == k0.term for a in S.arrays for k0 in a.attrs['arguments']]) for k in table])
        return [('accepted-only-without-clash', z3.Not(self.clash(S))),
                ('shape-is-shape+trailing-shapes-of-the-arrays', shape_ok),
                ('announces-the-field-argument-with-the-leading-lengths-of-the-arrays+shape-and-the-dtype', z3.Or(*hits) if hits else z3.BoolVal(False)),
                ('announces-the-arguments-of-the-arrays-and-nothing-else', z3.And(only, *others))]

    def replay(self, ob):
        return _script('field(%r)' % (self.fn.split(':')[1],))


class Dotarg(Field):
    fn = 'function:dotarg'


def field_contracts():
    return [Field(c) for c in FIELD_CONFIGS] + [Dotarg('two-matrices,shape-rank-1')]
