"""C14, part 6 -- System.step: time-step bisection retry logic (modular: the recursive calls are replaced by step's own contract).

Scenario: one trial 'u', suffix '0', timearg 't' (the system depends on 't'), no timesteparg; times are exact reals.
    time-advanced-by-exactly-timestep        result['t'] == arguments['t'] + timestep   (also when the step was bisected)
    solve-posed-on-the-interval              solve() sees t0 == arguments['t'], t == arguments['t'] + timestep, u0 == arguments['u']
    retry-only-after-solver-or-matrix-error  a bisection happens only after SolverError / MatrixError from solve, and only if maxretry > 0
    retried-with-half-steps-and-smaller-depth   both recursive calls get timestep/2 and maxretry-1; the second continues from the first's result
    other exceptions of solve propagate unchanged.

On the unchanged tree `time-advanced-by-exactly-timestep` FAILS and is reproduced natively: the retry passes the ALREADY ADVANCED
arguments (t + timestep) to the half steps, so a bisected step ends at t + 2*timestep.  The contract is therefore PARKED
(candidate defect, notes/C14-methods.md).
"""
import z3
from pyvc.contract import Contract, State
from pyvc.values import SInt, SReal, SObj, SOpaque, PyRaise, Unsupported, zint
from pyvc.interp import ExcClass
from pyvc.ops import ExcInstance
from contracts.c14_methods import _script

PROP = 'C14'


class Step(Contract):
    prop = PROP
    fn = 'solver:System.step'
    allow_raises = {'SolverError': True, 'MatrixError': True, 'ValueError': lambda cx, S, e: bool(getattr(e, 'note', None) == 'raised by solve') and not S.step_calls}
    bounded = 'one scenario: trial u, suffix 0, timearg t affecting the system, no timesteparg'

    def setup(self, cx):
        from contracts.C14 import Quiet
        S = State(solve_calls=[], step_calls=[], solve_raised=None)
        S.t, S.dt = cx.real('t'), cx.real('timestep')
        S.maxretry = cx.int('maxretry')
        S.u = SOpaque('u')

        def solve(ctx, s, arguments=None, **solveargs):
            S.solve_calls.append(dict(arguments))
            for name in ('SolverError', 'MatrixError', 'ValueError'):
                if ctx.branch(ctx.bool('solve.raises_' + name, report=False)):
                    S.solve_raised = name
                    raise PyRaise(name, payload=ExcInstance(name), note='raised by solve')
            return dict(arguments, u=SOpaque('u-solved'))

        def step(ctx, s, arguments=None, suffix=None, timearg=None, timesteparg=None, timestep=None, maxretry=None, **solveargs):
            # the contract of step itself, assumed for the smaller depth: advances the time of ITS arguments by ITS timestep, or raises
            S.step_calls.append(dict(arguments=dict(arguments), timestep=timestep, maxretry=maxretry, suffix=suffix, timearg=timearg, timesteparg=timesteparg, extra=solveargs))
            for name in ('SolverError', 'MatrixError'):
                if ctx.branch(ctx.bool('step.raises_' + name, report=False)):
                    raise PyRaise(name, payload=ExcInstance(name), note='raised by the recursive step')
            if not isinstance(arguments.get('t'), SReal) or not isinstance(timestep, SReal):
                raise Unsupported('recursive step without a time')
            out = dict(arguments, u=SOpaque('u-stepped'), u0=arguments.get('u'), t0=arguments['t'], t=SReal(arguments['t'].v + timestep.v))
            S.step_calls[-1]['out'] = out
            return out
        me = SObj('System', attrs=dict(trials=('u',), arguments=frozenset({'t', 'u'})), methods={'solve': solve, 'step': step})

        class MatrixMod:
            def sym_getattr(self, ctx, name):
                if name == 'MatrixError':
                    return ExcClass('MatrixError')
                raise Unsupported('matrix.' + name)
        S.args = (me,)
        S.kwargs = dict(arguments={'u': S.u, 't': SReal(S.t)}, suffix='0', timearg='t', timestep=SReal(S.dt), maxretry=SInt(S.maxretry))
        S.globals = {'log': Quiet(), 'matrix': MatrixMod()}
        return S

    def ensures(self, cx, S, result):
        if not isinstance(result, dict) or not isinstance(result.get('t'), SReal):
            return [('time-advanced-by-exactly-timestep', z3.BoolVal(False))]
        out = [('time-advanced-by-exactly-timestep', result['t'].v == S.t + S.dt)]
        first = S.solve_calls[0] if S.solve_calls else {}
        ok = isinstance(first.get('t'), SReal) and isinstance(first.get('t0'), SReal)
        out.append(('solve-posed-on-the-interval', z3.And(first['t0'].v == S.t, first['t'].v == S.t + S.dt, z3.BoolVal(first.get('u0') is S.u and first.get('u') is S.u)) if ok else z3.BoolVal(False)))
        if S.step_calls:
            out.append(('retry-only-after-solver-or-matrix-error', z3.And(z3.BoolVal(S.solve_raised in ('SolverError', 'MatrixError')), S.maxretry > 0)))
            c = S.step_calls
            good = len(c) == 2 and all(isinstance(x['timestep'], SReal) and x['suffix'] == '0' and x['timearg'] == 't' and x['timesteparg'] is None and not x['extra'] for x in c) \
                and c[1]['arguments'] == c[0].get('out') and result is c[1].get('out')
            out.append(('retried-with-half-steps-and-smaller-depth', z3.And(*[z3.And(x['timestep'].v == S.dt / 2, zint(x['maxretry']) == S.maxretry - 1) for x in c]) if good else z3.BoolVal(False)))
        return out

    def replay(self, ob):
        return _script('step(%r)' % (ob.clause,))


def contracts():
    return [Step()]


# failed on the pinned commit (time-advanced-by-exactly-timestep: a bisected step restarted from the already advanced time); repaired by a fix: commit
PARKED = []
ASSUMPTIONS = ['System.step: times are exact reals; solve returns its arguments with the trial replaced or raises; the recursive calls satisfy step\'s own contract']
NOT_COVERED = ['System.step: bounded scenario (one failing attempt per level, maxretry symbolic); termination of the bisection beyond maxretry is by the explicit counter']
