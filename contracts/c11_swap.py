"""C11 (item level) -- the swapup/swapdown methods of the real transform item classes satisfy A-SWAP, the item-level contract
the chain proofs (contracts/c11_chain.py) assume.

BOUNDED stand-in (native exhaustive enumeration, exact rational arithmetic on the real matrices; labelled bounded, never
counted as proved): every adjacent dimension-compatible pair (a, b) drawn from all chains of at most 3 child/edge transforms
of the line, square, cube, triangle, tetrahedron and prism references -- this covers SimplexEdge x SimplexChild for
ndims in {1,2,3}, all edges x all children, i.e. the whole `SimplexEdge.swap` table -- closed once under swapping
(ScaledUpdim/Identity pairs) and with plain Updim copies of the tensor edges.  For `recv.method(arg)` returning a pair (s0, s1):
    same-composed-map        linear and offset of s0 o s1 equal those of a o b  (Fractions of the float entries: exact)
    same-outer-dimensions    s0.todims == a.todims, s1.fromdims == b.fromdims, todims >= fromdims
    inner-dimensions-match   s0.fromdims == s1.todims
    only-updim-receiver-and-square-argument-swap
    same-orientation         isflipped(s0) ^ isflipped(s1) == isflipped(a) ^ isflipped(b)
    returns-none-or-pair     no exception, None or a 2-tuple
"""
from pyvc.native import NativeBounded

PROP = 'C11'
CLAUSES = ('returns-none-or-pair', 'same-composed-map', 'same-outer-dimensions', 'inner-dimensions-match',
           'only-updim-receiver-and-square-argument-swap', 'same-orientation')


class Swap(NativeBounded):
    prop = PROP
    module = 'c11'
    clauses = CLAUSES
    bounded = 'all adjacent pairs from chains of <= 3 child/edge transforms of line/square/cube/triangle/tetrahedron/prism references (simplex ndims 1..3: all edges x all children), closed once under swapping'

    def __init__(self, cls, method):
        self.fn = 'transform:%s.%s' % (cls, method)
        self.call = 'check_swaps(%r, %r)' % (method, cls)


def contracts():
    return [Swap(c, m) for c, m in (('SimplexEdge', 'swapup'), ('SimplexEdge', 'swapdown'), ('TensorEdge1', 'swapup'), ('TensorEdge1', 'swapdown'),
                                    ('TensorEdge2', 'swapup'), ('TensorEdge2', 'swapdown'), ('ScaledUpdim', 'swapup'), ('Updim', 'swapdown'))]
