"""C20 (extension) -- the operator methods and protocol hooks of SI.Quantity that do not go through a dispatch handler.

  fall-backs     Quantity.__array_ufunc__ / __array_function__ / __nutils_dispatch__ (real bodies): the result is EITHER
                 NotImplemented (on which numpy / nutils raise TypeError: the protocol, trusted) OR the return value of the
                 handler the dispatch table holds FOR THAT CALLABLE, called once with exactly the given inputs and keyword
                 arguments.  In particular an unregistered function, and a ufunc method other than __call__, never yield a
                 value (the dimension cannot be dropped silently).
  wrappers       _try_or_noimp turns DimensionError (only) into NotImplemented; _reverse swaps the operands.
  operators      the class-level operator table (`__add__ = partialmethod(...)`) routes every operator to the dispatch entry
                 of the SAME operator, reflected ones through _reverse (ground comparison with OPERATORS below).
  __truediv__    `q / 'unit'` returns the bare value divided by the value of the unit string parsed BY THE QUANTITY'S OWN
                 CLASS (so a unit of another dimension is rejected by Dimension.__call__, contract in C20.py); anything else
                 goes to the dispatch entry of operator.truediv.
  __bool__, __len__, __iter__   act on the wrapped value; iteration wraps every item in the quantity's own dimension.
"""
import ast, os
import z3
from pyvc.contract import Contract, State
from pyvc.core import Obligation
from pyvc.values import Sym, SBool, SInt, SReal, SObj, SOpaque, Unsupported, PyRaise, zbool
from pyvc.ops import ClassRef, Builtin
from pyvc import extract
from pyvc.bytesdom import SymSeq, MappedSeq

PROP = 'C20'
HERE = os.path.dirname(os.path.dirname(os.path.abspath(__file__)))


def native(call):
    return "import sys; sys.path.insert(0, %r)\nfrom native import c20\nc20.%s\n" % (HERE, call)


class Tok(Sym):
    """An opaque value (a callable, an input, a keyword value): identity only."""

    def __init__(self, name):
        self.name = name

    def compare(self, ctx, op, other, reflected):
        if op in ('==', '!='):
            return (other is self) == (op == '==')
        return NotImplemented

    def truth(self, ctx):
        return True

    def isinstance_(self, ctx, types):
        return False

    def __repr__(self):
        return 'Tok(%s)' % self.name


class Call(Sym):
    """The value returned by calling a recorded callable."""

    def __init__(self, f, args, kwargs):
        self.f, self.args, self.kwargs = f, tuple(args), dict(kwargs)

    def truth(self, ctx):
        return True


class Recorder(Tok):
    def __init__(self, name, outcome='return'):
        super().__init__(name)
        self.calls = []
        self.outcome = outcome

    def call(self, ctx, args, kwargs):
        c = Call(self, args, kwargs)
        self.calls.append(c)
        if self.outcome != 'return':
            raise PyRaise(self.outcome)
        return c


class Table(Sym):
    """Quantity.__DISPATCH_TABLE: `registered` says whether the callable `func` has an entry (its handler)."""

    def __init__(self, func, registered, handler):
        self.func, self.registered, self.handler = func, registered, handler

    def getattr(self, ctx, name):
        if name == 'get':
            def get(ctx, key, default=None):
                if key is not self.func:
                    return default  # another key: by construction of the scenario it has no entry
                if ctx.branch(self.registered):
                    return self.handler
                return default
            return get
        raise Unsupported('dispatch table .' + name)

    def getitem(self, ctx, key):
        if key is self.func and ctx.branch(self.registered):
            return self.handler
        raise PyRaise('KeyError')


class MethodName(Sym):
    """The `method` argument of __array_ufunc__: a str that is or is not '__call__'."""

    def __init__(self, is_call):
        self.is_call = is_call

    def compare(self, ctx, op, other, reflected):
        if op in ('==', '!=') and other == '__call__':
            return SBool(self.is_call if op == '==' else z3.Not(self.is_call))
        raise Unsupported('comparison of the ufunc method name with %r' % (other,))

    def isinstance_(self, ctx, types):
        return str in types


class Fallback(Contract):
    prop = PROP

    def __init__(self, which):
        self.which = which
        self.fn = 'SI:Quantity.' + which

    def setup(self, cx):
        S = State()
        S.func = Recorder('func')  # the numpy / nutils callable itself: calling IT (instead of its handler) drops the dimension rule
        S.handler = Recorder('handler')
        S.registered = cx.bool('registered')
        S.is_call = cx.bool('method_is___call__') if self.which == '__array_ufunc__' else z3.BoolVal(True)
        table = Table(S.func, S.registered, S.handler)
        me = SObj('Quantity', attrs={'__DISPATCH_TABLE': table, '_Quantity__DISPATCH_TABLE': table}, classes=('Quantity',))
        S.inputs = (Tok('input0'), Tok('input1'))
        S.kw = {'out': Tok('kw.out'), 'axis': Tok('kw.axis')}
        if self.which == '__array_ufunc__':
            S.args = (me, S.func, MethodName(S.is_call), *S.inputs)
            S.kwargs = dict(S.kw)
        elif self.which == '__array_function__':
            S.args = (me, S.func, (Tok('type0'),), S.inputs, dict(S.kw))
        else:
            S.args = (me, S.func, S.inputs, dict(S.kw))
        return S

    def ensures(self, cx, S, result):
        dispatched = z3.And(S.registered, S.is_call)
        if result is NotImplemented:
            return [('value-only-from-the-registered-handler', z3.Not(dispatched))]
        ok = isinstance(result, Call) and result.f is S.handler and len(S.handler.calls) == 1 \
            and len(result.args) == len(S.inputs) and all(a is b for a, b in zip(result.args, S.inputs)) \
            and set(result.kwargs) == set(S.kw) and all(result.kwargs[k] is S.kw[k] for k in S.kw)
        return [('value-only-from-the-registered-handler', z3.And(dispatched, z3.BoolVal(ok)))]

    def replay(self, ob):
        return native('fallback_check()')


class TryOrNoimp(Contract):
    prop = PROP
    fn = 'SI:_try_or_noimp'

    def __init__(self, outcome):
        self.outcome = outcome
        self.label = 'func-' + ('returns' if outcome == 'return' else 'raises-' + outcome)
        self.expect_return = outcome in ('return', 'DimensionError')

    def setup(self, cx):
        S = State(me=Tok('self'), other=Tok('other'), func=Recorder('func', self.outcome))
        S.args = (S.me, S.func, S.other)
        return S

    def raises(self, cx, S, e):
        return e.exc == self.outcome and self.outcome != 'DimensionError'

    def ensures(self, cx, S, result):
        called = len(S.func.calls) == 1 and len(S.func.calls[0].args) == 2 and S.func.calls[0].args[0] is S.me and S.func.calls[0].args[1] is S.other
        if self.outcome == 'return':
            return [('result-of-func(self,other)', z3.BoolVal(called and result is S.func.calls[0]))]
        if self.outcome != 'DimensionError':
            return [('other-exceptions-propagate', z3.BoolVal(False))]  # func raised %s: returning anything swallows it
        return [('DimensionError-becomes-NotImplemented', z3.BoolVal(called and result is NotImplemented))]

    def replay(self, ob):
        return native('operators_check()')


class Reverse(Contract):
    prop = PROP
    fn = 'SI:_reverse'

    def setup(self, cx):
        S = State(me=Tok('self'), other=Tok('other'), func=Recorder('func'))
        S.args = (S.me, S.func, S.other)
        return S

    def ensures(self, cx, S, result):
        c = S.func.calls
        return [('func(other,self)', z3.BoolVal(len(c) == 1 and result is c[0] and len(c[0].args) == 2 and c[0].args[0] is S.other and c[0].args[1] is S.me))]

    def replay(self, ob):
        return native('operators_check()')


# ---- quantities as (dimension, value) ---------------------------------------------------------------------------------

class Payload(Tok):
    """The wrapped value of a quantity: symbolic truth value and length; a sequence of opaque items."""

    def __init__(self, cx, name):
        super().__init__(name)
        self.t = cx.bool(name + '.truth')
        self.n = cx.int('len(%s)' % name)
        cx.assume(self.n >= 0)
        self.item = z3.Function('item!' + name, z3.IntSort(), z3.IntSort())

    def truth(self, ctx):
        return self.t

    def length(self, ctx):
        return SInt(self.n)

    def seq_len(self, ctx):
        return self.n

    def seq_at(self, ctx, j):
        return Item(self, j)


class Item(Sym):
    def __init__(self, src, j):
        self.src, self.j = src, j


class QCls(Tok):
    """type(q): a dimensional Dimension class; wrap(v) gives a quantity of this class (contract of Dimension.wrap)."""

    def getattr(self, ctx, name):
        if name == 'wrap':
            return lambda ctx, v: Wrapped(self, v)
        raise Unsupported('Dimension.' + name)


class Wrapped(Sym):
    def __init__(self, cls, value):
        self.cls, self.value = cls, value


class QObj(SObj):
    def __init__(self, cls, value):
        super().__init__('Quantity', attrs={'__value': value, '_Quantity__value': value, '__class__': cls}, classes=('Quantity',))
        self.cls, self.value = cls, value

    def pytype(self, ctx):
        return self.cls


class Simple(Contract):
    """__bool__ / __len__ / __iter__"""
    prop = PROP

    def __init__(self, which):
        self.which = which
        self.fn = 'SI:Quantity.' + which

    def setup(self, cx):
        S = State(cls=QCls('type(self)'))
        S.v = Payload(cx, 'value')
        S.args = (QObj(S.cls, S.v),)
        S.globals = {'iter': lambda ctx, x: x if hasattr(x, 'seq_len') else _unsupported('iter(%r)' % (x,)), 'Dimensionless': QCls('Dimensionless')}
        return S

    def ensures(self, cx, S, result):
        if self.which == '__bool__':
            return [('truth-of-the-value', zbool(result.b if isinstance(result, SBool) else result) == S.v.t)]
        if self.which == '__len__':
            return [('length-of-the-value', (result.v if isinstance(result, SInt) else z3.IntVal(result)) == S.v.n)]
        # __iter__: one wrapped item per item of the value, in order, all of the quantity's own class
        if hasattr(result, 'as_mapped'):
            result = result.as_mapped(cx) or result
        if result is S.v:
            return [('every-item-wrapped-in-the-own-dimension', z3.BoolVal(False))]  # the bare items
        if not isinstance(result, MappedSeq):
            raise Unsupported('__iter__ did not return a map / generator over the value')
        j = z3.Int('j!iter')
        x = result.seq_at(cx, j)
        ok = isinstance(x, Wrapped) and x.cls is S.cls and isinstance(x.value, Item) and x.value.src is S.v and x.value.j is j
        return [('every-item-wrapped-in-the-own-dimension', z3.And(result.seq_len(cx) == S.v.n, z3.BoolVal(ok)))]

    def replay(self, ob):
        return native('simple_check()')


def _unsupported(what):
    raise Unsupported(what)


class TrueDiv(Contract):
    prop = PROP
    fn = 'SI:Quantity.__truediv__'

    def __init__(self, other):
        self.other = other  # 'str-same-dimension' | 'str-other-dimension' | 'quantity'
        self.label = 'other=' + other
        self.expect_return = other != 'str-other-dimension'

    def setup(self, cx):
        S = State()
        S.v = SReal(cx.real('self.value'))
        S.u = SReal(cx.real('unit.value'))
        S.calls = []

        class Cls(Tok):
            def call(s, ctx, args, kwargs):
                # Dimension.__call__ (contract CallCheck in C20.py): a quantity of THIS class or DimensionError
                S.calls.append(args)
                if self.other == 'str-other-dimension':
                    raise PyRaise('DimensionError')
                return QObj(s, S.u)
        S.cls = Cls('type(self)')
        me = QObj(S.cls, S.v)
        S.disp = Recorder('dispatch[operator.truediv]')
        me.attrs['__truediv'] = S.disp
        me.attrs['_Quantity__truediv'] = S.disp
        for other_route in ('__rtruediv__', '__mul__', '__rmul__'):
            me.attrs[other_route] = Recorder('self.' + other_route)
        # module-level parse(): a quantity of whatever dimension the string spells, WITHOUT a check against type(self)
        S.globals = {'parse': lambda ctx, s: QObj(S.cls if self.other == 'str-same-dimension' else Tok('another class'), S.u), 'Quantity': ClassRef('Quantity')}
        if self.other.startswith('str'):
            S.o = UnitStr()
        else:
            S.o = Tok('other')
            S.o.pytype = lambda ctx: ClassRef('Quantity')
        S.args = (me, S.o)
        return S

    def raises(self, cx, S, e):
        if e.exc == 'ZeroDivisionError' and self.other == 'str-same-dimension':
            return S.u.v == 0  # a unit of value zero cannot be divided by: raising is the only sound outcome
        return e.exc == 'DimensionError' and self.other == 'str-other-dimension'

    def ensures(self, cx, S, result):
        if self.other == 'quantity':
            c = S.disp.calls
            return [('dispatched-to-operator.truediv', z3.BoolVal(len(c) == 1 and result is c[0] and len(c[0].args) == 1 and c[0].args[0] is S.o and not S.calls))]
        if self.other == 'str-other-dimension':
            return [('unit-of-another-dimension-rejected', z3.BoolVal(False))]
        ok = len(S.calls) == 1 and len(S.calls[0]) == 1 and S.calls[0][0] is S.o and isinstance(result, SReal)
        return [('bare-value-in-the-given-unit', z3.And(z3.BoolVal(ok), (result.v if ok else 0) == S.v.v / S.u.v))]

    def replay(self, ob):
        return native('truediv_check()')


class UnitStr(Sym):
    def pytype(self, ctx):
        return Builtin('str')

    def isinstance_(self, ctx, types):
        return str in types


# ---- operator table -----------------------------------------------------------------------------------------------------

def _op(name, op, noimp=True, rev=False):
    t = '__DISPATCH_TABLE[operator.%s]' % op
    if rev:
        t = '_reverse, ' + t
    if noimp:
        t = '_try_or_noimp, ' + t
    return name, 'partialmethod(%s)' % t


OPERATORS = dict([
    _op('__getitem__', 'getitem', noimp=False), _op('__setitem__', 'setitem', noimp=False), _op('__neg__', 'neg', noimp=False),
    _op('__pos__', 'pos', noimp=False), _op('__abs__', 'abs', noimp=False),
    _op('__lt__', 'lt'), _op('__le__', 'le'), _op('__eq__', 'eq'), _op('__ne__', 'ne'), _op('__gt__', 'gt'), _op('__ge__', 'ge'),
    _op('__add__', 'add'), _op('__radd__', 'add', rev=True), _op('__sub__', 'sub'), _op('__rsub__', 'sub', rev=True),
    _op('__mul__', 'mul'), _op('__rmul__', 'mul', rev=True), _op('__matmul__', 'matmul'), _op('__rmatmul__', 'matmul', rev=True),
    _op('__truediv', 'truediv'), _op('__rtruediv__', 'truediv', rev=True), _op('__mod__', 'mod'), _op('__rmod__', 'mod', rev=True),
    _op('__pow__', 'pow'), _op('__rpow__', 'pow', rev=True),
])


def operator_table():
    cls = extract.get_class('SI', 'Quantity')
    got = {}
    for n in cls.body:
        if isinstance(n, ast.Assign) and len(n.targets) == 1 and isinstance(n.targets[0], ast.Name) and isinstance(n.value, ast.Call) \
                and isinstance(n.value.func, ast.Name) and n.value.func.id == 'partialmethod':
            got.setdefault(n.targets[0].id, []).append(ast.unparse(n.value))
    return got


# @nutils_dispatch functions that are deliberately not registered: their body only uses dimension-aware operators
DISPATCH_UNREGISTERED_OK = {'function.mean': '.5 * (arg + opposite(arg)): add-like, opposite (unary) and a scalar factor'}


def dispatched_functions():
    out = []
    for module in ('function', 'sample', 'topology'):
        src, tree = extract.module_ast(module)
        for n in ast.walk(tree):
            if isinstance(n, ast.ClassDef):
                for f in n.body:
                    if isinstance(f, ast.FunctionDef) and any('nutils_dispatch' in ast.unparse(d) for d in f.decorator_list):
                        out.append('%s.%s.%s' % (module, n.name, f.name))
        for f in tree.body:
            if isinstance(f, ast.FunctionDef) and any('nutils_dispatch' in ast.unparse(d) for d in f.decorator_list):
                out.append('%s.%s' % (module, f.name))
    return out


def extra_obligations():
    got = operator_table()
    obs = []
    from contracts import C20
    registered = C20.registration_table()
    try:
        dispatched = dispatched_functions()
    except extract.NotFound:
        dispatched = []  # the ledger then reports the missing clauses as undecided
    for name in sorted(set(dispatched) | set(DISPATCH_UNREGISTERED_OK)):
        ok = (name in registered) != (name in DISPATCH_UNREGISTERED_OK)
        ob = Obligation('C20/SI:Quantity.register/dispatch-coverage/%s' % name, [], z3.BoolVal(ok), 'ground', fn='SI:Quantity.register', clause='dispatch-coverage:' + name,
                        info={'registered': name in registered, 'reviewed_unregistered': DISPATCH_UNREGISTERED_OK.get(name)})
        ob.replay_script = native('fallback_check()')
        obs.append(ob)
    for name in sorted(set(OPERATORS) | set(got)):
        want = OPERATORS.get(name)
        have = got.get(name, [])
        ok = have == [ast.unparse(ast.parse(want, mode='eval'))] if want else False
        ob = Obligation('C20/SI:Quantity.operators/table/%s' % name, [], z3.BoolVal(ok), 'ground', fn='SI:Quantity.operators', clause='operator:' + name,
                        info={'expected': want, 'found': have})
        ob.replay_script = native('operators_check()')
        obs.append(ob)
    return obs


def contracts():
    cs = [Fallback('__array_ufunc__'), Fallback('__array_function__'), Fallback('__nutils_dispatch__')]
    cs += [TryOrNoimp('return'), TryOrNoimp('DimensionError'), TryOrNoimp('ValueError'), TryOrNoimp('TypeError'), Reverse()]
    cs += [Simple('__bool__'), Simple('__len__'), Simple('__iter__')]
    cs += [TrueDiv('str-same-dimension'), TrueDiv('str-other-dimension'), TrueDiv('quantity')]
    return cs


TRUSTED = ['numpy (NEP 13/18) raises TypeError when every __array_ufunc__/__array_function__ returns NotImplemented, '
           'and Python raises TypeError when a binary operator method and its reflection both return NotImplemented',
           '_util.nutils_dispatch: when __nutils_dispatch__ returns NotImplemented the ORIGINAL function is applied to the still-wrapped Quantity (nothing is '
           'unwrapped in SI.py on that route); every @nutils_dispatch function of function/sample/topology must therefore be registered or be on the '
           'reviewed list DISPATCH_UNREGISTERED_OK (ground obligations `dispatch-coverage`)',
           'functools.partialmethod(f, a, b) binds method(self, *args) to f(self, a, b, *args); partial(handler, op) prepends op']
ASSUMPTIONS = ['a Quantity instance belongs to a dimensional class (Dimension.wrap returns the bare value for the dimensionless class, contract in C20.py)',
               'the dispatch table is read-only after class creation (`del register`)']
