"""C12 (second round, part 2) -- the constructors establish the class invariants the method contracts assume.

Every constructor is run from its real source on symbolic tables; `super().__init__(ndofs, nelems, index, coords)` (Basis.__init__)
is an external that records its arguments.  The postcondition is the invariant text of contracts/C12_bases.py / C12_inverse.py.

DiscontBasis.__init__     _offsets[0] == 0, _offsets[e+1] == _offsets[e] + rows(e); Basis gets ndofs = _offsets[-1], nelems = len(coefficients);
                          AssertionError exactly when some table is not 2-D
PlainBasis.__init__       returns  <=>  as many dof arrays as coefficient tables, every table 2-D, rows(e) == len(dofs[e]) for every e
                          (AssertionError otherwise); tables stored in order; Basis gets (ndofs, len(coefficients)).
                          NOT established (and not checked by the constructor): dofs in [0, ndofs) -- stays an assumption of the callers
MaskedBasis.__init__      returns  <=>  indices 1-D, strictly increasing, within [0, len(parent))  (ValueError otherwise);
                          _renumber[indices[i]] == i, == len(indices) elsewhere, length parent.ndofs; Basis gets (len(indices), parent.nelems)
PrunedBasis.__init__      _dofmap = parent.get_dofs(transmap) (by the _int_or_vec contract: strictly increasing, exactly the dofs of the
                          selected parent elements); _renumber its inverse map with missing = len(_dofmap); Basis gets (len(_dofmap), len(transmap))
StructuredBasis.__init__  (bounded axes 1..3) _ndofs[i][e] == stop[i][e] - start[i][e]; tables stored per axis in order;
                          Basis gets ndofs = prod dofs_shape, nelems = prod transforms_shape
"""
import z3
from pyvc.contract import Contract, State
from pyvc.values import SInt, SBool, SObj, SOpaque, Sym, Unsupported, PyRaise, zint, zbool, is_intlike
from pyvc.nparr import Vec, SList, Numpy, qforall, qexists, I
from pyvc.interp import LazyGen
from pyvc import npsets, ops
from contracts.C12_support import Numeric, PROP, HERE, sym_tuple

B = z3.BoolSort()


def native(call):
    return "import sys; sys.path.insert(0, %r)\nfrom native import c12c\nc12c.%s\n" % (HERE, call)


class Table(Sym):
    """an array of a coefficient / dof table: ndim and shape[0] symbolic (functions of the element), contents opaque"""

    def __init__(self, tab, e):
        self.tab, self.e = tab, e

    def getattr(self, ctx, name):
        if name == 'ndim':
            return SInt(self.tab.NDIM(self.e))
        if name == 'shape':
            return (SInt(self.tab.ROWS(self.e)), SOpaque('trailing-shape'))
        raise Unsupported('table array .%s' % name)

    def length(self, ctx):
        return SInt(self.tab.ROWS(self.e))


class TableSeq(Sym):
    """a sequence of n arrays (tuple/list given by the caller)"""

    def __init__(self, cx, name, n=None, ndim=None):
        self.name = name
        self.n = cx.int('len(%s)' % name) if n is None else n
        cx.assume(self.n >= 0)
        self.NDIM = (lambda e: z3.IntVal(ndim)) if ndim is not None else z3.Function(name + '.ndim', I, I)
        self.ROWS = z3.Function(name + '.rows', I, I)
        cx.assume(qforall(1, lambda e: self.ROWS(e) >= 0))

    def seq_len(self, ctx):
        return self.n

    def seq_at(self, ctx, e):
        return Table(self, e)

    def length(self, ctx):
        return SInt(self.n)


def same_seq(seq, tab):
    """`seq` (tuple(...) of a mapped TableSeq) holds the arrays of `tab` in order"""
    if not hasattr(seq, 'seq_at'):
        return z3.BoolVal(False)
    j = z3.Int('j!same')
    x = seq.seq_at(None, j)
    if not (isinstance(x, Table) and x.tab is tab):
        return z3.BoolVal(False)
    return z3.And(seq.seq_len(None) == tab.n, qforall(1, lambda i: z3.substitute(x.e, (j, i)) == i))


def sym_all(ctx, it):
    """all(<generator over a symbolic-length sequence>): the universally quantified element condition (evaluated once at a fresh index)"""
    if isinstance(it, LazyGen):
        m = it.as_mapped(ctx)
        if m is not None:
            n = m.seq_len(ctx)
            j = z3.Int(ctx.name('j!all'))
            from pyvc.values import NeedFork
            try:
                with ctx.interp._pure(z3.And(0 <= j, j < n)):
                    t = ops.truth(ctx, m.seq_at(ctx, j))
            except NeedFork:
                raise Unsupported('all() over a sequence of symbolic length: the element condition forks')
            if isinstance(t, bool):
                return SBool(z3.Or(n <= 0, z3.BoolVal(t)))
            body = zbool(t)
            return SBool(qforall(1, lambda i: z3.Implies(z3.And(0 <= i, i < n), z3.substitute(body, (j, i)))))
    from pyvc.interp import _lazy_all
    return _lazy_all(ctx, it)


class ZipSeq(Sym):
    def __init__(self, a, b):
        self.a, self.b = a, b

    def seq_len(self, ctx):
        la, lb = self.a.seq_len(ctx), self.b.seq_len(ctx)
        return z3.If(la <= lb, la, lb)

    def seq_at(self, ctx, i):
        return (self.a.seq_at(ctx, i), self.b.seq_at(ctx, i))


def sym_zip(ctx, *its):
    if len(its) == 2 and all(hasattr(x, 'seq_at') and not isinstance(x, (list, tuple)) for x in its):
        return ZipSeq(*its)
    return ops.py_zip(ctx, *its)


class Types:
    def sym_getattr(self, ctx, name):
        if name in ('arraydata', 'frozenarray'):
            def ident(ctx, x, dtype=None, copy=True):
                if isinstance(x, (Table, Vec)):
                    return x
                raise Unsupported('types.%s of %r' % (name, x))
            return ident
        raise Unsupported('types.' + name)


def asarray_table(ctx, x, dtype=None):
    if isinstance(x, (Table, Vec)):
        return x
    raise Unsupported('numpy.asarray of %r' % (x,))


class CtorContract(Contract):
    prop = PROP

    def me(self, S, cls, **attrs):
        S.super_args = []

        def super_init(ctx, s, *a, **k):
            S.super_args.append((a, k))
        return SObj(cls, attrs=attrs, methods={'super().__init__': super_init})

    def super_clause(self, S, ndofs, nelems):
        if len(S.super_args) != 1 or S.super_args[0][1] or len(S.super_args[0][0]) != 4:
            return z3.BoolVal(False)
        a = S.super_args[0][0]
        if not (is_intlike(a[0]) and is_intlike(a[1])):
            return z3.BoolVal(False)
        return z3.And(zint(a[0]) == ndofs, zint(a[1]) == nelems, z3.BoolVal(a[2] is S.index and a[3] is S.coords))


def sym_tuple2(ctx, it=()):
    if hasattr(it, 'seq_at') and not isinstance(it, (list, tuple, LazyGen)):
        return it  # tuple(map(f, <symbolic sequence>)): the mapped sequence
    return sym_tuple(ctx, it)


BASE_GLOBALS = lambda: {'types': Types(), 'tuple': sym_tuple2, 'all': sym_all, 'zip': sym_zip}


class DiscontInit(CtorContract):
    fn = 'function:DiscontBasis.__init__'

    def setup(self, cx):
        tab = TableSeq(cx, 'coefficients')
        S = State(tab=tab, index=SOpaque('index'), coords=SOpaque('coords'))
        me = self.me(S, 'DiscontBasis')
        S.me = me
        S.args = (me, tab, S.index, S.coords)
        S.globals = dict(BASE_GLOBALS(), numpy=Numpy())
        return S

    def raises(self, cx, S, e):
        if e.exc.split(':')[0] != 'AssertionError':
            return False
        return qexists(1, lambda e_: z3.And(0 <= e_, e_ < S.tab.n, S.tab.NDIM(e_) != 2))

    def ensures(self, cx, S, result):
        tab, me = S.tab, S.me
        off = me.attrs.get('_offsets')
        if not (isinstance(off, Vec) and off.kind == 'int'):
            return [('offsets-stored', z3.BoolVal(False))]
        ne = tab.n
        return [('offsets-stored', z3.BoolVal(True)),
                ('every-table-is-two-dimensional', qforall(1, lambda e: z3.Implies(z3.And(0 <= e, e < ne), tab.NDIM(e) == 2))),
                ('coefficient-tables-stored-in-order', same_seq(me.attrs.get('_coeffs'), tab)),
                ('offsets-are-the-cumulative-row-counts', z3.And(off.n == ne + 1, off.sel(z3.IntVal(0)) == 0,
                                                               qforall(1, lambda e: z3.Implies(z3.And(0 <= e, e < ne), off.sel(e + 1) == off.sel(e) + tab.ROWS(e))))),
                ('basis-initialised-with-ndofs-and-nelems', self.super_clause(S, off.sel(ne), ne))]

    def replay(self, ob):
        return native('run_ctor("DiscontBasis")')


class PlainInit(CtorContract):
    fn = 'function:PlainBasis.__init__'

    def setup(self, cx):
        ctab = TableSeq(cx, 'coefficients')
        dtab = TableSeq(cx, 'dofs', ndim=1)
        nd = cx.int('ndofs')
        S = State(ctab=ctab, dtab=dtab, nd=nd, index=SOpaque('index'), coords=SOpaque('coords'))
        me = self.me(S, 'PlainBasis')
        S.me = me
        S.args = (me, ctab, dtab, SInt(nd), S.index, S.coords)
        S.globals = dict(BASE_GLOBALS(), numpy=Numpy(extra={'asarray': asarray_table}), map=lambda ctx, f, *its: __import__('pyvc.interp', fromlist=['_map'])._map(ctx, f, *its))
        return S

    def good(self, S):
        c, d = S.ctab, S.dtab
        return z3.And(c.n == d.n, qforall(1, lambda e: z3.Implies(z3.And(0 <= e, e < c.n), z3.And(c.NDIM(e) == 2, c.ROWS(e) == d.ROWS(e)))))

    def raises(self, cx, S, e):
        if e.exc.split(':')[0] != 'AssertionError':
            return False
        return z3.Not(self.good(S))

    def ensures(self, cx, S, result):
        me = S.me
        return [('as-many-rows-as-dofs-per-element', self.good(S)),
                ('coefficient-tables-stored-in-order', same_seq(me.attrs.get('_coeffs'), S.ctab)),
                ('dof-arrays-stored-in-order', same_seq(me.attrs.get('_dofs'), S.dtab)),
                ('basis-initialised-with-ndofs-and-nelems', self.super_clause(S, S.nd, S.ctab.n))]

    def replay(self, ob):
        return native('run_ctor("PlainBasis")')


# ------------------------------------------------------------------------------------------------------------ Masked

def np_diff(ctx, a):
    if not (isinstance(a, Vec) and a.kind == 'int'):
        raise Unsupported('numpy.diff variant')
    s = a.frozen_sel()
    return Vec('int', z3.If(a.n > 0, a.n - 1, 0), lambda i: s(i + 1) - s(i), 'diff(%s)' % a.name)


def _np_cmp(name, f):
    def cmp(ctx, a, b, out=None):
        if isinstance(a, Vec) and a.kind == 'int' and is_intlike(b) and out is None:
            sa, e = a.frozen_sel(), zint(b)
            return Vec('bool', a.n, lambda i: f(sa(i), e), name)
        return getattr(Numpy(), 'np_' + name)(ctx, a, b, out=out)
    return cmp


CMP = {'greater': _np_cmp('greater', lambda x, y: x > y), 'greater_equal': _np_cmp('greater_equal', lambda x, y: x >= y),
       'less': _np_cmp('less', lambda x, y: x < y), 'less_equal': _np_cmp('less_equal', lambda x, y: x <= y)}


def np_all(ctx, a):
    if isinstance(a, Vec):
        return a._all(ctx)
    raise Unsupported('numpy.all of %r' % (a,))


class NumericInv(Numeric):
    def sym_getattr(self, ctx, name):
        if name == 'invmap':
            from pyvc import extract
            return lambda ctx, *a, **k: ctx.interp.call_function(extract.get('numeric:invmap').node, list(a), k)
        return super().sym_getattr(ctx, name)


def np_full(ctx, shape, value, dtype=None):
    if is_intlike(value) and is_intlike(shape) and dtype is None:
        return Vec.const('int', zint(shape), value)
    raise Unsupported('numpy.full variant')


class EvalConst:
    def sym_getattr(self, ctx, name):
        if name == 'constant':
            return lambda ctx, x: x
        raise Unsupported('evaluable.' + name)


class IndexArr(Vec):
    def getattr(self, ctx, name):
        if name == 'ndim':
            return 1
        return super().getattr(ctx, name)


class MaskedInit(CtorContract):
    fn = 'function:MaskedBasis.__init__'

    def __init__(self, twod=False):
        self.twod = twod
        if twod:
            self.label = 'indices-not-1d'
            self.expect_return = False

    def setup(self, cx):
        pnd, pne = cx.int('parent.ndofs'), cx.int('parent.nelems')
        cx.assume(z3.And(pnd >= 0, pne >= 0))
        S = State(pnd=pnd, pne=pne, index=SOpaque('index'), coords=SOpaque('coords'))

        class Parent(SObj):
            def length(self, ctx):
                return SInt(pnd)
        parent = Parent('Basis', attrs=dict(ndofs=SInt(pnd), nelems=SInt(pne), index=S.index, coords=S.coords))
        if self.twod:
            ind = SObj('ndarray', attrs=dict(ndim=2))
        else:
            ind = Vec.fresh(cx, 'indices', 'int', probes=3)
            from pyvc import lemmas
            lemmas.strict_gap(cx, ind)  # the constructor tests ADJACENT entries and the two ends; L-MONO-GAP makes that global
        S.ind, S.parent = ind, parent
        me = self.me(S, 'MaskedBasis')
        S.me = me
        S.args = (me, parent, ind)

        class TypesM:
            def sym_getattr(self, ctx, name):
                if name == 'frozenarray':
                    return lambda ctx, x, dtype=None, copy=True: x
                raise Unsupported('types.' + name)
        S.globals = {'types': TypesM(), 'numeric': NumericInv(), 'evaluable': EvalConst(),
                     'numpy': Numpy(extra=dict(CMP, diff=np_diff, all=np_all, full=np_full))}
        return S

    def good(self, S):
        ind = S.ind
        return z3.And(npsets.strictly_increasing(ind), ind.forall(lambda i, x: z3.And(0 <= x, x < S.pnd)))

    def raises(self, cx, S, e):
        if e.exc.split(':')[0] != 'ValueError':
            return False
        return True if self.twod else z3.Not(self.good(S))

    def ensures(self, cx, S, result):
        if self.twod:
            return [('must-raise-ValueError', z3.BoolVal(False))]
        me, ind = S.me, S.ind
        ren = me.attrs.get('_renumber')
        if not (isinstance(ren, Vec) and ren.kind == 'int'):
            return [('renumbering-stored', z3.BoolVal(False))]
        n = ind.n
        return [('renumbering-stored', z3.BoolVal(True)),
                ('indices-strictly-increasing-within-the-parent-dofs', self.good(S)),
                ('indices-and-parent-stored', z3.BoolVal(me.attrs.get('_indices') is ind and me.attrs.get('_parent') is S.parent)),
                ('renumber-is-the-inverse-of-indices', z3.And(ren.n == S.pnd, qforall(1, lambda i: z3.Implies(z3.And(0 <= i, i < n), ren.sel(ind.sel(i)) == i)))),
                ('renumber-is-ndofs-elsewhere', qforall(1, lambda j: z3.Implies(z3.And(0 <= j, j < S.pnd), z3.Or(ren.sel(j) == n, z3.And(0 <= ren.sel(j), ren.sel(j) < n, ind.sel(ren.sel(j)) == j))))),
                ('basis-initialised-with-ndofs-and-nelems', self.super_clause(S, n, S.pne))]

    def replay(self, ob):
        return native('run_ctor("MaskedBasis")')


# ------------------------------------------------------------------------------------------------------------ Pruned

class PrunedInit(CtorContract):
    fn = 'function:PrunedBasis.__init__'

    def setup(self, cx):
        pnd, pne = cx.int('parent.ndofs'), cx.int('parent.nelems')
        cx.assume(z3.And(pnd >= 0, pne >= 0))
        tm = Vec.fresh(cx, 'transmap', 'int', probes=3)
        cx.assume(tm.forall(lambda i, x: z3.And(0 <= x, x < pne)))
        S = State(pnd=pnd, pne=pne, tm=tm, index=SOpaque('index'), coords=SOpaque('coords'), asked=[])
        # the parent's get_dofs(int array) by the proved _int_or_vec contract (intarray scenario): strictly increasing, exactly the
        # union of the per-element dofs; per-element dofs in [0, parent.ndofs) (class invariant of the parent)
        HAS = z3.Function('parent_elem_has_dof', I, I, B)
        S.HAS = HAS
        cx.assume(qforall(2, lambda e, d: z3.Implies(HAS(e, d), z3.And(0 <= d, d < pnd))))
        src = z3.Function('union.element', I, I)
        pos = z3.Function('union.position', I, I, I)

        def get_dofs(ctx, s, arg):
            S.asked.append(arg)
            if not (isinstance(arg, Vec) and arg.kind == 'int'):
                raise Unsupported('parent.get_dofs(%r)' % (arg,))
            ctx.oblige('callee-precondition:elements-in-range', arg.forall(lambda i, x: z3.And(0 <= x, x < pne)), kind='safety')
            u = Vec.fresh(ctx, 'parent.get_dofs(transmap)', 'int', report=False)
            ctx.assume(npsets.strictly_increasing(u), axiom='contract of Basis.get_dofs(int array) (function:_int_or_vec#intarray, proved): strictly increasing, exactly the union of the dofs of the selected elements')
            ctx.assume(qforall(1, lambda j: z3.Implies(z3.And(0 <= j, j < u.n), z3.And(0 <= src(j), src(j) < arg.n, HAS(arg.sel(src(j)), u.sel(j))))))
            ctx.assume(qforall(2, lambda m, d: z3.Implies(z3.And(0 <= m, m < arg.n, HAS(arg.sel(m), d)), z3.And(0 <= pos(m, d), pos(m, d) < u.n, u.sel(pos(m, d)) == d))))
            return u
        parent = SObj('Basis', attrs=dict(ndofs=SInt(pnd), nelems=SInt(pne)), methods={'get_dofs': get_dofs})
        S.parent = parent
        me = self.me(S, 'PrunedBasis')
        S.me = me
        S.args = (me, parent, tm, S.index, S.coords)

        class TypesP:
            def sym_getattr(self, ctx, name):
                if name == 'frozenarray':
                    return lambda ctx, x, dtype=None, copy=True: x
                raise Unsupported('types.' + name)
        S.globals = {'types': TypesP(), 'numeric': NumericInv(), 'numpy': Numpy(extra={'full': np_full})}
        return S

    def ensures(self, cx, S, result):
        me, tm, HAS = S.me, S.tm, S.HAS
        dm, ren = me.attrs.get('_dofmap'), me.attrs.get('_renumber')
        if not (isinstance(dm, Vec) and isinstance(ren, Vec) and dm.kind == 'int' and ren.kind == 'int'):
            return [('dof-map-and-renumbering-stored', z3.BoolVal(False))]
        n = dm.n
        return [('dof-map-and-renumbering-stored', z3.BoolVal(me.attrs.get('_transmap') is tm and me.attrs.get('_parent') is S.parent)),
                ('parent-asked-for-the-dofs-of-the-kept-elements', z3.BoolVal(len(S.asked) == 1 and S.asked[0] is tm)),
                ('dof-map-strictly-increasing-within-the-parent-dofs', z3.And(npsets.strictly_increasing(dm), dm.forall(lambda i, x: z3.And(0 <= x, x < S.pnd)))),
                ('dof-map-items-are-dofs-of-kept-elements', qforall(1, lambda j: z3.Implies(z3.And(0 <= j, j < n), qexists(1, lambda m: z3.And(0 <= m, m < tm.n, HAS(tm.sel(m), dm.sel(j))))))),
                ('every-dof-of-a-kept-element-is-in-the-dof-map', qforall(2, lambda m, d: z3.Implies(z3.And(0 <= m, m < tm.n, HAS(tm.sel(m), d)), qexists(1, lambda j: z3.And(0 <= j, j < n, dm.sel(j) == d))))),
                ('renumber-is-the-inverse-of-the-dof-map', z3.And(ren.n == S.pnd, qforall(1, lambda i: z3.Implies(z3.And(0 <= i, i < n), ren.sel(dm.sel(i)) == i)))),
                ('renumber-is-ndofs-elsewhere', qforall(1, lambda j: z3.Implies(z3.And(0 <= j, j < S.pnd), z3.Or(ren.sel(j) == n, z3.And(0 <= ren.sel(j), ren.sel(j) < n, dm.sel(ren.sel(j)) == j))))),
                ('basis-initialised-with-ndofs-and-nelems', self.super_clause(S, n, tm.n))]

    def replay(self, ob):
        return native('run_ctor("PrunedBasis")')


# -------------------------------------------------------------------------------------------------------- Structured

class StructuredInit(CtorContract):
    fn = 'function:StructuredBasis.__init__'

    def __init__(self, r):
        self.r = r
        self.label = 'axes=%d' % r
        self.bounded = '%d tensor axes (bound: 1..3); all lengths and table entries symbolic' % r

    def setup(self, cx):
        r = self.r
        T = [cx.int('transforms_shape%d' % i) for i in range(r)]
        N = [cx.int('dofs_shape%d' % i) for i in range(r)]
        L = [cx.int('len(start_dofs%d)' % i) for i in range(r)]
        for x in L:
            cx.assume(x >= 0)
        start = [Vec.fresh(cx, 'start_dofs%d' % i, 'int', n=L[i], probes=2) for i in range(r)]
        stop = [Vec.fresh(cx, 'stop_dofs%d' % i, 'int', n=L[i], probes=2) for i in range(r)]  # call site: stop = offsets + p + 1, same length as start
        coeffs = [TableSeq(cx, 'coeffs%d' % i) for i in range(r)]
        S = State(T=T, N=N, start=start, stop=stop, coeffs=coeffs, index=SOpaque('index'), coords=SOpaque('coords'))
        me = self.me(S, 'StructuredBasis')
        S.me = me

        class Util:
            def sym_getattr(self, ctx, name):
                if name == 'product':
                    def product(ctx, seq):
                        items = list(ops.iterate(ctx, seq))
                        p = items[0] if items else 1
                        for x in items[1:]:
                            p = ops.binop(ctx, '*', p, x)
                        return p
                    return product
                raise Unsupported('util.' + name)
        from pyvc.interp import _map
        S.args = (me, tuple(coeffs), tuple(start), tuple(stop), tuple(SInt(n) for n in N), tuple(SInt(t) for t in T), S.index, S.coords)
        S.globals = {'types': Types(), 'util': Util(), 'map': lambda ctx, f, *its: _map(ctx, f, *its), 'tuple': sym_tuple2}
        return S

    def ensures(self, cx, S, result):
        r, me = self.r, S.me
        nd_, st_, sp_, cf_ = me.attrs.get('_ndofs'), me.attrs.get('_start_dofs'), me.attrs.get('_stop_dofs'), me.attrs.get('_coeffs')
        ok = all(isinstance(x, tuple) and len(x) == r for x in (nd_, st_, sp_, cf_)) and all(isinstance(v, Vec) and v.kind == 'int' for v in nd_)
        if not ok:
            return [('per-axis-tables-stored', z3.BoolVal(False))]
        nd = S.N[0]
        ne = S.T[0]
        for i in range(1, r):
            nd, ne = nd * S.N[i], ne * S.T[i]
        ds, ts = me.attrs.get('_dofs_shape'), me.attrs.get('_transforms_shape')
        shapes = isinstance(ds, tuple) and isinstance(ts, tuple) and len(ds) == r and len(ts) == r and all(is_intlike(x) for x in ds + ts)
        return [('per-axis-tables-stored', z3.BoolVal(all(st_[i] is S.start[i] and sp_[i] is S.stop[i] for i in range(r)))),
                ('coefficient-tables-stored-in-order', z3.And(*[same_seq(cf_[i], S.coeffs[i]) for i in range(r)])),
                ('local-dof-counts-are-stop-minus-start', z3.And(*[z3.And(nd_[i].n == S.start[i].n, qforall(1, lambda e, i=i: z3.Implies(z3.And(0 <= e, e < S.start[i].n), nd_[i].sel(e) == S.stop[i].sel(e) - S.start[i].sel(e)))) for i in range(r)])),
                ('shapes-stored', z3.And(*[z3.And(zint(ds[i]) == S.N[i], zint(ts[i]) == S.T[i]) for i in range(r)]) if shapes else z3.BoolVal(False)),
                ('basis-initialised-with-the-products-of-the-shapes', self.super_clause(S, nd, ne))]

    def replay(self, ob):
        return native('run_ctor("StructuredBasis")')


# ------------------------------------------------------------------------------------------------ Basis.__getitem__

class IndexArg(Vec):
    """a numpy array used as an index: not a slice / int / ..."""

    def isinstance_(self, ctx, types):
        return False


class BasisGetitem(CtorContract):
    """Basis.__getitem__ with an array index: a bool mask of the RIGHT length (ndofs) builds MaskedBasis(self, positions of True); a
    strictly increasing int array builds MaskedBasis(self, index); everything else (in particular a mask of the wrong length, an
    unsorted index array) is NOT turned into a MaskedBasis but handed to Array.__getitem__."""
    fn = 'function:Basis.__getitem__'

    def __init__(self, kind):
        self.kind = kind
        self.label = kind

    def setup(self, cx):
        nd = cx.int('ndofs')
        cx.assume(nd >= 0)
        v = Vec.fresh(cx, 'index', 'bool' if self.kind == 'boolmask' else 'int', probes=3)
        arg = IndexArg(v.kind, v.n, v._sel, 'index')
        S = State(nd=nd, arg=arg, built=[], fell=[])

        def masked(ctx, parent, indices):
            S.built.append((parent, indices))
            return SOpaque('MaskedBasis')

        def super_getitem(ctx, s, index):
            S.fell.append(index)
            return SOpaque('Array.__getitem__')
        me = SObj('Basis', attrs=dict(ndofs=SInt(nd)), methods={'super().__getitem__': super_getitem})
        S.me = me
        S.args = (me, arg)

        def np_where(ctx, m):
            if isinstance(m, Vec) and m.kind == 'bool':
                return (npsets.np_nonzero(ctx, m),)
            raise Unsupported('numpy.where variant')
        S.globals = {'numeric': Numeric(), 'MaskedBasis': masked, 'numpy': Numpy(extra=dict(CMP, diff=np_diff, all=np_all, where=np_where))}
        return S

    def ensures(self, cx, S, result):
        arg, nd = S.arg, S.nd
        is_masked = isinstance(result, SOpaque) and result.label == 'MaskedBasis' and len(S.built) == 1 and not S.fell
        is_plain = isinstance(result, SOpaque) and result.label == 'Array.__getitem__' and not S.built and len(S.fell) == 1 and S.fell[0] is arg
        if not (is_masked or is_plain):
            return [('either-a-masked-basis-or-plain-array-indexing', z3.BoolVal(False))]
        good = (arg.n == nd) if self.kind == 'boolmask' else z3.And(qforall(1, lambda i: z3.Implies(z3.And(0 <= i, i + 1 < arg.n), arg.sel(i) < arg.sel(i + 1))))
        out = [('either-a-masked-basis-or-plain-array-indexing', z3.BoolVal(True)),
               ('masked-basis-exactly-for-a-%s' % ('mask-of-the-right-length' if self.kind == 'boolmask' else 'strictly-increasing-index-array'), good if is_masked else z3.Not(good))]
        if is_masked:
            parent, ind = S.built[0]
            if not (parent is S.me and isinstance(ind, Vec) and ind.kind == 'int'):
                return out + [('masked-basis-of-self-with-the-selected-dofs', z3.BoolVal(False))]
            if self.kind == 'boolmask':
                sel = z3.And(npsets.strictly_increasing(ind), ind.forall(lambda j, x: z3.And(0 <= x, x < arg.n, arg.sel(x))),
                             qforall(1, lambda a: z3.Implies(z3.And(0 <= a, a < arg.n, arg.sel(a)), qexists(1, lambda j: z3.And(0 <= j, j < ind.n, ind.sel(j) == a)))))
            else:
                sel = z3.BoolVal(ind is arg)
            out.append(('masked-basis-of-self-with-the-selected-dofs', sel))
        return out

    def replay(self, ob):
        return native('run_getitem()')


def contracts():
    return [DiscontInit(), PlainInit(), MaskedInit(), MaskedInit(twod=True), PrunedInit(), StructuredInit(1), StructuredInit(2), StructuredInit(3), BasisGetitem('boolmask'), BasisGetitem('intarray')]
