"""C14, part 4 -- System.deconstruct / System.construct round trip (harness; 1-D trial shapes; number of trials bounded <= 2).

    args1, x = system.deconstruct(arguments, constrain);   args2 = system.construct(args1, y)      (y: any vector as long as x)

For every trial t with free mask F_t (no constraint: everything; bool constraint c: ~c; float constraint c: isnan(c)):
    x-length                       len(x) == sum_t count(F_t)
    x-is-finite                    every entry of x is finite (a non-finite free entry of an initial guess is rejected)
    x-free-entries-from-initial-guess   F_t[i]  => x[off_t + rank_t(i)] == initial guess a_t[i]   (no initial guess: x is zero)
    constrained-entries-exact      not F_t[i] => args2[t][i] == prescribed value (float c: c[i]; bool c: a_t[i], or 0 without a_t), bit for bit
    free-entries-from-x-in-order   F_t[i]  => args2[t][i] == y[off_t + rank_t(i)],    off_t = sum_{s<t} count(F_s)
    other-arguments-kept           entries of `arguments` that are not trials are passed through
    only AssertionError escapes, and only if a free entry of an initial guess is not finite (inconsistent input is rejected).

Mask extraction a[m] and mask store v[m] = y are EXTERNALS stated with one shared abstract rank function per mask:
    count(m) in [0, n];  rank_m: selected positions -> [0, count) strictly increasing with inverse pos_m;
    a[m][k] == a[pos_m(k)];   (v[m] = y)[i] == y[rank_m(i)] if m[i] else v[i]   (ValueError unless len(y) in (count, 1));
    masks with equal entries have equal count/rank/pos;  for v = concatenate(parts): rank of isnan(v) is the part's rank plus
    the counts of the parts before it.  (native/axioms.py cross-checks all of these against numpy.)
"""
import z3
from pyvc.contract import Contract, State
from pyvc.values import SInt, SBool, SObj, SOpaque, PyRaise, Unsupported, zint, FIN, NAN
from pyvc.fp import SFp
from pyvc.nparr import Vec, Numpy, DType, qforall, qexists, _pick
from contracts.c14_methods import _script

PROP = 'C14'
I = z3.IntSort()


class Rank:
    """count / rank / pos of one boolean mask (snapshot of its entries at registration)."""

    def __init__(self, ctx, m, cat_parts=None, all_true=False):
        reg = ctx.ghost.setdefault('ranks', [])
        self.n, self.sel = m.n, (m._sel if m.base is None else m.sel)
        n, sel = self.n, self.sel
        own = m.count(ctx)
        # a mask whose entries provably equal those of an earlier mask shares its count / rank / pos (numpy: they are functions of the entries)
        for o in reg:
            same = z3.And(o.n == n, qforall(1, lambda j: z3.Implies(z3.And(0 <= j, j < n), o.sel(j) == sel(j))))
            if ctx.entails(same):
                self.count, self.rank, self.pos = o.count, o.rank, o.pos
                ctx.assume(own == o.count, axiom='masks with equal entries have the same count, rank and pos')
                return
        self.count = c = own
        self.rank = rank = z3.Function(ctx.name('rank!%s' % m.name), I, I)
        self.pos = pos = z3.Function(ctx.name('pos!%s' % m.name), I, I)
        ax = 'a[mask] / v[mask] = y: shared rank function (strictly increasing bijection selected positions <-> 0..count-1)'
        ctx.assume(qforall(1, lambda i: z3.Implies(z3.And(0 <= i, i < n, sel(i)), z3.And(0 <= rank(i), rank(i) < c, pos(rank(i)) == i))), axiom=ax)
        ctx.assume(qforall(1, lambda k: z3.Implies(z3.And(0 <= k, k < c), z3.And(0 <= pos(k), pos(k) < n, sel(pos(k)), rank(pos(k)) == k))))
        ctx.assume(qforall(2, lambda i, j: z3.Implies(z3.And(0 <= i, i < j, j < n, sel(i), sel(j)), rank(i) < rank(j))))
        if all_true:
            ctx.assume(z3.And(c == n, qforall(1, lambda i: z3.Implies(z3.And(0 <= i, i < n), z3.And(rank(i) == i, pos(i) == i)))), axiom='an all-True mask selects everything in place')
        if cat_parts:
            off, coff = z3.IntVal(0), z3.IntVal(0)
            for p, pn in cat_parts:
                o2, c2 = off, coff
                ctx.assume(z3.And(qforall(1, lambda i: z3.Implies(z3.And(0 <= i, i < pn), rank(o2 + i) == c2 + p.rank(i))),
                                  qforall(1, lambda k: z3.Implies(z3.And(0 <= k, k < p.count), pos(c2 + k) == o2 + p.pos(k)))),
                           axiom='mask of a concatenation: rank = rank within the part + counts of the parts before it')
                off, coff = off + pn, coff + p.count
            ctx.assume(c == coff)
        reg.append(self)


def rank_of(ctx, m, **kw):
    r = getattr(m, '_rank', None)
    if r is None or m._rank_sel is not m._sel:
        r = Rank(ctx, m, **kw)
        m._rank, m._rank_sel = r, m._sel
    return r


class RVec(Vec):
    """Vec with rank-based mask extraction / mask store, reshape to the own length."""

    def getitem(self, ctx, idx):
        if isinstance(idx, Vec) and idx.kind == 'bool':
            if not ctx.branch(idx.n == self.n):
                raise PyRaise('IndexError', note='boolean index did not match')
            r = rank_of(ctx, idx)
            s = self._sel if self.base is None else self.sel
            return RVec(self.kind, r.count, lambda k: s(r.pos(k)), '%s[%s]' % (self.name, idx.name))
        v = super().getitem(ctx, idx)
        if isinstance(v, Vec) and not isinstance(v, RVec):
            v = RVec(v.kind, v.n, v._sel, v.name, v.base)
        return v

    def setitem(self, ctx, idx, value):
        if isinstance(idx, Vec) and idx.kind == 'bool' and isinstance(value, Vec):
            if not ctx.branch(idx.n == self.n):
                raise PyRaise('IndexError', note='boolean index did not match')
            r = rank_of(ctx, idx, cat_parts=getattr(idx, 'cat_parts', None))
            old = self._sel if self.base is None else self.sel
            msel, kind = r.sel, self.kind
            vs = value._sel if value.base is None else value.sel
            if ctx.branch(value.n == r.count):
                self._write(lambda j: _pick(kind, msel(j), vs(r.rank(j)), old(j)))
            elif ctx.branch(value.n == 1):
                self._write(lambda j: _pick(kind, msel(j), vs(z3.IntVal(0)), old(j)))
            else:
                raise PyRaise('ValueError', note='NumPy boolean array indexing assignment cannot assign %s input values to the %s output values' % (value.n, r.count))
            return
        return super().setitem(ctx, idx, value)

    def getattr(self, ctx, name):
        if name == 'reshape':
            def reshape(ctx, *shape):
                if len(shape) == 1 and isinstance(shape[0], tuple):
                    shape = shape[0]
                if len(shape) != 1:
                    raise Unsupported('reshape to rank != 1')
                if not ctx.branch(zint(shape[0]) == self.n):
                    raise PyRaise('ValueError', note='cannot reshape array')
                return self
            return reshape
        return super().getattr(ctx, name)


class RNumpy(Numpy):
    def np_isnan(self, ctx, a):
        if isinstance(a, Vec) and a.kind == 'fp':
            s = a._sel if a.base is None else a.sel  # snapshot: the mask does not follow later writes to a
            m = Vec('bool', a.n, lambda i: s(i)[0] == NAN, 'isnan(%s)' % a.name)
            parts = getattr(a, 'cat_parts', None)
            if parts is not None and a._cat_sel is a._sel:
                m.cat_parts = [(rank_of(ctx, Vec('bool', pn, (lambda ps: lambda i: ps(i)[0] == NAN)(ps), 'isnan(part%d)' % k)), pn) for k, (ps, pn) in enumerate(parts)]
            rank_of(ctx, m, cat_parts=getattr(m, 'cat_parts', None))
            return m
        return super().np_isnan(ctx, a)

    def np_concatenate(self, ctx, parts, dtype=None):
        if not isinstance(parts, list) or not parts:
            raise Unsupported('concatenate of %r' % (parts,))
        kind = parts[0].kind
        snaps = []
        for p in parts:
            if not isinstance(p, Vec) or p.kind != kind:
                raise Unsupported('concatenate of %r' % (p,))
            snaps.append((p._sel if p.base is None else p.sel, p.n))

        def sel(j):
            off = z3.IntVal(0)
            offs = []
            for s, n in snaps:
                offs.append(off)
                off = off + n
            r = snaps[-1][0](j - offs[-1])
            for (s, n), o in reversed(list(zip(snaps[:-1], offs[:-1]))):
                r = _pick(kind, j < o + n, s(j - o), r)
            return r
        total = z3.simplify(z3.Sum([n for s, n in snaps])) if len(snaps) > 1 else snaps[0][1]
        v = RVec(kind, total, sel, 'concatenate')
        v.cat_parts, v._cat_sel = snaps, v._sel
        return v


SCN = ('none', 'bool', 'float')


class RoundTrip(Contract):
    prop = PROP
    fn = 'solver:System.deconstruct'

    def __init__(self, trials):
        # trials: tuple of (has_initial_guess, constraint kind)
        self.trials = tuple(trials)
        self.label = ';'.join('%s,%s' % ('a' if a else '-', c) for a, c in self.trials)
        self.bounded = '%d trial argument(s), one-dimensional, presence/kind of initial guess and constraint fixed per scenario' % len(self.trials)

    def setup(self, cx):
        S = State(T=[])
        arguments, constrain, shapes, slices = {'other': SOpaque('other-argument')}, {}, [], []
        S.other = arguments['other']
        off = z3.IntVal(0)
        for k, (has_a, ck) in enumerate(self.trials):
            name = 'u%d' % k
            n = cx.int('n%d' % k)
            cx.assume(n >= 0)
            a = RVec.fresh(cx, 'a%d' % k, 'fp', n=n) if has_a else None
            if a is not None:
                a = RVec('fp', n, a._sel, a.name)
            c = None if ck == 'none' else Vec.fresh(cx, 'c%d' % k, 'bool' if ck == 'bool' else 'fp', n=n)
            if ck == 'none':
                F = Vec.const('bool', n, True)
            elif ck == 'bool':
                F = Vec('bool', n, (lambda c: lambda i: z3.Not(c.sel(i)))(c), 'free%d' % k)
            else:
                F = Vec('bool', n, (lambda c: lambda i: c.sel(i)[0] == NAN)(c), 'free%d' % k)
            F.name = 'free%d' % k
            r = rank_of(cx, F, all_true=(ck == 'none'))
            if ck == 'bool' and has_a:
                # NaN marks a free entry: an initial guess that is NaN at a constrained entry is outside the documented input
                cx.assume(qforall(1, lambda i: z3.Implies(z3.And(0 <= i, i < n, c.sel(i)), a.sel(i)[0] != NAN)))
            if a is not None:
                arguments[name] = a
            if c is not None:
                constrain[name] = c
            S.T.append(dict(name=name, n=n, a=a, c=c, ck=ck, F=F, r=r, off=off, a_sel=(a._sel if a is not None else None)))
            shapes.append((SInt(n),))
            off = off + r.count
        S.total = off
        o = z3.IntVal(0)
        for t in S.T:
            slices.append(slice(SInt(z3.simplify(o)), SInt(z3.simplify(o + t['n']))))
            o = o + t['n']
        S.system = SObj('System', attrs={'trials': tuple(t['name'] for t in S.T), 'trial_shapes': tuple(shapes), 'dtype': DType('fp'),
                                         '__trial_slices': tuple(slices), '_System__trial_slices': tuple(slices)})
        S.arguments, S.constrain = arguments, constrain
        S.globals = {'numpy': RNumpy()}
        return S

    def body(self, cx, S, call):
        args1, x = call('solver:System.deconstruct', S.system, S.arguments, S.constrain)
        if not isinstance(x, Vec):
            raise Unsupported('deconstruct returned %r' % (x,))
        S.x = x
        S.xsel = x._sel
        y = Vec.fresh(cx, 'y', 'fp', n=x.n, report=False)
        S.y = y
        args2 = call('solver:System.construct', S.system, args1, y)
        return args2

    def ensures(self, cx, S, result):
        if not isinstance(result, dict):
            raise Unsupported('construct returned %r' % (result,))
        x, xs, y = S.x, S.xsel, S.y
        same = lambda e, f: SFp.same(SFp(*e), SFp(*f))
        out = [('x-length', x.n == S.total), ('other-arguments-kept', z3.BoolVal(result.get('other') is S.other)),
               ('x-is-finite', qforall(1, lambda k: z3.Implies(z3.And(0 <= k, k < x.n), xs(k)[0] == FIN)))]
        shape_ok, guess, cons, free = [], [], [], []
        for t in S.T:
            v = result.get(t['name'])
            if not isinstance(v, Vec):
                raise Unsupported('construct result for %s is %r' % (t['name'], v))
            n, F, r, off, a_sel, c = t['n'], t['F'], t['r'], t['off'], t['a_sel'], t['c']
            shape_ok.append(v.n == n)
            if a_sel is not None:
                guess.append(qforall(1, lambda i: z3.Implies(z3.And(0 <= i, i < n, F.sel(i)), same(xs(off + r.rank(i)), a_sel(i)))))
            else:
                guess.append(qforall(1, lambda k: z3.Implies(z3.And(off <= k, k < off + r.count), z3.And(xs(k)[0] == FIN, xs(k)[1] == 0))))
            if t['ck'] == 'float':
                pres = c.sel
            elif t['ck'] == 'bool':
                pres = a_sel if a_sel is not None else (lambda i: (z3.IntVal(FIN), z3.RealVal(0)))
            else:
                pres = None
            if pres is not None:
                cons.append(qforall(1, lambda i: z3.Implies(z3.And(0 <= i, i < n, z3.Not(F.sel(i))), same(v.sel(i), pres(i)))))
            free.append(qforall(1, lambda i: z3.Implies(z3.And(0 <= i, i < n, F.sel(i)), same(v.sel(i), y.sel(off + r.rank(i))))))
        out += [('result-shapes', z3.And(*shape_ok))]
        out += [('x-free-entries-from-initial-guess#%d' % k, g) for k, g in enumerate(guess)]
        out += [('constrained-entries-exact#%d' % k, g) for k, g in enumerate(cons)]
        out += [('free-entries-from-x-in-order#%d' % k, g) for k, g in enumerate(free)]
        return out

    def raises(self, cx, S, e):
        if e.exc == 'AssertionError':
            bad = [qexists(1, lambda i: z3.And(0 <= i, i < t['n'], t['F'].sel(i), t['a_sel'](i)[0] != FIN)) for t in S.T if t['a_sel'] is not None]
            return z3.Or(*bad) if bad else False
        return False

    def replay(self, ob):
        return _script('roundtrip(%r, %r)' % (self.trials, ob.clause))


def contracts():
    cs = [RoundTrip([(a, c)]) for a in (True, False) for c in SCN]
    pairs = [((True, 'bool'), (True, 'float')), ((True, 'float'), (False, 'bool')), ((False, 'none'), (True, 'bool')), ((True, 'none'), (True, 'none')),
             ((False, 'bool'), (False, 'float'))]
    cs += [RoundTrip(p) for p in pairs]
    return cs


TRUSTED = ['boolean-mask extraction a[m] and store v[m] = y as axioms over one shared rank function per mask (strictly increasing bijection; equal masks share it; '
           'additive over numpy.concatenate), cross-checked against numpy in native/axioms.py']
ASSUMPTIONS = ['deconstruct/construct: trial arguments are one-dimensional, initial guesses and constraints have the trial\'s length, x passed to construct has the length deconstruct returned',
               'deconstruct/construct: an initial guess is not NaN at a boolean-constrained entry (NaN is the marker of a free entry)']
NOT_COVERED = ['deconstruct/construct for more than two trials or multi-dimensional trial shapes; inputs of inconsistent length']
