"""Shared by C05b: evaluable IR nodes as *positional* arrays  (dims, position -> element term).

A `PA` is an evaluable.Array whose dense meaning is a Python closure from a position tuple (z3 Ints) to a z3 term (Int
for index arrays, Real for value arrays).  Axis lengths are z3 Int terms: symbolic for the ravel/unique bookkeeping of
`Array.assparse`, integer literals for the bounded `_assparse` scenarios (then a sum over positions is a finite term).

The IR constructors the bodies under contract call are interpreted by their dense (evalf) meaning -- the same reading
of the IR as C06 and Inflate._assparse (DESIGN 4.5); the table below is TRUSTED and cross-checked against the real
nutils evaluation on random small inputs (native/axioms_c05.py):

  InsertAxis(a, n)[p.., j] = a[p..]                 Transpose(a, axes)[p..] = a[q..], q[axes[k]] = p[k]
  Range(n)[i] = i                                   prependaxes(a, s)[q.., p..] = a[p..];  appendaxes(a, s)[p.., q..] = a[p..]
  Take(a, i)[p..] = a[i[p..]]  (a of rank 1)        x + y, x * y, x - y elementwise, a 0-d operand is broadcast (_numpy_align)
  divmod(x, y) = (x // y, x % y) elementwise        concatenate([a, b, ..])[k] = a[k] | b[k - len a] | ..   (rank 1)
  Sum(a)[p..] = sum_j a[p.., j]                     Inflate(f, d, n)[j] = sum_{p: d[p] = j} f[p]   (d.shape = f.shape)
  zeros(s)[..] = 0, constant(v)[()] = v, Guard(a) = a, _flat(a) = a for rank 1, = InsertAxis(a, 1) for rank 0,
  = row-major ravel otherwise;  align(a, where, shape) / unalign(a) by their docstring (axes of `a` move to `where`,
  the other axes are inserted); multiply(a, b, ..) elementwise product.
"""
import itertools
import z3
from pyvc.values import Sym, SInt, SBool, SObj, PyRaise, Unsupported, zint, is_intlike, pyfloordiv, pymod, Lazy, BoundMethod
from pyvc.ops import Builtin
from pyvc import ops

INT, FLOAT, BOOL = 'int', 'float', 'bool'


def zi(x):
    if z3.is_expr(x):
        return x
    if isinstance(x, PA):
        if x.ndim:
            raise Unsupported('array used as a length')
        return x.at(())
    return zint(x)


def concrete(d):
    d = z3.simplify(d) if z3.is_expr(d) else d
    if isinstance(d, int):
        return d
    return d.as_long() if z3.is_int_value(d) else None


def elem(dtype, v):
    """coerce a Python/z3 number to the element sort of dtype"""
    if dtype == FLOAT:
        if z3.is_expr(v):
            return z3.ToReal(v) if v.sort() == z3.IntSort() else v
        return z3.RealVal(v)
    if dtype == INT:
        if z3.is_expr(v):
            if v.sort() != z3.IntSort():
                raise Unsupported('real element in an int array')
            return v
        return z3.IntVal(v)
    return v if z3.is_expr(v) else z3.BoolVal(v)


class PA(SObj):
    """evaluable.Array with a positional dense meaning."""

    def __init__(self, dims, at, dtype=INT, name='a', unaligned=None, form=None, attrs=None, classes=('Array',)):
        self.clsname = classes[0]
        self.methods = {}
        self._truthy = True
        self.dims = tuple(zi(d) for d in dims)
        self._at = at
        self.dtype = dtype
        self.name = name
        self.unaligned = unaligned  # (PA, where): self = align(PA, where, self.shape)
        self.form = form  # formal structure for nodes whose meaning is a sum over a symbolic range
        self.attrs = dict(attrs or {})
        self.classes = tuple(classes)

    @property
    def ndim(self):
        return len(self.dims)

    def at(self, pos):
        pos = tuple(zi(p) for p in pos)
        if len(pos) != self.ndim:
            raise Unsupported('position of rank %d in an array of rank %d' % (len(pos), self.ndim))
        if self._at is None:
            raise Unsupported('element of %s: the node has only a formal meaning here' % self.name)
        return self._at(pos)

    def concrete_dims(self):
        ds = [concrete(d) for d in self.dims]
        return None if any(d is None for d in ds) else tuple(ds)

    def positions(self):
        ds = self.concrete_dims()
        if ds is None:
            raise Unsupported('enumeration of a symbolic position space')
        return itertools.product(*[range(d) for d in ds])

    # --- evaluable.Array attribute protocol, as far as the bodies use it
    def getattr(self, ctx, name):
        if name in self.attrs:
            v = self.attrs[name]
            if isinstance(v, Lazy):
                v = self.attrs[name] = v.force(ctx)
            return v
        if name == 'shape':
            return tuple(scalar(d) for d in self.dims)
        if name == 'ndim':
            return self.ndim
        if name == 'dtype':
            return Builtin(self.dtype)
        if name == '_unaligned':
            return self.unaligned if self.unaligned is not None else (self, tuple(range(self.ndim)))
        if name in ('_assparse', 'super()._assparse'):
            # an array without declared chunks: the default rule (real body of Array._assparse), a valid denotation of any array
            from pyvc import extract
            v = self.attrs[name] = ctx.interp.call_function(extract.get('evaluable:Array._assparse').node, (self,), {})
            return v
        raise Unsupported('attribute %s of an array model' % name)

    def isinstance_(self, ctx, types):
        for t in types:
            n = t if isinstance(t, str) else getattr(t, '__name__', None)
            if n in self.classes:
                return True
        return False

    def truth(self, ctx):
        return True

    def compare(self, ctx, op, other, reflected):
        if op in ('==', '!='):
            same = other is self
            return same if op == '==' else not same
        return NotImplemented

    def binop(self, ctx, op, other, reflected):
        if op not in ('+', '-', '*'):
            return NotImplemented
        if isinstance(other, PA):
            o = other
        elif is_intlike(other) and not isinstance(other, bool):
            o = scalar(zint(other))
        elif isinstance(other, float):
            o = PA((), lambda pos: z3.RealVal(repr(other)), FLOAT)
        else:
            return NotImplemented
        a, b = (o, self) if reflected else (self, o)
        return elementwise(ctx, op, a, b)

    def __repr__(self):
        return 'PA<%s%s>' % (self.name, list(self.dims))


def scalar(v, dtype=INT):
    v = zi(v) if dtype == INT else v
    return PA((), lambda pos: v, dtype, name='scalar')


def _align2(ctx, a, b):
    """evaluable._numpy_align: a 0-d operand is inflated, otherwise the shapes must agree."""
    if a.ndim == b.ndim:
        for x, y in zip(a.dims, b.dims):
            cx_, cy_ = concrete(x), concrete(y)
            if cx_ is not None and cy_ is not None:
                if cx_ != cy_:
                    raise PyRaise('ValueError', note='incompatible shapes')
            elif not z3.eq(x, y):
                # symbolic lengths: the real code fails at evaluation time if they differ
                ctx.oblige('safety:operand-shapes-agree', x == y, kind='safety')
        return a.dims, (lambda p: p), (lambda p: p)
    if a.ndim == 0:
        return b.dims, (lambda p: ()), (lambda p: p)
    if b.ndim == 0:
        return a.dims, (lambda p: p), (lambda p: ())
    raise PyRaise('ValueError', note='incompatible shapes')


def elementwise(ctx, op, a, b):
    dims, pa, pb = _align2(ctx, a, b)
    dtype = FLOAT if FLOAT in (a.dtype, b.dtype) else (INT if INT in (a.dtype, b.dtype) else BOOL)
    if dtype == BOOL:
        raise Unsupported('boolean arithmetic')

    def at(pos):
        x, y = elem(dtype, a.at(pa(pos))), elem(dtype, b.at(pb(pos)))
        if op == '+':
            return x + y
        if op == '-':
            return x - y
        if op == '*':
            return x * y
        if op == '//':
            return pyfloordiv(x, y)
        if op == '%':
            return pymod(x, y)
        raise Unsupported(op)
    form = None
    if op == '+' and (a.form or b.form):
        form = ('Add', _terms(a) + _terms(b))
    return PA(dims, at if not form or (a._at and b._at) else None, dtype, name='(%s%s%s)' % (a.name, op, b.name), form=form)


def _terms(a):
    if a.form and a.form[0] == 'Add':
        return list(a.form[1])
    return [a]


# ------------------------------------------------------------------ IR constructors (dense meanings)

def InsertAxis(ctx, a, length):
    a = asarray(ctx, a)
    base, where = a.getattr(ctx, '_unaligned')
    return PA(a.dims + (zi(length),), lambda pos: a.at(pos[:-1]), a.dtype, name='InsertAxis(%s)' % a.name, unaligned=(base, tuple(where)))


def _transpose(ctx, a, axes):
    axes = tuple(int(i) for i in axes)
    if sorted(axes) != list(range(a.ndim)):
        raise PyRaise('AssertionError', note='transpose axes %r for ndim %d' % (axes, a.ndim))
    inv = tuple(axes.index(j) for j in range(a.ndim))
    base, where = a.getattr(ctx, '_unaligned')
    return PA(tuple(a.dims[k] for k in axes), lambda pos: a.at(tuple(pos[inv[j]] for j in range(a.ndim))), a.dtype,
              name='Transpose(%s,%s)' % (a.name, list(axes)), unaligned=(base, tuple(inv[w] for w in where)))


class _TransposeCls:
    """Transpose(arg, axes) plus the classmethods from_end / to_end."""
    __name__ = 'Transpose'

    def __call__(self, ctx, a, axes):
        return _transpose(ctx, asarray(ctx, a), axes)

    def sym_getattr(self, ctx, name):
        if name == 'from_end':
            def from_end(ctx, a, *axes):
                raise Unsupported('Transpose.from_end')
            return from_end
        raise Unsupported('Transpose.' + name)


def transpose(ctx, a, trans):
    a = asarray(ctx, a)
    trans = tuple(int(ops.py_int(ctx, i)) if not isinstance(i, int) else i for i in trans)
    if all(i == n for i, n in enumerate(trans)):
        return a
    return _transpose(ctx, a, trans)


def Range(ctx, n):
    return PA((zi(n),), lambda pos: pos[0], INT, name='Range')


def prependaxes(ctx, a, shape):
    a = asarray(ctx, a)
    shape = tuple(zi(n) for n in shape)
    k = len(shape)
    base, where = a.getattr(ctx, '_unaligned')
    return PA(shape + a.dims, lambda pos: a.at(pos[k:]), a.dtype, name='prependaxes(%s)' % a.name, unaligned=(base, tuple(w + k for w in where)))


def appendaxes(ctx, a, shape):
    a = asarray(ctx, a)
    shape = tuple(zi(n) for n in shape)
    n = a.ndim
    base, where = a.getattr(ctx, '_unaligned')
    return PA(a.dims + shape, lambda pos: a.at(pos[:n]), a.dtype, name='appendaxes(%s)' % a.name, unaligned=(base, tuple(where)))


def Take(ctx, a, index):
    a, index = asarray(ctx, a), asarray(ctx, index)
    if a.ndim != 1:
        raise Unsupported('Take of an array of rank %d' % a.ndim)
    if index.dtype != INT:
        raise PyRaise('AssertionError', note='Take index dtype')
    return PA(index.dims, lambda pos: a.at((index.at(pos),)), a.dtype, name='Take(%s,%s)' % (a.name, index.name), form=('Take', a, index))


def asarray(ctx, x):
    if isinstance(x, PA):
        return x
    if is_intlike(x) and not isinstance(x, bool):
        return scalar(zint(x))
    raise Unsupported('asarray(%r)' % (x,))


def constant(ctx, v):
    if isinstance(v, PA):
        return v
    if is_intlike(v) and not isinstance(v, bool):
        return scalar(zint(v))
    raise Unsupported('constant(%r)' % (v,))


def zeros(ctx, shape, dtype=Builtin('float')):
    dt = dtype.name if isinstance(dtype, Builtin) else str(dtype)
    shape = tuple(zi(n) for n in shape)
    return PA(shape, lambda pos: elem(dt, 0), dt, name='zeros', form=('Zeros',))


def Guard(ctx, a):
    return a


def ravel_last(ctx, a):
    """Ravel: the last two axes in row-major order."""
    n1 = a.dims[-1]
    return PA(a.dims[:-2] + (a.dims[-2] * n1,), lambda pos: a.at(pos[:-1] + (pos[-1] / n1, pos[-1] % n1)), a.dtype, name='Ravel(%s)' % a.name)


def _flat(ctx, a, ndim=1):
    a = asarray(ctx, a)
    if a.ndim == ndim - 1:
        return InsertAxis(ctx, a, 1)
    while a.ndim > ndim:
        a = ravel_last(ctx, a)
    return a


def concatenate(ctx, args, axis=0):
    args = [asarray(ctx, a) for a in ops.iterate(ctx, args)]
    if len(args) == 1:
        return args[0]
    if any(a.ndim != 1 for a in args) or axis != 0:
        raise Unsupported('concatenate of arrays of rank != 1')
    dtype = args[0].dtype
    offsets = [z3.IntVal(0)]
    for a in args:
        offsets.append(offsets[-1] + a.dims[0])

    def at(pos):
        k = pos[0]
        r = elem(dtype, args[-1].at((k - offsets[len(args) - 1],)))
        for j in range(len(args) - 2, -1, -1):
            r = z3.If(k < offsets[j + 1], elem(dtype, args[j].at((k - offsets[j],))), r)
        return r
    return PA((offsets[-1],), at, dtype, name='concatenate')


def _divmod(ctx, x, y):
    x, y = asarray(ctx, x), asarray(ctx, y)
    if x.dtype != INT or y.dtype != INT:
        raise Unsupported('divmod of non-integer arrays')
    return elementwise(ctx, '//', x, y), elementwise(ctx, '%', x, y)


def Sum(ctx, a):
    """sum over the last axis"""
    a = asarray(ctx, a)
    n = concrete(a.dims[-1])
    if n is None:
        return PA(a.dims[:-1], None, a.dtype, name='Sum(%s)' % a.name, form=('Sum', a))

    def at(pos):
        r = elem(a.dtype, 0)
        for j in range(n):
            r = r + a.at(pos + (z3.IntVal(j),))
        return r
    return PA(a.dims[:-1], at, a.dtype, name='Sum(%s)' % a.name)


def Inflate(ctx, f, dofmap, length):
    """Inflate(f, dofmap, length) with dofmap.shape == f.shape (full-rank scatter into one axis)."""
    f, dofmap = asarray(ctx, f), asarray(ctx, dofmap)
    if f.ndim != dofmap.ndim:
        raise Unsupported('Inflate with a kept leading axis')
    _align2(ctx, f, dofmap)
    ds = f.concrete_dims()
    at = None
    if ds is not None:
        def at(pos):
            r = elem(f.dtype, 0)
            for p in itertools.product(*[range(d) for d in ds]):
                p = tuple(z3.IntVal(x) for x in p)
                r = r + z3.If(dofmap.at(p) == pos[0], f.at(p), elem(f.dtype, 0))
            return r
    return PA((zi(length),), at, f.dtype, name='Inflate(%s)' % f.name, form=('Inflate', f, dofmap, zi(length)))


def multiply(ctx, a, *rest):
    a = asarray(ctx, a)
    for b in rest:
        a = elementwise(ctx, '*', a, asarray(ctx, b))
    return a


def align(ctx, a, where, shape):
    """Real body of evaluable.align would do the same through InsertAxis + Transpose; kept as a direct meaning so that
    the `_unaligned` bookkeeping is exact: axis k of `a` becomes axis where[k] of the result, other axes are inserted."""
    a = asarray(ctx, a)
    where = [int(w) for w in ops.iterate(ctx, where)]
    shape = [zi(n) for n in ops.iterate(ctx, shape)]
    if len(where) != a.ndim or len(set(where)) != len(where) or any(not 0 <= w < len(shape) for w in where):
        raise PyRaise('AssertionError', note='align: where=%r for ndim %d into %d axes' % (where, a.ndim, len(shape)))
    for k, w in enumerate(where):
        cw, ca = concrete(shape[w]), concrete(a.dims[k])
        if cw is not None and ca is not None and cw != ca:
            raise PyRaise('AssertionError', note='align: length mismatch on axis %d' % w)
    base, bw = a.getattr(ctx, '_unaligned')
    return PA(tuple(shape), lambda pos: a.at(tuple(pos[w] for w in where)), a.dtype, name='align(%s,%s)' % (a.name, where),
              unaligned=(base, tuple(where[w] for w in bw)))


def unalign(ctx, *args, naxes=None):
    """evaluable.unalign by its docstring, on the `_unaligned` bookkeeping of the model."""
    if not args:
        raise PyRaise('AssertionError')
    args = [asarray(ctx, a) for a in args]
    if len(args) == 1 and naxes is None:
        return args[0].getattr(ctx, '_unaligned')
    if naxes is not None:
        raise Unsupported('unalign(naxes=)')
    if any(a.ndim != args[0].ndim for a in args[1:]):
        raise PyRaise('ValueError', note='varying dimensions in unalign')
    naxes = args[0].ndim
    nonins = set()
    for a in args:
        nonins |= set(a.getattr(ctx, '_unaligned')[1])
    if len(nonins) == naxes:
        return (*args, tuple(range(naxes)))
    first_where = tuple(args[0].getattr(ctx, '_unaligned')[1])
    common = first_where + tuple(sorted(nonins - set(first_where)))  # the order the real function produces
    ret = []
    for a in args:
        base, where = a.getattr(ctx, '_unaligned')
        # the argument restricted to the common axes: position q over `common` -> a at any position agreeing with q
        def mk(a=a):
            return PA(tuple(a.dims[i] for i in common),
                      lambda pos: a.at(tuple(pos[common.index(i)] if i in common else z3.IntVal(0) for i in range(a.ndim))), a.dtype,
                      name='unaligned(%s)' % a.name, unaligned=None)
        ret.append(mk())
    return (*ret, common)


class Util:
    """nutils._util as far as the bodies use it: sum = reduce(add), cumsum (offsets), gather (group by key, insertion order)."""

    def sym_getattr(self, ctx, name):
        if name == 'sum':
            def usum(ctx, seq):
                xs = ops.iterate(ctx, seq)
                if not xs:
                    raise PyRaise('TypeError', note='reduce() of empty iterable with no initial value')
                acc = xs[0]
                for x in xs[1:]:
                    acc = ops.binop(ctx, '+', acc, x)
                return acc
            return usum
        if name == 'cumsum':
            def cumsum(ctx, seq):
                out, off = [], 0
                for x in ops.iterate(ctx, seq):
                    out.append(off)
                    off = ops.binop(ctx, '+', off, x)
                return out
            return cumsum
        if name == 'gather':
            def gather(ctx, items):
                groups = []
                for key, value in ops.iterate(ctx, items):
                    for k, vs in groups:
                        if len(k) == len(key) and all(x is y for x, y in zip(k, key)):
                            vs.append(value)
                            break
                    else:
                        groups.append((key, [value]))
                return groups
            return gather
        raise Unsupported('util.' + name)


class Itertools:
    def sym_getattr(self, ctx, name):
        if name == 'chain':
            return lambda ctx, *its: [x for it in its for x in ops.iterate(ctx, it)]
        if name == 'product':
            return lambda ctx, *its: [tuple(t) for t in itertools.product(*[ops.iterate(ctx, it) for it in its])]
        raise Unsupported('itertools.' + name)


def ir_globals(**extra):
    g = dict(InsertAxis=InsertAxis, Transpose=_TransposeCls(), transpose=transpose, Range=Range, prependaxes=prependaxes,
             appendaxes=appendaxes, Take=Take, constant=constant, zeros=zeros, Guard=Guard, _flat=_flat, concatenate=concatenate,
             divmod=_divmod, Sum=Sum, Inflate=Inflate, multiply=multiply, align=align, unalign=unalign, util=Util(),
             itertools=Itertools(), asarray=asarray)
    g.update(extra)
    return g


# ------------------------------------------------------------------ fresh symbolic arrays and the scatter meaning

def fresh(cx, name, dims, dtype, report=True):
    """An array of the given dims whose elements are an uninterpreted function of the position."""
    dims = tuple(zi(d) for d in dims)
    sort = {INT: z3.IntSort(), FLOAT: z3.RealSort(), BOOL: z3.BoolSort()}[dtype]
    cds = [concrete(d) for d in dims]
    if all(d is not None for d in cds) and report:
        # concrete position space: one named constant per element (readable counter-models)
        table = {}
        for pos in itertools.product(*[range(d) for d in cds]):
            table[pos] = cx.const('%s[%s]' % (name, ','.join(map(str, pos))), sort)

        def at(pos):
            r = None
            for p, c in table.items():
                cond = z3.And(*[x == y for x, y in zip(pos, p)]) if p else z3.BoolVal(True)
                cond = z3.simplify(cond)
                if z3.is_true(cond):
                    return c
                if z3.is_false(cond):
                    continue
                r = c if r is None else z3.If(cond, c, r)
            if r is None:
                r = elem(dtype, 0) if dtype != BOOL else z3.BoolVal(False)
            return r
        return PA(dims, at, dtype, name=name)
    f = z3.Function(cx.name(name), *([z3.IntSort()] * len(dims)), sort) if dims else cx.const(name, sort, report=False)
    return PA(dims, (lambda pos: f(*pos)) if dims else (lambda pos: f), dtype, name=name)


def in_box(pos, dims):
    return z3.And(*[z3.And(0 <= p, p < d) for p, d in zip(pos, dims)]) if dims else z3.BoolVal(True)


def scatter(chunks, ndim, dtype=FLOAT):
    """dense meaning of a chunk list with CONCRETE chunk dims:  J -> sum over chunks and positions p with indices(p) = J of values(p)"""
    def at(J):
        r = elem(dtype, 0)
        for ch in chunks:
            *idx, val = ch
            for p in val.positions():
                p = tuple(z3.IntVal(x) for x in p)
                hit = z3.And(*[i.at(p) == j for i, j in zip(idx, J)]) if idx else z3.BoolVal(True)
                r = r + z3.If(hit, elem(dtype, val.at(p)), elem(dtype, 0))
        return r
    return at


# ------------------------------------------------------------------ polynomial normal form (products of symbolic reals)

def poly(t):
    """Expand a real term built from + - * If numerals and atoms (uninterpreted reals) into  {monomial: [(guard, weight)]}:
    the term equals  sum over monomials m of  (sum_i If(guard_i, weight_i, 0)) * prod(m).  Distributivity is applied here, so
    that the solver only has to compare the integer/rational indicator coefficients (linear arithmetic over the index conditions)."""
    from fractions import Fraction
    k = t.decl().kind()
    if z3.is_rational_value(t) or z3.is_int_value(t):
        w = Fraction(t.numerator_as_long(), t.denominator_as_long()) if z3.is_rational_value(t) else Fraction(t.as_long())
        return {(): [(z3.BoolVal(True), w)]} if w else {}
    if k == z3.Z3_OP_ADD:
        out = {}
        for c in t.children():
            for m, gs in poly(c).items():
                out.setdefault(m, []).extend(gs)
        return out
    if k == z3.Z3_OP_SUB and t.num_args() == 2:
        out = {m: list(gs) for m, gs in poly(t.arg(0)).items()}
        for m, gs in poly(t.arg(1)).items():
            out.setdefault(m, []).extend((g, -w) for g, w in gs)
        return out
    if k == z3.Z3_OP_UMINUS:
        return {m: [(g, -w) for g, w in gs] for m, gs in poly(t.arg(0)).items()}
    if k == z3.Z3_OP_MUL:
        acc = {(): [(z3.BoolVal(True), Fraction(1))]}
        for c in t.children():
            pc, new = poly(c), {}
            for m1, g1 in acc.items():
                for m2, g2 in pc.items():
                    m = tuple(sorted(m1 + m2, key=str))
                    new.setdefault(m, []).extend((z3.And(a, b), wa * wb) for a, wa in g1 for b, wb in g2)
            acc = new
        return acc
    if k == z3.Z3_OP_ITE:
        c = t.arg(0)
        out = {m: [(z3.And(c, g), w) for g, w in gs] for m, gs in poly(t.arg(1)).items()}
        for m, gs in poly(t.arg(2)).items():
            out.setdefault(m, []).extend((z3.And(z3.Not(c), g), w) for g, w in gs)
        return out
    if k == z3.Z3_OP_UNINTERPRETED and t.sort() == z3.RealSort():
        return {(t,): [(z3.BoolVal(True), Fraction(1))]}
    raise Unsupported('polynomial normal form of %s' % t.decl().name())


def poly_equal(lhs, rhs):
    """Sufficient condition for lhs == rhs (reals): every monomial has the same indicator coefficient on both sides."""
    pl, pr = poly(lhs), poly(rhs)
    keys = {tuple(str(a) for a in m): m for m in list(pl) + list(pr)}
    byname = lambda p: {tuple(str(a) for a in m): gs for m, gs in p.items()}
    pl, pr = byname(pl), byname(pr)
    coeff = lambda gs: z3.Sum([z3.If(g, z3.RealVal(str(w)), z3.RealVal(0)) for g, w in gs]) if gs else z3.RealVal(0)
    return z3.And(*[coeff(pl.get(k, [])) == coeff(pr.get(k, [])) for k in sorted(keys)]) if keys else z3.BoolVal(True)
