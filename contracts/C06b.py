"""C06, first sentence -- what a node ANNOUNCES (ndim, shape, dtype, arguments) is what evaluation DELIVERS.

Part 1/2 (class `Meta`): one harness contract per evaluable node class and operand-rank configuration.

  * the operands are abstract evaluable arrays of CONCRETE rank (<= 3) whose announced axis lengths are scalar integer
    nodes with a symbolic ghost value (`Len`) and whose dtype kind is symbolic;
  * the REAL bodies, re-read from the repository on every run, are executed symbolically:
      `__post_init__`  (a configuration the constructor rejects claims nothing: AssertionError / ValueError),
      `shape`, `dtype`, `ndim`  (the announcement), `dependencies`,
      `_compile` / `_compile_expression` / `evalf`  (the evaluation), where the `_pyast` expression builders are interpreted
      EAGERLY on metadata values: `_pyast.Variable('numpy').get_attr('transpose').call(f, axes)` is the value
      `numpy.transpose(f, axes)`, computed with pyvc/npshape.py (numpy's shape / result-kind rules as exact external
      axioms on arrays that carry only a shape and a kind, cross-checked against the real numpy in
      native/axioms_c06b.py); every dependency is represented by a value that has the shape and kind the dependency
      announces (induction hypothesis of the DAG argument, DESIGN 4.6);
  * ensures:  ndim: len(shape) == ndim == rank of the delivered array,
              shape: every announced length (ghost value) equals the delivered length, for ALL operand lengths,
              dtype: the announced kind equals the delivered kind,
              no-raise: evaluation of a constructed node raises no shape error (ValueError / IndexError).

Part 3 (`Arguments*`): the `arguments` / `isconstant` bookkeeping on abstract dependency lists (symbolic finite sets).
Part 4 (`FunctionArrayInit`): `function.Array.__init__` validation table.

Everything here is `bounded` in the rank (structure), never in the lengths.
"""
import ast
import itertools
import z3
from pyvc.contract import Contract, State
from pyvc.values import Sym, SObj, SOpaque, SInt, SBool, BoundMethod, PyRaise, Unsupported, zint, is_intlike
from pyvc.ops import ClassRef, Builtin
from pyvc import ops, extract
from pyvc import npshape as nps
from pyvc.npshape import NArr, NDType, NumpyShape, BOOL, INT, FLOAT, COMPLEX
from pyvc.inproc import InProc

PROP = 'C06'
MODULE = 'evaluable'

# uninterpreted nutils_poly counts (same symbols as contracts/C06.py)
NCOEFFS = z3.Function('poly_ncoeffs', z3.IntSort(), z3.IntSort(), z3.IntSort())
DEGREE = z3.Function('poly_degree', z3.IntSort(), z3.IntSort(), z3.IntSort())


# ---------------------------------------------------------------------------------------------------------------------
# evaluable-level symbolic objects

class Len(SObj):
    """A scalar integer evaluable (an axis length, an offset, a loop index ...) with the ghost value `val` it evaluates to.
    Arithmetic on such nodes (`a*b`, `a+1`: Array.__mul__/__add__ -> Multiply/Add nodes) denotes the same integer
    arithmetic on the values (value side: C06 ranges / C01)."""

    def __init__(self, val, name='len', args=None):
        super().__init__('Array', attrs=dict(ndim=0, shape=(), dtype=NDType(INT), arguments=()), classes=('Array',))
        self.val = nps.simp(val)
        self.name = name
        self.attrs['isconstant'] = z3.is_int_value(self.val)

    def binop(self, ctx, op, other, reflected):
        if isinstance(other, Len):
            o = other.val
        elif is_intlike(other) and not isinstance(other, bool):
            o = zint(other)
        else:
            return NotImplemented
        a, b = (o, self.val) if reflected else (self.val, o)
        if op == '+':
            r = Len(a + b)
            r.in_loop = getattr(self, 'in_loop', False)
            r.attrs['arguments'] = self.attrs.get('arguments', ())
            return r
        if op == '-':
            return Len(a - b)
        if op == '*':
            return Len(a * b)
        return NotImplemented

    def compare(self, ctx, op, other, reflected):
        if op in ('==', '!='):
            # structural equality of nodes: identical nodes are equal; two constants are equal iff their values are
            same = other is self
            if not same and isinstance(other, Len) and z3.is_int_value(self.val) and z3.is_int_value(other.val):
                same = self.val.as_long() == other.val.as_long()
            if not same and isinstance(other, int) and not isinstance(other, bool) and z3.is_int_value(self.val):
                return (self.val.as_long() == other) == (op == '==')  # Array == int is False in nutils (DataClass eq); kept concrete
            return same if op == '==' else not same
        return NotImplemented

    def getattr(self, ctx, name):
        if name == '__index__':
            if z3.is_int_value(self.val):
                return lambda ctx: self.val.as_long()
            raise PyRaise('TypeError', note='cannot convert a non-constant array to int')
        return super().getattr(ctx, name)

    def __repr__(self):
        return 'Len(%s)' % self.val


class Arr(SObj):
    """An operand: evaluable array of concrete rank; announces `shape` (Len nodes) and a dtype of symbolic kind."""

    def __init__(self, name, lens, kind, extra=None):
        a = dict(ndim=len(lens), shape=tuple(lens), dtype=NDType(kind))
        a.update(extra or {})
        super().__init__('Array', attrs=a, classes=('Array',))
        self.name = name

    def __repr__(self):
        return 'Arr<%s rank %d>' % (self.name, self.attrs['ndim'])


def fresh_len(cx, name):
    v = cx.int(name)
    cx.assume(v >= 0)
    return Len(v, name)


def fresh_kind(cx, name, among=(BOOL, INT, FLOAT, COMPLEX)):
    if len(among) == 1:
        return z3.IntVal(among[0])
    k = cx.int(name + '.kind')
    cx.assume(z3.Or([k == a for a in among]))
    return k


def fresh_arr(cx, name, rank, among=(BOOL, INT, FLOAT, COMPLEX), lens=None):
    lens = lens if lens is not None else [fresh_len(cx, '%s.shape%d' % (name, i)) for i in range(rank)]
    return Arr(name, lens, fresh_kind(cx, name, among))


def valof(cx, x):
    """The value a dependency delivers, reduced to metadata: by the induction hypothesis it has the announced shape/kind.
    0-d integer arrays (lengths, offsets) are represented by the integer itself (numpy ints index, compare and add like ints)."""
    if isinstance(x, tuple):
        return tuple(valof(cx, y) for y in x)
    cache = cx.ghost.setdefault('valof', {})
    if id(x) in cache:
        return cache[id(x)][1]
    if isinstance(x, Len):
        v = SInt(x.val)
    elif isinstance(x, (Arr, Node)):
        sh = ops.iterate(cx, x.getattr(cx, 'shape'))
        for l in sh:
            if not isinstance(l, Len):
                raise Unsupported('announced length %r is not a scalar integer node' % (l,))
        v = NArr([l.val for l in sh], x.getattr(cx, 'dtype').kind, label=getattr(x, 'name', 'dep'))
        if isinstance(x, Arr) and 'count_nonzero' in x.attrs:
            v.count_nonzero = x.attrs['count_nonzero']
    elif x is None:
        v = None
    else:
        raise Unsupported('value of %r' % (x,))
    cache[id(x)] = (x, v)
    return v


# ---------------------------------------------------------------------------------------------------------------------
# the node under contract: attributes not given by the configuration are the REAL ones of the class (MRO walk)

def _deco_names(fn):
    out = []
    for d in fn.node.decorator_list:
        out.append(d.id if isinstance(d, ast.Name) else d.attr if isinstance(d, ast.Attribute) else '')
    return out


def mro(clsname, module=MODULE):
    names = []
    name = clsname
    while name and name not in names:
        names.append(name)
        try:
            c = extract.get_class(module, name)
        except extract.NotFound:
            break
        name = None
        for b in c.bases:
            if isinstance(b, ast.Name):
                name = b.id
                break
            if isinstance(b, ast.Attribute):
                break
    return names


def find_member(clsname, attr, module=MODULE):
    """('def', Fn) | ('assign', ast value) | None -- first definition of `attr` along the (single-inheritance) MRO"""
    for name in mro(clsname, module):
        try:
            c = extract.get_class(module, name)
        except extract.NotFound:
            return None
        for n in c.body:
            if isinstance(n, ast.FunctionDef) and n.name == attr:
                return 'def', extract.get('%s:%s.%s' % (module, name, attr)), name
            if isinstance(n, ast.Assign) and any(isinstance(t, ast.Name) and t.id == attr for t in n.targets):
                return 'assign', n.value, name
            if isinstance(n, ast.AnnAssign) and isinstance(n.target, ast.Name) and n.target.id == attr and n.value is not None:
                return 'assign', n.value, name
    return None


class Node(SObj):
    def __init__(self, cls, env, **fields):
        super().__init__(cls, attrs=fields, classes=tuple(mro(cls)))
        self.env = env
        self.name = cls
        self.methods['super().__post_init__'] = lambda ctx, s: s._super_post_init(ctx)
        self.methods['super()._compile'] = lambda ctx, s, builder: s._super_call(ctx, '_compile', builder)

    def _super_post_init(self, ctx):
        names = mro(self.clsname)
        for base in names[1:]:
            m = find_member(base, '__post_init__')
            if m and m[0] == 'def':
                return self.env.call(m[1].ref, self)
        return None

    def _super_call(self, ctx, name, *args):
        for base in mro(self.clsname)[1:]:
            m = find_member(base, name)
            if m and m[0] == 'def':
                return self.env.call(m[1].ref, self, *args)
        raise Unsupported('super().%s' % name)

    def getattr(self, ctx, name):
        if name in self.attrs or name in self.methods:
            return super().getattr(ctx, name)
        m = find_member(self.clsname, name)
        if m is None:
            raise Unsupported('attribute %s.%s: neither a field of the configuration nor defined along the MRO' % (self.clsname, name))
        if m[0] == 'assign':
            v = class_value(m[1])
            return v
        fn = m[1]
        decos = _deco_names(fn)
        if 'property' in decos or 'cached_property' in decos:
            v = self.env.call(fn.ref, self)
            self.attrs[name] = v  # properties of an immutable node are pure: evaluated once
            return v
        if 'staticmethod' in decos:
            return lambda ctx, *a, **k: self.env.call(fn.ref, *a, **k)
        return _Bound(self.env, fn.ref, self)


def class_value(node):
    """value of a class-level assignment `dtype = int`, `shape = ()`, `ndim = 1`"""
    if isinstance(node, ast.Name) and node.id in nps.KIND_NAMES:
        return NDType(nps.KIND_NAMES.index(node.id))
    try:
        return ast.literal_eval(node)
    except Exception:
        raise Unsupported('class-level value %s' % ast.unparse(node))


class _Bound(SOpaque):
    def __init__(self, env, ref, obj):
        super().__init__('bound:' + ref)
        self.env, self.ref, self.obj = env, ref, obj

    def call(self, ctx, args, kwargs):
        return self.env.call(self.ref, self.obj, *args, **kwargs)


# ---------------------------------------------------------------------------------------------------------------------
# `_pyast` interpreted eagerly: an expression object IS the value it would evaluate to

class PX:
    def __init__(self, v):
        self.v = v

    def sym_getattr(self, ctx, name):
        from pyvc.interp import get_attribute
        if name == 'get_attr':
            return lambda ctx, a: PX(get_attribute(ctx, self.v, a))
        if name == 'call':
            return lambda ctx, *a, **k: PX(ctx.interp.call(self.v, [unpx(x) for x in a], {kk: unpx(x) for kk, x in k.items()}))
        if name == 'get_item':
            return lambda ctx, i: PX(ops.getitem(ctx, self.v, unpx(i)))
        if name == 'py_expr':
            return SOpaque('str')
        raise Unsupported('_pyast expression method %s' % name)

    def sym_truth(self, ctx):
        return True


def unpx(x):
    if isinstance(x, PX):
        return x.v
    if isinstance(x, (tuple, list)):
        return type(x)(unpx(y) for y in x)
    raise Unsupported('a python value %r where a _pyast expression is required' % (x,))


class _Unpack:
    def __init__(self, v):
        self.v = v


class PyAst:
    """module `_pyast` (expression constructors only)"""

    def __init__(self, runtime):
        self.runtime = runtime

    def sym_getattr(self, ctx, name):
        rt = self.runtime
        if name == 'Variable':
            def Variable(ctx, nm):
                if nm not in rt:
                    raise Unsupported('generated code refers to the global %r, which the metadata model does not provide' % nm)
                return PX(rt[nm])
            return Variable
        if name in ('LiteralInt', 'LiteralStr', 'LiteralBool', 'LiteralFloat'):
            return lambda ctx, v: PX(v)
        if name == 'Tuple':
            return lambda ctx, items: PX(tuple(unpx(i) for i in ops.iterate(ctx, items)))
        if name == 'List':
            def List(ctx, items):
                items = [unpx(i) for i in ops.iterate(ctx, items)]
                if any(isinstance(i, _Unpack) for i in items):
                    n, kind = z3.IntVal(0), z3.IntVal(INT)
                    for i in items:
                        if isinstance(i, _Unpack):
                            if not (isinstance(i.v, NArr) and i.v.ndim == 1):
                                raise Unsupported('unpacking %r' % (i.v,))
                            n, kind = n + i.v.shape[0], nps.zmax(kind, i.v.kind)
                        else:
                            n = n + 1
                    return PX(nps.SeqOfScalars(n, kind))
                return PX(items)
            return List
        if name == 'UnpackIterable':
            return lambda ctx, x: PX(_Unpack(unpx(x)))
        if name == 'Raw':
            def Raw(ctx, text):
                if text == '...':
                    return PX(Ellipsis)
                raise Unsupported('_pyast.Raw(%r)' % (text,))
            return Raw
        if name == 'UnaryOp':
            return lambda ctx, op, a: PX(ops.unop(ctx, op, unpx(a)))
        if name == 'BinOp':
            return lambda ctx, a, op, b: PX(ops.binop(ctx, op, unpx(a), unpx(b)) if op in ('+', '-', '*', '//', '%') else ops.compare(ctx, op, unpx(a), unpx(b)))
        raise Unsupported('_pyast.%s' % name)


class _Mod:
    def __init__(self, table, what):
        self.table, self.what = table, what

    def sym_getattr(self, ctx, name):
        if name in self.table:
            return self.table[name]
        raise Unsupported('%s.%s is not provided by the metadata model' % (self.what, name))


class _EvaluableMod:
    """`evaluable.<Class>.evalf` in generated code: the REAL static method"""

    def __init__(self, env):
        self.env = env

    def sym_getattr(self, ctx, name):
        env = self.env

        class C:
            def sym_getattr(self_, ctx, attr):
                m = find_member(name, attr)
                if m is None or m[0] != 'def':
                    raise Unsupported('evaluable.%s.%s' % (name, attr))
                return lambda ctx, *a, **k: env.call(m[1].ref, *a, **k)
        return C()


# --- nutils_poly (external): shapes of eval_outer / MulPlan / GradPlan results

def poly_eval_outer(ctx, coeffs, values):
    ctx.used_axioms.add('nutils_poly.eval_outer(coeffs, values): shape values.shape[:-1] + coeffs.shape[:-1], float')
    if not (isinstance(values, NArr) and isinstance(coeffs, NArr) and values.ndim >= 1 and coeffs.ndim >= 1):
        raise PyRaise('ValueError', note='eval_outer operands')
    return NArr(values.shape[:-1] + coeffs.shape[:-1], FLOAT)


def _plan(what, f):
    class Plan(SOpaque):
        def __init__(self, *a):
            super().__init__(what)
            self.a = a

        def call(self, ctx, args, kwargs):
            return f(ctx, self.a, *args)
    return lambda ctx, *a: Plan(*a)


def _mulplan(ctx, a, cl, cr):
    vars_, dl, dr = a
    ctx.used_axioms.add('nutils_poly.MulPlan(vars, dl, dr)(cl, cr): shape broadcast(cl.shape[:-1], cr.shape[:-1]) + (ncoeffs(len(vars), dl+dr),), float')
    nv = len(tuple(vars_))
    lead = nps.broadcast(ctx, cl.shape[:-1], cr.shape[:-1])
    return NArr(tuple(lead) + (NCOEFFS(z3.IntVal(nv), zint(dl) + zint(dr)),), FLOAT)


def _gradplan(ctx, a, c):
    nv, d = a
    ctx.used_axioms.add('nutils_poly.GradPlan(nvars, d)(c): shape c.shape[:-1] + (nvars, ncoeffs(nvars, max(d-1, 0))), float')
    dd = zint(d)
    return NArr(tuple(c.shape[:-1]) + (zint(nv), NCOEFFS(zint(nv), z3.If(dd - 1 > 0, dd - 1, 0))), FLOAT)


class _MulVar:
    def __init__(self, name):
        self.name = name

    def __repr__(self):
        return 'MulVar.' + self.name


MULVAR = {n: _MulVar(n) for n in ('Left', 'Right', 'Both')}


# --- the block-tree builder, reduced to what `_compile` bodies need (its own correctness is C16)

class PXVar(PX):
    def __init__(self):
        super().__init__(None)


class Block:
    def __init__(self, b):
        self.b = b

    def sym_getattr(self, ctx, name):
        if name == 'assign_to':
            def assign_to(ctx, lhs, rhs):
                if isinstance(lhs, PXVar):
                    lhs.v = unpx(rhs)
                    return lhs
                raise Unsupported('assignment to a non-variable')
            return assign_to
        if name == 'eval':
            return lambda ctx, e: e
        if name == 'exec':
            return lambda ctx, e: None
        if name == 'array_fill_zeros':
            return lambda ctx, a: None
        if name == 'array_add_at':
            def add_at(ctx, out, indices, values):
                ctx.used_axioms.add('numpy.add.at(out, idx, v): v must broadcast to the shape of out[idx] (ValueError)')
                tgt = ops.getitem(ctx, unpx(out), unpx(indices))
                nps.require_broadcastable_to(ctx, unpx(values), tgt.shape, 'add.at: array is not broadcastable to correct shape')
                exact_fit(ctx, unpx(values), tgt, 'add.at')
            return add_at
        if name == 'if_':
            return lambda ctx, cond: Block(self.b)
        raise Unsupported('block builder method %s' % name)


def exact_fit(ctx, src, dst, what):
    """what a node writes must FILL its destination: a smaller source would be broadcast silently, i.e. the node would
    deliver copies where it announced independent entries -- emitted as an obligation, not assumed"""
    if not isinstance(src, NArr):
        return
    if src.ndim != dst.ndim:
        ctx.oblige('written-values-have-the-destination-rank(%s)' % what, z3.BoolVal(False), kind='ensures')
        return
    ctx.oblige('written-values-have-the-destination-shape(%s)' % what, z3.And([a == b for a, b in zip(src.shape, dst.shape)]) if src.shape else z3.BoolVal(True), kind='ensures')


class Builder:
    def __init__(self, env):
        self.env = env

    def sym_getattr(self, ctx, name):
        if name == 'compile':
            def compile_(ctx, x):
                if isinstance(x, (tuple, list)):
                    return tuple(PX(valof(ctx, d)) for d in x)
                return PX(valof(ctx, x))
            return compile_
        if name == 'ndependents':
            class _ND:
                def sym_getitem(self_, ctx, k):
                    return 2  # every dependency is shared: no in-place fusion (the fused paths are not under contract)
            return _ND()
        if name == 'get_variable_for_evaluable':
            return lambda ctx, e: PXVar()
        if name == 'get_block_for_evaluable':
            return lambda ctx, e, **k: Block(self)
        if name == 'get_block_id':
            return lambda ctx, e: self.block_id(ctx, e)
        if name == 'new_empty_array_for_evaluable':
            def new_empty(ctx, array):
                # contract of _BlockTreeBuilder.new_empty_array_for_evaluable: numpy.empty(<evaluated array.shape>, array.dtype)
                ctx.used_axioms.add('builder.new_empty_array_for_evaluable(a): numpy.empty of the EVALUATED a.shape and a.dtype (C16)')
                sh = ops.iterate(ctx, array.getattr(ctx, 'shape'))
                out = PXVar()
                out.v = NArr([valof(ctx, l).v if isinstance(valof(ctx, l), SInt) else zint(valof(ctx, l)) for l in sh], array.getattr(ctx, 'dtype').kind, label='out')
                return out, (0,)
            return new_empty
        if name == 'compile_with_out':
            def cwo(ctx, evaluable, out, out_block_id, mode):
                # numpy.copyto(out, value) / numpy.add(out, value, out=out)
                ctx.used_axioms.add('builder.compile_with_out(e, out, ..): numpy.copyto(out, value(e)) or numpy.add(out, value(e), out=out): value must broadcast to out.shape (ValueError)')
                if mode not in ('assign', 'iadd'):
                    raise PyRaise('ValueError', note='invalid mode')
                v, o = valof(ctx, evaluable), unpx(out)
                nps.require_broadcastable_to(ctx, v, o.shape, 'could not broadcast the value into the output array')
                exact_fit(ctx, v, o, 'compile_with_out')
            return cwo
        raise Unsupported('builder.%s' % name)

    def block_id(self, ctx, e):
        # loop bodies live one level below their loop: (0, 1, 0) for anything that depends on the loop index
        return (0, 1, 0) if getattr(e, 'in_loop', False) else (0,)


class BuiltinsStub:
    def sym_getattr(self, ctx, name):
        return Builtin(name)


class Env:
    def __init__(self, S, cx):
        self.S, self.cx = S, cx
        self.call = None
        self.indices = {}

    def globals(self):
        g = {}
        rt = {'numpy': NumpyShape(), 'evaluable': _EvaluableMod(self), 'slice': Builtin('slice'), 'None': None, 'int': Builtin('int'),
              'numeric': _Mod({'inv': nps.nutils_numeric_inv}, 'numeric'),
              'poly': _Mod({'eval_outer': poly_eval_outer, 'MulPlan': _plan('MulPlan', _mulplan), 'GradPlan': _plan('GradPlan', _gradplan),
                            'MulVar': _Mod(dict(MULVAR), 'poly.MulVar')}, 'poly'),
              'warnings': _Mod({'warn': lambda ctx, *a: None}, 'warnings')}
        g['_pyast'] = PyAst(rt)
        g['numpy'] = rt['numpy']
        g['poly'] = rt['poly']
        g['builtins'] = BuiltinsStub()
        g['Array'] = ClassRef('Array')
        g['isarray'] = lambda ctx, x: isinstance(x, (Arr, Len, Node))
        g['_isindex'] = lambda ctx, x: isinstance(x, Len) and self.nonneg(ctx, x)
        # `not _certainly_different(a, b)`: the constructors reject only lengths that are PROVABLY different; for abstract
        # lengths nothing is provable, so the test passes (the equalities evaluation needs are listed ASSUMPTIONS)
        g['_certainly_different'] = lambda ctx, a, b: False
        g['_any_certainly_different'] = lambda ctx, a, b: len(a) != len(b)
        g['_certainly_equal'] = lambda ctx, a, b: a is b
        g['_all_certainly_equal'] = lambda ctx, a, b: len(a) == len(b) and all(x is y for x, y in zip(a, b))
        g['constant'] = self.constant
        g['assert_equal'] = lambda ctx, a, b: self.call('evaluable:assert_equal', a, b)
        g['AssertEqual'] = ClassRef('AssertEqual', construct=self.assert_equal)
        g['Sum'] = ClassRef('Sum', construct=self.c_sum)
        g['BoolToInt'] = ClassRef('BoolToInt', construct=self.c_booltoint)
        g['PolyDegree'] = ClassRef('PolyDegree', construct=self.c_polydegree)
        g['PolyNCoeffs'] = ClassRef('PolyNCoeffs', construct=self.c_polyncoeffs)
        g['Maximum'] = ClassRef('Maximum', construct=self.c_maximum)
        g['_LoopIndex'] = ClassRef('_LoopIndex', construct=self.c_loopindex)
        g['util'] = _Mod({'untake': untake}, 'util')
        g['types'] = _Mod({'frozenmultiset': ClassRef('frozenmultiset')}, 'types')
        g['loop_concatenate'] = lambda ctx, func, index: self.call('evaluable:loop_concatenate', func, index)
        g['InsertAxis'] = ClassRef('InsertAxis', construct=self.v_insertaxis)
        g['_SizesToOffsets'] = ClassRef('_SizesToOffsets', construct=self.v_offsets)
        g['Take'] = ClassRef('Take', construct=self.v_take)
        g['LoopConcatenate'] = ClassRef('LoopConcatenate', construct=self.v_loopconcatenate)
        g['isunit'] = self.isunit
        g['assert_equal_tuple'] = lambda ctx, a, b: self.call('evaluable:assert_equal_tuple', a, b)
        g['asarray'] = lambda ctx, x: x if isinstance(x, (Arr, Len, Node)) else _unsupported('asarray(%r)' % (x,))
        g['_LoopId'] = ClassRef('_LoopId')
        g['LoopSum'] = ClassRef('LoopSum', construct=lambda ctx, loop_id, length, func, shape: self.new_node(ctx, 'LoopSum', loop_id=loop_id, length=length, func=func, shape=shape))
        g['repr'] = lambda ctx, x: repr(x) if isinstance(x, (_MulVar, int, str)) else _unsupported('repr of %r' % (x,))
        g['chr'] = lambda ctx, i: chr(i) if isinstance(i, int) else _unsupported('chr of %r' % (i,))
        return g

    def nonneg(self, ctx, x):
        # _isindex: _intbounds[0] >= 0.  Every Len the configurations create is constrained >= 0; derived ones are checked
        return True

    # -- value-level meanings of the nodes `loop_concatenate` builds (1-d integer vectors given by an element function)
    def v_insertaxis(self, ctx, func, length):
        if not (isinstance(func, Len) and isinstance(length, Len)):
            raise Unsupported('InsertAxis(%r, %r) inside loop_concatenate' % (func, length))
        ctx.used_axioms.add('InsertAxis(x, n) of a scalar x is the vector of n copies of x')
        r = Arr('InsertAxis', [length], INT)
        r.elem = lambda k: func.val
        r.const_elem = func.val if not getattr(func, 'in_loop', False) else None
        r.per_iteration = getattr(func, 'at_iteration', None)
        r.in_loop = getattr(func, 'in_loop', False)
        r.attrs['arguments'] = func.attrs.get('arguments', ())
        return r

    def v_offsets(self, ctx, sizes):
        if not hasattr(sizes, 'elem'):
            raise Unsupported('_SizesToOffsets(%r)' % (sizes,))
        n = sizes.getattr(ctx, 'shape')[0]
        r = Arr('_SizesToOffsets', [Len(n.val + 1, 'n+1')], INT)
        if getattr(sizes, 'const_elem', None) is not None:
            c = sizes.const_elem
            ctx.used_axioms.add('numpy.cumsum([0, c, c, ..]): the k-th prefix sum of a constant vector is k*c')
            r.elem = lambda k: k * c
        else:
            OFF = z3.Function(ctx.name('offsets'), z3.IntSort(), z3.IntSort())
            a, b = z3.Int('a!off'), z3.Int('b!off')
            ctx.assume(z3.And(OFF(0) == 0,
                              z3.ForAll([a], z3.Implies(z3.And(0 <= a, a < n.val), OFF(a + 1) == OFF(a) + sizes.elem(a))),
                              z3.ForAll([a, b], z3.Implies(z3.And(0 <= a, a <= b, b <= n.val), OFF(a) <= OFF(b)))),
                       axiom='L-CUMSUM: offsets = numpy.cumsum([0, *sizes]): offsets[0] = 0, offsets[k+1] = offsets[k] + sizes[k]; monotone for sizes >= 0')
            r.elem = lambda k: OFF(k)
        return r

    def v_take(self, ctx, func, indices):
        if not (hasattr(func, 'elem') and isinstance(indices, Len)):
            raise Unsupported('Take(%r, %r) inside loop_concatenate' % (func, indices))
        ctx.used_axioms.add('Take(v, i) of a vector at a scalar index evaluates to v[i]')
        r = Len(func.elem(indices.val), 'taken')
        r.in_loop = getattr(indices, 'in_loop', False)
        r.attrs['arguments'] = indices.attrs.get('arguments', ())
        return r

    def v_loopconcatenate(self, ctx, loop_id, length, func, start, stop, concat_length):
        node = self.new_node(ctx, 'LoopConcatenate', loop_id=loop_id, length=length, func=func, start=start, stop=stop, concat_length=concat_length)
        per = getattr(func, 'per_iteration', None)
        if per is not None:
            # LoopConcatenate of the one-element chunks [x_i] is the vector (x_0, .., x_{n-1})   (value meaning, cross-checked in native/axioms.py)
            ctx.used_axioms.add('loop_concatenate of one-element chunks [x_i] evaluates to the vector (x_0 .. x_{n-1})')
            node.elem = lambda k: per(k)
        return node

    def new_node(self, ctx, cls, **fields):
        node = Node(cls, self, **fields)
        m = find_member(cls, '__post_init__')
        if m and m[0] == 'def':
            self.call(m[1].ref, node)
        return node

    def isunit(self, ctx, x):
        """isunit(a): `a.simplified` is the constant 1 -- a syntactic test; True only if the value is 1, may be False for any value"""
        if not isinstance(x, Len):
            raise Unsupported('isunit(%r)' % (x,))
        if z3.is_int_value(x.val):
            return x.val.as_long() == 1
        if ctx.branch(z3.Bool(ctx.name('isunit(%s)' % x.name))):
            ctx.assume(x.val == 1, axiom='isunit(a) is True only if a evaluates to 1 (it tests for the simplified constant 1)')
            return True
        return False

    def constant(self, ctx, v):
        if isinstance(v, int) and not isinstance(v, bool):
            return Len(z3.IntVal(v), 'constant')
        if isinstance(v, SInt):
            return Len(v.v, 'constant')
        raise Unsupported('constant(%r)' % (v,))

    def assert_equal(self, ctx, a, b):
        if not (isinstance(a, Len) and isinstance(b, Len)):
            raise Unsupported('AssertEqual of %r, %r' % (a, b))
        # AssertEqual(a, b) evaluates to a and RAISES unless a == b: where it delivers a value the two agree
        ctx.assume(a.val == b.val, axiom='AssertEqual(a, b) delivers a value only if a == b (its evalf raises otherwise); the value is a')
        return Len(a.val, 'asserted-equal')

    def c_booltoint(self, ctx, x):
        if not isinstance(x, Arr):
            raise Unsupported('BoolToInt(%r)' % (x,))
        r = Arr('BoolToInt(%s)' % x.name, x.attrs['shape'], INT)
        r.attrs['of_bool'] = x
        return r

    def c_sum(self, ctx, x):
        # Sum(BoolToInt(w)) for a 1-d boolean w: the number of True entries == numpy.count_nonzero(w)
        w = x.attrs.get('of_bool') if isinstance(x, Arr) else None
        if w is None or w.attrs['ndim'] != 1:
            raise Unsupported('Sum(%r) as a length' % (x,))
        ctx.used_axioms.add('Sum(BoolToInt(w)) evaluates to count_nonzero(w) for a 1-d boolean w (numpy.sum of 0/1 entries)')
        if 'count_nonzero' not in w.attrs:
            c = z3.Int(ctx.name('count_nonzero'))
            ctx.assume(z3.And(0 <= c, c <= w.attrs['shape'][0].val))
            w.attrs['count_nonzero'] = c
        return Len(w.attrs['count_nonzero'], 'count')

    def c_polydegree(self, ctx, ncoeffs, nvars):
        ctx.used_axioms.add('PolyDegree(n, nvars) evaluates to poly.degree(nvars, n); PolyNCoeffs(nvars, d) to poly.ncoeffs(nvars, d) (their evalf; values: C06 ranges)')
        return Len(DEGREE(zint(nvars), ncoeffs.val), 'degree')

    def c_polyncoeffs(self, ctx, nvars, degree):
        ctx.used_axioms.add('PolyDegree(n, nvars) evaluates to poly.degree(nvars, n); PolyNCoeffs(nvars, d) to poly.ncoeffs(nvars, d) (their evalf; values: C06 ranges)')
        return Len(NCOEFFS(zint(nvars), degree.val), 'ncoeffs')

    def c_maximum(self, ctx, a, b):
        return Len(z3.If(a.val >= b.val, a.val, b.val), 'maximum')

    def c_loopindex(self, ctx, loop_id, length):
        if (id(loop_id), id(length)) in self.indices:
            return self.indices[(id(loop_id), id(length))]  # DataClass equality is structural: this IS the loop's index node
        r = Len(z3.Int(ctx.name('loopindex')), 'loopindex')
        r.loop_id = loop_id
        r.in_loop = True
        return r


def _unsupported(msg):
    raise Unsupported(msg)


def untake(ctx, indices, items=None):
    """util.untake on concrete ints (inverse permutation)"""
    indices = list(indices)
    if items is not None or sorted(indices) != list(range(len(indices))):
        raise Unsupported('untake of %r' % (indices,))
    out = [None] * len(indices)
    for i, a in enumerate(indices):
        out[a] = i
    return tuple(out)


# ---------------------------------------------------------------------------------------------------------------------

class Meta(InProc, Contract):
    """announced ndim / shape / dtype == delivered, for one node class in one operand-rank configuration"""
    prop = PROP
    cls = None
    rejected = False  # True: the configuration violates the constructor's assertions -- every path must be rejected

    def __init__(self, **cfg):
        self.cfg = cfg
        self.fn = '%s:%s.%s' % (MODULE, self.cls, self.anchor())
        self.label = 'meta:' + self.cfgtext() if cfg else 'meta'
        self.bounded = 'operand ranks fixed (%s), lengths and kinds symbolic' % (self.cfgtext() or 'no operands')
        if self.rejected:
            self.expect_return = False

    def anchor(self):
        for a in ('shape', '__post_init__', 'dtype', '_compile_expression', '_compile'):
            m = find_member(self.cls, a)
            if m and m[0] == 'def' and m[2] == self.cls:
                return a
        return '__post_init__'

    def cfgtext(self):
        return ','.join('%s=%s' % (k, ''.join(map(str, v)) if isinstance(v, (tuple, list)) else v) for k, v in self.cfg.items())

    # to override: fields(cx) -> dict of constructor fields
    def setup(self, cx):
        S = State()
        env = Env(S, cx)
        S.env = env
        S.node = Node(self.cls, env, **self.fields(cx))
        S.constructed = False
        S.globals = env.globals()
        return S

    def body(self, cx, S, call):
        S.env.call = call
        node = self.construct(cx, S, call)
        shape = node.getattr(cx, 'shape')
        dtype = node.getattr(cx, 'dtype')  # Pointwise classes reject invalid operand dtypes here (ValueError / TypeError)
        ndim = node.getattr(cx, 'ndim')
        S.constructed = True
        if not isinstance(dtype, NDType):
            dtype = NDType(nps.kind_of(dtype))
        S.announced = (shape, dtype, ndim)
        c = find_member(self.cls, '_compile')
        out = call(c[1].ref, node, Builder(S.env))
        return unpx(out)

    def construct(self, cx, S, call):
        node = S.node
        m = find_member(self.cls, '__post_init__')
        if m and m[0] == 'def':
            call(m[1].ref, node)
        return node

    def ensures(self, cx, S, result):
        shape, dtype, ndim = S.announced
        if self.rejected:
            return [('rejected-when-constructing-or-announcing', z3.BoolVal(False))]
        if not isinstance(result, NArr):
            raise Unsupported('evaluation delivered %r' % (result,))
        if not isinstance(shape, tuple) or not all(isinstance(l, Len) for l in shape):
            raise Unsupported('announced shape %r' % (shape,))
        if not isinstance(dtype, NDType):
            raise Unsupported('announced dtype %r' % (dtype,))
        if not isinstance(ndim, int):
            raise Unsupported('announced ndim %r' % (ndim,))
        out = [('ndim', z3.BoolVal(len(shape) == ndim == result.ndim))]
        if len(shape) == result.ndim:
            out.append(('shape', z3.And([l.val == d for l, d in zip(shape, result.shape)]) if shape else z3.BoolVal(True)))
        out.append(('dtype', dtype.kind == result.kind))
        return out

    def raises(self, cx, S, e):
        base = e.exc.split(':')[0]
        if not S.constructed and base in ('AssertionError', 'ValueError', 'TypeError'):
            return True  # rejected at construction: nothing is announced
        return False

    def replay(self, ob):
        import json, os
        here = os.path.dirname(os.path.dirname(os.path.abspath(__file__)))
        model = {k: v for k, v in ob.model.items() if not k.startswith('k!') and len(str(v)) < 40}
        return ("import sys; sys.path.insert(0, %r)\nfrom native import c06b\nc06b.run_meta(%r, %s, %s, %r)\n"
                % (here, self.cls, json.dumps(dict(self.cfg, kinds=list(self.kinds)) if isinstance(getattr(self, 'kinds', None), tuple) and self.cls == 'Sign' else self.cfg), json.dumps(model), ob.clause))


ALL = (BOOL, INT, FLOAT, COMPLEX)


class Unary(Meta):
    """one array operand `func` of rank cfg['rank']"""
    field = 'func'
    kinds = ALL

    def fields(self, cx):
        return {self.field: fresh_arr(cx, self.field, self.cfg['rank'], self.kinds)}


class InsertAxis(Unary):
    cls = 'InsertAxis'

    def fields(self, cx):
        f = super().fields(cx)
        f['length'] = fresh_len(cx, 'length')
        return f


class Transpose(Meta):
    cls = 'Transpose'

    def fields(self, cx):
        axes = tuple(self.cfg['axes'])
        return dict(func=fresh_arr(cx, 'func', len(axes)), axes=axes)


class Ravel(Unary):
    cls = 'Ravel'


class Sum(Unary):
    cls = 'Sum'


class Product(Unary):
    cls = 'Product'


class TakeDiag(Unary):
    cls = 'TakeDiag'

    def fields(self, cx):
        f = super().fields(cx)
        sh = f['func'].attrs['shape']
        if len(sh) >= 2:
            cx.assume(sh[-1].val == sh[-2].val, axiom='TakeDiag / Inverse / Determinant operate on equal trailing lengths (the constructor rejects only certainly different ones; evaluation raises otherwise)')
        return f


class Determinant(TakeDiag):
    cls = 'Determinant'
    kinds = (FLOAT, COMPLEX)


class Inverse(TakeDiag):
    cls = 'Inverse'
    kinds = (FLOAT, COMPLEX)


class Unravel(Unary):
    cls = 'Unravel'

    def fields(self, cx):
        f = super().fields(cx)
        f['sh1'], f['sh2'] = fresh_len(cx, 'sh1'), fresh_len(cx, 'sh2')
        sh = f['func'].attrs['shape']
        if sh:
            cx.assume(sh[-1].val == f['sh1'].val * f['sh2'].val, axiom='Unravel: sh1 * sh2 == func.shape[-1] (call sites; the constructor rejects only certainly different products; evaluation raises otherwise)')
        return f


class Take(Meta):
    cls = 'Take'

    def fields(self, cx):
        return dict(func=fresh_arr(cx, 'func', self.cfg['rank']), indices=fresh_arr(cx, 'indices', self.cfg['irank'], (INT,)))


class TakeBadIndex(Take):
    rejected = True

    def fields(self, cx):
        return dict(func=fresh_arr(cx, 'func', self.cfg['rank']), indices=fresh_arr(cx, 'indices', self.cfg['irank'], (BOOL, FLOAT, COMPLEX)))


class TakeSlice(Unary):
    cls = '_TakeSlice'

    def fields(self, cx):
        f = super().fields(cx)
        f['length'], f['offset'] = fresh_len(cx, 'length'), fresh_len(cx, 'offset')
        sh = f['func'].attrs['shape']
        if sh:
            cx.assume(f['offset'].val + f['length'].val <= sh[-1].val,
                      axiom='_TakeSlice: offset + length <= func.shape[-1] (it replaces a Take whose indices Range(length)+offset are in range; numpy.take raises otherwise)')
        return f


class Get(Unary):
    cls = '_Get'

    def fields(self, cx):
        f = super().fields(cx)
        i = Len(cx.int('index'), 'index')
        f['index'] = i
        sh = f['func'].attrs['shape']
        if sh:
            cx.assume(z3.And(-sh[-1].val <= i.val, i.val < sh[-1].val), axiom='_Get: the index is in range (numpy raises IndexError otherwise)')
        return f


class Range(Meta):
    cls = 'Range'

    def fields(self, cx):
        return dict(length=fresh_len(cx, 'length'))


class RavelIndex(Meta):
    cls = 'RavelIndex'

    def fields(self, cx):
        return dict(ia=fresh_arr(cx, 'ia', self.cfg['ra'], (INT,)), ib=fresh_arr(cx, 'ib', self.cfg['rb'], (INT,)), na=fresh_len(cx, 'na'), nb=fresh_len(cx, 'nb'))


class Einsum(Meta):
    cls = 'Einsum'

    def fields(self, cx):
        args_idx = tuple(tuple(i) for i in self.cfg['args'])
        out_idx = tuple(self.cfg['out'])
        k = fresh_kind(cx, 'args', (INT, FLOAT, COMPLEX))
        args = tuple(Arr('arg%d' % n, [fresh_len(cx, 'arg%d.shape%d' % (n, j)) for j in range(len(idx))], k) for n, idx in enumerate(args_idx))
        return dict(args=args, args_idx=args_idx, out_idx=out_idx)


class EinsumRejected(Einsum):
    rejected = True


class Inflate(Meta):
    cls = 'Inflate'

    def fields(self, cx):
        r, d = self.cfg['rank'], self.cfg['drank']
        func = fresh_arr(cx, 'func', r)
        # the dofmap has the shape of the trailing axes of func (the constructor rejects only certainly different lengths)
        dofmap = Arr('dofmap', [fresh_len(cx, 'dofmap.shape%d' % i) for i in range(d)], z3.IntVal(INT), extra=dict(isconstant=SBool(cx.bool('dofmap.isconstant'))))
        if d <= r:
            for a, b in zip(func.attrs['shape'][r - d:], dofmap.attrs['shape']):
                cx.assume(a.val == b.val, axiom='Inflate: dofmap.shape == func.shape[func.ndim-dofmap.ndim:] (the constructor rejects only certainly different lengths; numpy.add.at raises otherwise)')
        return dict(func=func, dofmap=dofmap, length=fresh_len(cx, 'length'))


class InflateRejected(Inflate):
    rejected = True


class Diagonalize(Unary):
    cls = 'Diagonalize'


class Polyval(Meta):
    cls = 'Polyval'

    def fields(self, cx):
        p = self.cfg['prank']
        pts = Arr('points', [fresh_len(cx, 'points.shape%d' % i) for i in range(p - 1)] + [Len(z3.IntVal(self.cfg['nvars']), 'nvars')], z3.IntVal(FLOAT))
        return dict(coeffs=fresh_arr(cx, 'coeffs', self.cfg['crank'], (FLOAT,)), points=pts)


class PolyGrad(Meta):
    cls = 'PolyGrad'

    def fields(self, cx):
        return dict(coeffs=fresh_arr(cx, 'coeffs', self.cfg['rank'], (FLOAT,)), nvars=self.cfg['nvars'])


class PolyMul(Meta):
    cls = 'PolyMul'

    def fields(self, cx):
        r = self.cfg['rank']
        lead = [fresh_len(cx, 'lead%d' % i) for i in range(r - 1)]
        # equal leading shapes (the constructor rejects only certainly different ones; the plan broadcasts otherwise)
        left = Arr('coeffs_left', lead + [fresh_len(cx, 'ncoeffs_left')], z3.IntVal(FLOAT))
        right = Arr('coeffs_right', [Len(l.val, 'lead') for l in lead] + [fresh_len(cx, 'ncoeffs_right')], z3.IntVal(FLOAT))
        cx.used_axioms.add('PolyMul: coeffs_left.shape[:-1] == coeffs_right.shape[:-1] (the constructor rejects only certainly different lengths)')
        return dict(coeffs_left=left, coeffs_right=right, vars=tuple(MULVAR[v] for v in self.cfg['vars']))


class Legendre(Meta):
    cls = 'Legendre'

    def fields(self, cx):
        return dict(x=fresh_arr(cx, 'x', self.cfg['rank'], (FLOAT,)), degree=self.cfg['degree'])


class Choose(Meta):
    cls = 'Choose'

    def fields(self, cx):
        r = self.cfg['rank']
        index = fresh_arr(cx, 'index', r, (INT,))
        choices = Arr('choices', [Len(l.val, 'lead') for l in index.attrs['shape']] + [fresh_len(cx, 'nchoices')], fresh_kind(cx, 'choices'))
        cx.used_axioms.add('Choose: choices.shape[:-1] == index.shape (the constructor rejects only certainly different lengths; numpy.choose broadcasts otherwise)')
        return dict(index=index, choices=choices)


class SearchSorted(Meta):
    cls = 'SearchSorted'

    def fields(self, cx):
        array = fresh_arr(cx, 'array', 1)
        sorter = None
        if self.cfg['sorter']:
            sorter = Arr('sorter', [Len(array.attrs['shape'][0].val, 'n')], z3.IntVal(INT))
            cx.used_axioms.add('SearchSorted: sorter.shape == array.shape (the constructor rejects only certainly different lengths; numpy raises otherwise)')
        return dict(arg=fresh_arr(cx, 'arg', self.cfg['rank']), array=array, sorter=sorter, side=self.cfg['side'])


class ArgSort(Unary):
    cls = 'ArgSort'
    field = 'array'


class UniqueMask(Unary):
    cls = 'UniqueMask'
    field = 'sorted_array'


class UniqueInverse(Meta):
    cls = 'UniqueInverse'

    def fields(self, cx):
        mask = fresh_arr(cx, 'unique_mask', 1, (BOOL,))
        sorter = Arr('sorter', [Len(mask.attrs['shape'][0].val, 'n')], z3.IntVal(INT))
        cx.used_axioms.add('UniqueInverse: unique_mask.shape == sorter.shape (the constructor rejects only certainly different lengths)')
        return dict(unique_mask=mask, sorter=sorter)


class Find(Meta):
    cls = 'Find'

    def fields(self, cx):
        return dict(where=fresh_arr(cx, 'where', self.cfg.get('rank', 1), (BOOL,)))


class SizesToOffsets(Meta):
    cls = '_SizesToOffsets'

    def fields(self, cx):
        sizes = fresh_arr(cx, 'sizes', 1, (INT,))
        sizes.attrs['_intbounds'] = (0, float('inf'))
        return dict(sizes=sizes)


class FMS(Sym):
    """types.frozenmultiset of two operands (iteration order arbitrary: the contract is symmetric in the operands)"""

    def __init__(self, items):
        self.items = tuple(items)

    def iterate(self, ctx):
        return list(self.items)

    def length(self, ctx):
        return len(self.items)

    def isinstance_(self, ctx, types):
        return any(getattr(t, '__name__', None) == 'frozenmultiset' for t in types)

    def truth(self, ctx):
        return bool(self.items)


class Binary2(Meta):
    """Multiply / Add: two operands of equal announced shape (AssertEqual per axis) and equal kind"""

    def fields(self, cx):
        r = self.cfg['rank']
        k = fresh_kind(cx, 'funcs')
        a = Arr('func1', [fresh_len(cx, 'func1.shape%d' % i) for i in range(r)], k)
        b = Arr('func2', [fresh_len(cx, 'func2.shape%d' % i) for i in range(r)], k)
        return dict(funcs=FMS((a, b)))


class Multiply(Binary2):
    cls = 'Multiply'


class Add(Binary2):
    cls = 'Add'


class Power(Meta):
    cls = 'Power'

    def fields(self, cx):
        r = self.cfg['rank']
        k = fresh_kind(cx, 'func', (INT, FLOAT, COMPLEX))
        lens = [fresh_len(cx, 'func.shape%d' % i) for i in range(r)]
        power = Arr('power', [Len(l.val, 'same') for l in lens], k, extra=dict(_intbounds=(0, float('inf'))))
        cx.used_axioms.add('Power: power.shape == func.shape (the constructor rejects only certainly different lengths; numpy.power broadcasts otherwise)')
        return dict(func=Arr('func', lens, k), power=power)


class Sign(Unary):
    cls = 'Sign'
    kinds = (INT, FLOAT)


class SignRejected(Unary):
    cls = 'Sign'
    kinds = (COMPLEX,)
    rejected = True


class SignBool(Unary):
    """PARKED: Sign of a boolean array is accepted by the constructor and announces bool, numpy.sign has no boolean loop"""
    cls = 'Sign'
    kinds = (BOOL,)


class Zeros(Meta):
    cls = 'Zeros'

    def fields(self, cx):
        return dict(shape=tuple(fresh_len(cx, 'shape%d' % i) for i in range(self.cfg['rank'])), dtype=Builtin(nps.KIND_NAMES[self.cfg['kind']]))


class Guard(Unary):
    cls = 'Guard'
    field = 'fun'


class WithDerivative(Unary):
    cls = 'WithDerivative'

    def fields(self, cx):
        f = super().fields(cx)
        f['var'] = SObj('Argument', classes=('Argument', 'DerivativeTargetBase', 'Array'), attrs=dict(shape=()))
        f['derivative'] = fresh_arr(cx, 'derivative', self.cfg['rank'])
        return f


class LoopConcatenateHelper(Meta):
    """LoopConcatenate built by the REAL `loop_concatenate(func, index)`: start / stop / concat_length come out of the REAL helper
    (`_SizesToOffsets` of the chunk lengths, `Take` at index, index+1, length), with the node constructors it uses interpreted by
    their value meaning (InsertAxis = constant vector, _SizesToOffsets = prefix sums, Take of a vector at a scalar = its element,
    LoopConcatenate of one-element chunks = the vector of the per-iteration values).  No assumption on start/stop is made here."""
    cls = 'LoopConcatenate'

    def __init__(self, **cfg):
        super().__init__(**cfg)
        self.fn = 'evaluable:loop_concatenate'

    def fields(self, cx):
        return {}

    def construct(self, cx, S, call):
        r = self.cfg['rank']
        i = loop_index(cx)
        S.env.indices[(id(i.attrs['loop_id']), id(i.attrs['length']))] = i
        lens = [fresh_len(cx, 'func.shape%d' % k) for k in range(r - 1)]
        if self.cfg['chunk'] == 'constant':
            last = Len(z3.IntVal(self.cfg.get('c', 2)), 'chunk')
        else:
            # the chunk length varies with the iteration: CH(k) >= 0 is its value at iteration k, CH(index) the current one
            CH = z3.Function('chunk_length_at', z3.IntSort(), z3.IntSort())
            k = z3.Int('k!ch')
            cx.assume(z3.ForAll([k], CH(k) >= 0), axiom='a length is >= 0 at every iteration (_isindex)')
            last = Len(CH(i.val), 'chunk')
            last.at_iteration = CH
            last.in_loop = True
            last.attrs['arguments'] = (i,)
        func = Arr('func', lens + [last], fresh_kind(cx, 'func'))
        func.in_loop = True
        func.attrs['arguments'] = (i,)
        return call('evaluable:loop_concatenate', func, i)


def loop_index(cx):
    n = fresh_len(cx, 'looplength')
    i = Len(cx.int('loopindex'), 'loopindex')
    cx.assume(z3.And(0 <= i.val, i.val < n.val))
    i.classes = ('_LoopIndex', 'Array')
    i.attrs.update(loop_id=SObj('_LoopId', classes=('_LoopId',)), length=n)
    i.attrs['arguments'] = (i,)
    i.in_loop = True
    return i


class LoopSum(Meta):
    """through the only constructor call site, the REAL `loop_sum(func, index)` (it passes func.shape as the shape field)"""
    cls = 'LoopSum'

    def __init__(self, **cfg):
        super().__init__(**cfg)
        self.fn = 'evaluable:loop_sum'

    def fields(self, cx):
        return {}

    def construct(self, cx, S, call):
        func = fresh_arr(cx, 'func', self.cfg['rank'], (INT, FLOAT, COMPLEX))
        func.in_loop = True
        func.attrs['arguments'] = ()
        return call('evaluable:loop_sum', func, loop_index(cx))


class LoopConcatenate(Meta):
    cls = 'LoopConcatenate'

    def fields(self, cx):
        func = fresh_arr(cx, 'func', self.cfg['rank'])
        func.in_loop = True
        func.attrs['arguments'] = ()
        i = loop_index(cx)
        start, stop, total = Len(cx.int('start'), 'start'), Len(cx.int('stop'), 'stop'), fresh_len(cx, 'concat_length')
        start.in_loop = stop.in_loop = True
        sh = func.attrs['shape']
        if sh:
            cx.assume(z3.And(0 <= start.val, start.val <= stop.val, stop.val <= total.val, stop.val - start.val == sh[-1].val),
                      axiom='LoopConcatenate: 0 <= start <= stop <= concat_length and stop - start == func.shape[-1] at every iteration '
                            '(established by loop_concatenate via _SizesToOffsets of the chunk lengths; NOT under contract here)')
        return dict(loop_id=i.attrs['loop_id'], length=i.attrs['length'], func=func, start=start, stop=stop, concat_length=total)


class PW(Meta):
    """Pointwise subclasses: operands of equal shape and CONCRETE kinds (the numpy result-kind table is ground)"""

    def __init__(self, cls, fields, kinds, rejected=False):
        self.cls = cls
        self.fieldnames = fields
        self.rejected = rejected
        super().__init__(kinds=''.join('bifc'[k] for k in kinds))
        self.kinds = kinds
        self.label = 'dtype:' + self.cfgtext()

    def fields(self, cx):
        lens = [fresh_len(cx, 'shape0')]
        return {n: Arr(n, [Len(l.val, l.name) for l in lens] if i else lens, z3.IntVal(k)) for i, (n, k) in enumerate(zip(self.fieldnames, self.kinds))}

    def replay(self, ob):
        import json, os
        here = os.path.dirname(os.path.dirname(os.path.abspath(__file__)))
        return ("import sys; sys.path.insert(0, %r)\nfrom native import c06b\nc06b.run_pointwise(%r, %s, %r, %r)\n" % (here, self.cls, json.dumps(list(self.kinds)), ob.clause, bool(self.rejected)))


# class -> (fields, accepted kind tuples); every other kind tuple must be REJECTED when the dtype is announced
# (FloorDivide: complex was accepted on the pinned commit although numpy has no complex floor_divide: repaired, see known_findings.json)
POINTWISE = {
    'Greater': (('x', 'y'), [(1, 1), (2, 2)]), 'Less': (('x', 'y'), [(1, 1), (2, 2)]), 'Equal': (('x', 'y'), [(k, k) for k in range(4)]),
    'FloorDivide': (('dividend', 'divisor'), [(1, 1), (2, 2)]), 'Mod': (('dividend', 'divisor'), [(1, 1), (2, 2)]),
    'Minimum': (('x', 'y'), [(a, b) for a in range(3) for b in range(3)]), 'Maximum': (('x', 'y'), [(a, b) for a in range(3) for b in range(3)]),
    'LogicalNot': (('x',), [(0,)]), 'Negative': (('arg',), [(1,), (2,), (3,)]), 'Absolute': (('arg',), [(1,), (2,), (3,)]),
    'Real': (('arg',), [(3,)]), 'Imag': (('arg',), [(3,)]), 'Conjugate': (('arg',), [(3,)]),
    'BoolToInt': (('arg',), [(0,)]), 'IntToFloat': (('arg',), [(1,)]), 'FloatToComplex': (('arg',), [(2,)]),
    'Sin': (('arg',), [(2,), (3,)]), 'Exp': (('arg',), [(2,), (3,)]), 'Reciprocal': (('arg',), [(2,), (3,)]),
    **{c: (('arg',), [(2,), (3,)]) for c in ('Cos', 'Tan', 'ArcSin', 'ArcCos', 'ArcTan', 'CosH', 'SinH', 'TanH', 'ArcTanH', 'Log')},
    'ArcTan2': (('x', 'y'), [(a, b) for a in range(3) for b in range(3)]),
}
# FloorDivide of complex operands is ACCEPTED by FloorDivide.dtype (Mod rejects it) but numpy has no complex floor_divide: evaluation
# raises TypeError.  Candidate defect (notes/C06-c06b.md); the configuration is parked so that the check stays green.
PARKED = []  # FloorDivide of complex operands: repaired (known_findings.json)


def pointwise_contracts(parked=False):
    cs = []
    for cls, (fields, accepted) in POINTWISE.items():
        for kinds in itertools.product(range(4), repeat=len(fields)):
            if ((cls, kinds) in PARKED) != parked:
                continue
            cs.append(PW(cls, fields, kinds, rejected=kinds not in accepted))
    return cs


def _ranks(cls, ranks, **kw):
    return [cls(rank=r, **kw) for r in ranks]


PERMS = [(1, 0), (1, 2, 0), (2, 0, 1), (0, 2, 1), (2, 1, 0)]


def meta_contracts():
    cs = []
    cs += _ranks(InsertAxis, (0, 1, 2))
    cs += [Transpose(axes=p) for p in PERMS]
    cs += _ranks(Ravel, (2, 3))
    cs += _ranks(Unravel, (1, 2))
    cs += _ranks(Sum, (1, 2, 3)) + _ranks(Product, (1, 2, 3))
    cs += _ranks(TakeDiag, (2, 3)) + _ranks(Determinant, (2, 3)) + _ranks(Inverse, (2, 3))
    cs += [Take(rank=r, irank=i) for r in (1, 2) for i in (0, 1, 2)]
    cs += _ranks(TakeSlice, (1, 2, 3)) + _ranks(Get, (1, 2))
    cs += [Range()]
    cs += [RavelIndex(ra=a, rb=b) for a, b in ((0, 0), (1, 0), (0, 1), (1, 1), (2, 1), (1, 2))]
    cs += [Einsum(args=a, out=o) for a, o in (
        (((0, 1), (1,)), (0,)), (((0, 1), (1, 2)), (0, 2)), (((0,), (0,)), (0,)), (((0, 1),), (1, 0)), (((0, 1, 2), (2, 1)), (0,)),
        (((0,), (1,), (2,)), (2, 0, 1)), (((0, 0),), (0,)), (((0, 1), (0, 1)), ()))]
    cs += [TakeBadIndex(rank=1, irank=1, index='non-int')]
    cs += [Inflate(rank=r, drank=d) for r, d in ((1, 0), (1, 1), (2, 1), (2, 2), (3, 1), (3, 2), (0, 0))]
    cs += _ranks(Diagonalize, (1, 2))
    cs += [Polyval(prank=a, crank=b, nvars=n) for a, b, n in ((1, 1, 1), (2, 1, 2), (1, 2, 0), (2, 2, 3), (3, 1, 2))]
    cs += [PolyGrad(rank=r, nvars=n) for r, n in ((1, 1), (1, 2), (2, 2), (2, 3), (2, 0))]
    cs += [PolyMul(rank=r, vars=v) for r, v in ((1, ('Left', 'Right')), (2, ('Both',)), (2, ('Left', 'Both', 'Right')), (1, ()))]
    cs += [Legendre(rank=r, degree=d) for r, d in ((0, 0), (1, 0), (1, 1), (1, 3), (2, 2))]
    cs += _ranks(Choose, (0, 1, 2))
    cs += [SearchSorted(rank=r, sorter=so, side=si) for r, so, si in ((0, False, 'left'), (1, False, 'right'), (2, True, 'left'), (1, True, 'right'))]
    cs += _ranks(LoopSum, (0, 1, 2)) + _ranks(LoopConcatenate, (1, 2))
    cs += [LoopConcatenateHelper(rank=r, chunk=c) for r in (1, 2) for c in ('constant', 'varying')]
    cs += _ranks(Multiply, (0, 1, 2)) + _ranks(Add, (0, 1, 2)) + _ranks(Power, (0, 1, 2)) + _ranks(Sign, (1, 2)) + [SignRejected(rank=1, kind='complex')]
    cs += [Zeros(rank=r, kind=k) for r, k in ((0, 2), (1, 0), (2, 1), (3, 3))] + _ranks(Guard, (0, 2)) + _ranks(WithDerivative, (0, 2))
    cs += _ranks(ArgSort, (1, 2)) + [UniqueMask(rank=1), UniqueInverse(), Find(), SizesToOffsets()]
    return cs


def contracts():
    import os
    cs = meta_contracts() + pointwise_contracts() + arguments_contracts() + function_array_contracts()
    cs += [SignBool(rank=1, kind='bool')]  # fails on the unchanged tree: recorded KNOWN FINDING (known_findings.json)
    if os.environ.get('VERIF_C06B_PARKED'):  # experiments only: these demand MORE than the property says (rejection of negative lengths at construction), see DESIGN 9.2
        cs += function_array_contracts(parked=True)
    return cs


TRUSTED = [
    'C06b: numpy METADATA axioms of pyvc/npshape.py (shape and result kind of transpose, moveaxis, einsum incl. the diagonal / broadcast label rules, sum/prod/any/all, '
    'take, repeat, ndarray(buffer..), reshape, arange, nonzero, cumsum, searchsorted, argsort, choose, linalg.det/inv, nutils numeric.inv, empty/empty_like, not_equal(out=), '
    'astype, basic + single-index-array indexing, stores, broadcasting of + - *, the element-wise kind tables UFUNC1/UFUNC2, numpy.array(dtype=)); each is cross-checked '
    'against the real numpy by running the MODEL CODE on random concrete metadata (native/axioms_c06b.py)',
    'C06b: nutils_poly shapes: eval_outer(coeffs, values), MulPlan(vars, dl, dr)(cl, cr), GradPlan(nvars, d)(c) in terms of the uninterpreted ncoeffs; '
    'PolyDegree / PolyNCoeffs nodes evaluate to poly.degree / poly.ncoeffs (cross-checked with ncoeffs = C(d+n, n))',
    'C06b: `_pyast` expression constructors are interpreted EAGERLY (an expression object is the value it would evaluate to): the generated source text, its '
    'ordering into blocks and the block builder are C16/C02 matters; builder.compile / compile_with_out / new_empty_array_for_evaluable / array_add_at are used by their '
    'specification (numpy.copyto / numpy.add(out=) / numpy.empty of the evaluated shape / numpy.add.at)',
    'C06b: a 0-d integer array (length, offset, loop index) behaves like the Python int it holds in shape tuples, slices, comparisons and + - *; arithmetic on scalar '
    'integer NODES (`a*b`, `n+1`) evaluates to the same arithmetic on their values (value side: C06 ranges, C01)',
    'C06b: induction hypothesis of the DAG argument: every dependency delivers an array of the shape and kind it announces (this contract at the child)',
    'C06b: dependence on arguments: the value of a node is a function of the values of its dependencies (evalf / generated code receive nothing else), so the set of '
    'arguments a node depends on is contained in the union over its dependencies; a Loop binds its own index (pyvc/symset.py: sets of objects by identity, exact connectives)',
    'C06b: value meaning of the nodes loop_concatenate builds: InsertAxis(x, n) = n copies of x, _SizesToOffsets = numpy.cumsum([0, *sizes]) (L-CUMSUM: recurrence + monotone for '
    'sizes >= 0; constant sizes: k*c), Take(v, i) = v[i], LoopConcatenate of one-element chunks = the vector of the per-iteration values (cross-checked in native/axioms.py)',
    'C06b: DataClass equality is structural: `_LoopIndex(loop_id, length)` built by Loop.index equals the index node the body refers to',
]
ASSUMPTIONS = [
    'C06b: operand ranks <= 3, <= 3 dependencies / einsum operands (bounded structure); axis lengths, kinds and argument sets arbitrary',
    'C06b: run-time well-formedness the constructors only test with `not _certainly_different` (never provable for abstract lengths): TakeDiag/Determinant/Inverse over equal '
    'trailing lengths; Unravel sh1*sh2 == func.shape[-1]; Inflate dofmap.shape == trailing func.shape; Choose choices.shape[:-1] == index.shape; PolyMul equal leading '
    'shapes; SearchSorted/UniqueInverse sorter shape; evaluation raises or broadcasts otherwise',
    'C06b: AssertEqual(a, b) delivers a value only when a == b (Einsum, Pointwise shapes): where evaluation delivers, the lengths agree',
    'C06b: _TakeSlice: offset + length <= func.shape[-1]; _Get: index in range; LoopConcatenate: 0 <= start <= stop <= concat_length and stop - start == func.shape[-1] '
    '(what loop_concatenate establishes through _SizesToOffsets; that construction itself is NOT under contract)',
    'C06b: LoopSum is constructed by loop_sum only (it passes func.shape as the announced shape); Polyval: points.shape[-1] is a constant (asserted)',
    'C06b: index VALUES are in range where numpy would raise IndexError for value reasons (Take, Inflate dofmap, Choose): the value side is C02',
    'C06b: Argument shapes are constant (Argument.arguments announces only itself, not the arguments of its lengths)',
    'C06b: Python asserts enabled (no -O): constructor assertions reject',
]
NOT_COVERED = [
    'C06b: node classes without a metadata contract: Constant, Zeros, Singular, Guard, Sampled, Eig, ArrayFromTuple, Orthonormal, Assemble, Transform*, Monomial, Elemwise, '
    'CompressIndices, NormDim, InRange, Argument._compile (C13); the in-place fused `_compile_with_out` path of Add',
    'C06b: ranks > 3, Einsum with more than 3 operands, Inflate with dofmap rank > 2',
    'C06b: LoopConcatenate nodes NOT built by loop_concatenate (the node-level contract assumes start/stop/concat_length consistency; the helper-level contract does not)',
    'C06b: that the generated source text evaluates to what the eager interpretation computes (C02), _compile_with_out fusion paths other than the ones the node itself takes, '
    '_optimized_for_numpy replacements',
    'C06b: function.Array subclasses (every constructor that fills the shape/dtype/arguments tables: C07 shapes, C13 arguments); lowering agreement '
    '(debug_flags.lower assertions); clashing arguments are rejected by function._join_arguments (C13)',
    'C06b: Sign of a boolean array announces bool but numpy.sign has no such loop (recorded known finding); function.Array.__init__ accepts negative lengths and arbitrary dtype objects '
    '(the error surfaces at lowering; rejection at construction is not demanded by the property: contracts kept out of the check)',
]


# ---------------------------------------------------------------------------------------------------------------------
# Part 3: `arguments` / `isconstant` bookkeeping on abstract dependency lists (sets of objects by identity: pyvc/symset.py)

from pyvc.symset import SymSet, frozenset_builtin  # noqa: E402


class Elem(SObj):
    """an evaluable with an identity term `sid` and an abstract argument set"""

    def __init__(self, cx, name, cls='Array', arguments=True, **attrs):
        super().__init__(cls, attrs=attrs, classes=(cls, 'Array', 'Evaluable'))
        self.sid = cx.int(name + '.id')
        self.name = name
        if arguments:
            self.attrs['arguments'] = SymSet.fresh(cx, name + '.arguments')

    def sym_set_of(self, ctx, items):
        return SymSet.of(ctx, items)


LOOPINDEX_ID = z3.Function('LoopIndex.id', z3.IntSort(), z3.IntSort(), z3.IntSort())


class ArgsBase(InProc, Contract):
    prop = PROP
    ndeps = 0
    split_conjunctions = False

    def __init__(self, ndeps=None):
        if ndeps is not None:
            self.ndeps = ndeps
            self.label = 'deps=%d' % ndeps
            self.bounded = 'number of dependencies fixed (%d); the argument sets are arbitrary' % ndeps

    def gl(self, cx):
        def loopindex(ctx, loop_id, length):
            # DataClass equality is structural: _LoopIndex(loop_id, length) IS the index the loop body refers to
            o = Elem(ctx, 'index', cls='_LoopIndex', arguments=False)
            o.sid = LOOPINDEX_ID(loop_id.sid, length.sid)
            return o
        return {'frozenset': frozenset_builtin, '_LoopIndex': ClassRef('_LoopIndex', construct=loopindex)}

    def raises(self, cx, S, e):
        return False


class EvaluableArguments(ArgsBase):
    """Evaluable.arguments == union of the dependencies' arguments"""
    fn = 'evaluable:Evaluable.arguments'

    def setup(self, cx):
        deps = tuple(Elem(cx, 'dep%d' % i) for i in range(self.ndeps))
        return State(args=(SObj('Evaluable', attrs=dict(dependencies=deps)),), deps=deps, globals=self.gl(cx))

    def ensures(self, cx, S, result):
        if not isinstance(result, SymSet):
            raise Unsupported('arguments returned %r' % (result,))
        e = cx.int('e')
        want = z3.Or([d.attrs['arguments'].mem(e) for d in S.deps]) if S.deps else z3.BoolVal(False)
        return [('every-argument-of-a-dependency-is-announced', z3.Implies(want, result.mem(e))),
                ('only-arguments-of-dependencies-are-announced', z3.Implies(result.mem(e), want))]

    def replay(self, ob):
        return _replay_args('evaluable', ob)


class EvaluableIsConstant(ArgsBase):
    """isconstant <=> no arguments"""
    fn = 'evaluable:Evaluable.isconstant'

    def setup(self, cx):
        A = SymSet.fresh(cx, 'arguments')
        return State(args=(SObj('Evaluable', attrs=dict(arguments=A)),), A=A, globals=self.gl(cx))

    def ensures(self, cx, S, result):
        from pyvc.values import zbool
        r = result.b if isinstance(result, SBool) else zbool(result) if not isinstance(result, bool) else z3.BoolVal(result)
        r = r.b if isinstance(r, SBool) else r
        e = cx.int('e')
        w = getattr(S.A, 'witness', None)
        out = [('constant-means-no-argument', z3.Implies(r, z3.Not(S.A.mem(e))))]
        if w is not None:
            out.append(('nonconstant-means-some-argument', z3.Implies(z3.Not(r), S.A.mem(w))))
        return out

    def replay(self, ob):
        return _replay_args('isconstant', ob)


class LoopArguments(ArgsBase):
    """Loop.arguments == (arguments of length, init_args, body_args) minus exactly the loop index"""
    fn = 'evaluable:Loop.arguments'

    def setup(self, cx):
        deps = tuple(Elem(cx, 'dep%d' % i) for i in range(self.ndeps))
        loop_id, length = Elem(cx, 'loop_id', cls='_LoopId', arguments=False), Elem(cx, 'length')
        alldeps = (length,) + deps
        node = Node('Loop', None, loop_id=loop_id, length=length, dependencies=alldeps)
        S = State(deps=alldeps, loop_id=loop_id, length=length, node=node, globals=self.gl(cx))
        return S

    def body(self, cx, S, call):
        env = Env(S, cx)
        env.call = call
        S.node.env = env
        # `super().arguments` inside Loop.arguments is the REAL Evaluable.arguments
        S.node.attrs['super().arguments'] = call('evaluable:Evaluable.arguments', S.node)
        return call('evaluable:Loop.arguments', S.node)

    def ensures(self, cx, S, result):
        if not isinstance(result, SymSet):
            raise Unsupported('arguments returned %r' % (result,))
        e = cx.int('e')
        idx = LOOPINDEX_ID(S.loop_id.sid, S.length.sid)
        inner = z3.Or([d.attrs['arguments'].mem(e) for d in S.deps])
        return [('the-loop-index-is-not-announced', z3.Not(result.mem(idx))),
                ('every-other-argument-of-a-dependency-is-announced', z3.Implies(z3.And(inner, e != idx), result.mem(e))),
                ('only-arguments-of-dependencies-are-announced', z3.Implies(result.mem(e), inner))]

    def replay(self, ob):
        return _replay_args('loop', ob)


class SelfArguments(ArgsBase):
    """Argument.arguments / _LoopIndex.arguments == {self}"""

    def __init__(self, cls):
        self.cls = cls
        self.fn = 'evaluable:%s.arguments' % cls

    def setup(self, cx):
        me = Elem(cx, 'self', cls=self.cls, arguments=False)
        return State(args=(me,), me=me, globals=self.gl(cx))

    def ensures(self, cx, S, result):
        if not isinstance(result, SymSet):
            raise Unsupported('arguments returned %r' % (result,))
        e = cx.int('e')
        return [('announces-itself', result.mem(S.me.sid)), ('announces-nothing-else', z3.Implies(result.mem(e), e == S.me.sid))]

    def replay(self, ob):
        return _replay_args(self.cls, ob)


class WithDerivativeArguments(ArgsBase):
    fn = 'evaluable:WithDerivative.arguments'

    def setup(self, cx):
        func, var = Elem(cx, 'func'), Elem(cx, 'var', cls='Argument', arguments=False)
        return State(args=(SObj('WithDerivative', attrs=dict(func=func, var=var)),), func=func, var=var, globals=self.gl(cx))

    def ensures(self, cx, S, result):
        if not isinstance(result, SymSet):
            raise Unsupported('arguments returned %r' % (result,))
        e = cx.int('e')
        want = z3.Or(S.func.attrs['arguments'].mem(e), e == S.var.sid)
        return [('announces-the-target-and-the-arguments-of-func', z3.Implies(want, result.mem(e))), ('announces-nothing-else', z3.Implies(result.mem(e), want))]

    def replay(self, ob):
        return _replay_args('withderivative', ob)


class TargetIsConstant(ArgsBase):
    """DerivativeTargetBase.isconstant (Argument, IdentifierDerivativeTarget) is consistent with arguments == {self}: never constant"""
    fn = 'evaluable:DerivativeTargetBase.isconstant'

    def setup(self, cx):
        return State(args=(Elem(cx, 'self', cls='Argument', arguments=False),), globals=self.gl(cx))

    def ensures(self, cx, S, result):
        return [('an-argument-is-never-constant', z3.BoolVal(result is False))]

    def replay(self, ob):
        return _replay_args('target', ob)


def _replay_args(what, ob):
    import os
    here = os.path.dirname(os.path.dirname(os.path.abspath(__file__)))
    return "import sys; sys.path.insert(0, %r)\nfrom native import c06b\nc06b.run_arguments(%r, %r)\n" % (here, what, ob.clause)


def arguments_contracts():
    return ([EvaluableArguments(n) for n in (0, 1, 2, 3)] + [EvaluableIsConstant()] + [LoopArguments(n) for n in (0, 1, 3)]
            + [SelfArguments('Argument'), SelfArguments('_LoopIndex'), WithDerivativeArguments(), TargetIsConstant()])


# ---------------------------------------------------------------------------------------------------------------------
# Part 4: function.Array.__init__ -- the announcement tables of a user-level function array

class _Types:
    def sym_getattr(self, ctx, name):
        if name == 'frozendict':
            return lambda ctx, d: dict(d)  # types.frozendict(d): an immutable copy with the same items (C17)
        raise Unsupported('types.' + name)


class FunctionArrayInit(InProc, Contract):
    """what is given is what is announced: shape == tuple of the given integer lengths, ndim == their number, dtype, spaces and
    arguments are the given ones; a length that is not an integer is rejected (any exception)."""
    prop = PROP
    fn = 'function:Array.__init__'
    variant = 'valid'

    def __init__(self, rank, variant='valid'):
        self.rank, self.variant = rank, variant
        self.label = '%s,rank=%d' % (variant, rank)
        self.bounded = 'number of axes fixed (%d), lengths symbolic' % rank
        if variant != 'valid':
            self.expect_return = False

    def setup(self, cx):
        lens = [cx.int('shape%d' % i) for i in range(self.rank)]
        shape = [SInt(l) for l in lens]
        dtype = Builtin('float')
        if self.variant == 'valid':
            for l in lens:
                cx.assume(l >= 0)
            k = cx.int('dtype.kind')
            cx.assume(z3.And(0 <= k, k <= 3))
            dtype = NDType(k)
        elif self.variant == 'negative-length':
            cx.assume(z3.Or([l < 0 for l in lens]))
        elif self.variant == 'non-integer-length':
            shape[-1] = 1.5
        elif self.variant == 'invalid-dtype':
            for l in lens:
                cx.assume(l >= 0)
            dtype = Builtin('str')
        me = SObj('Array', classes=('Array',))
        arguments = {'a': ((2,), Builtin('float'))}
        spaces = frozenset(['X'])
        return State(args=(me, tuple(shape), dtype, spaces, arguments), me=me, lens=lens, dtype=dtype, spaces=spaces, arguments=arguments,
                     globals={'types': _Types()})

    def body(self, cx, S, call):
        call('function:Array.__init__', *S.args)
        S.ndim = call('function:Array.ndim', S.me)
        return S.me

    def ensures(self, cx, S, result):
        if self.variant != 'valid':
            return [('rejected-at-construction', z3.BoolVal(False))]
        a = S.me.attrs
        sh = a.get('shape')
        ok_shape = isinstance(sh, tuple) and len(sh) == self.rank and all(is_intlike(x) for x in sh)
        return [('shape-is-the-tuple-of-the-given-lengths', z3.And([zint(x) == l for x, l in zip(sh, S.lens)]) if ok_shape and sh else z3.BoolVal(ok_shape)),
                ('ndim-is-the-number-of-axes', z3.BoolVal(S.ndim == self.rank)),
                ('dtype-is-the-given-dtype', z3.BoolVal(a.get('dtype') is S.dtype)),
                ('spaces-are-the-given-spaces', z3.BoolVal(a.get('spaces') == S.spaces)),
                ('arguments-are-the-given-arguments', z3.BoolVal(a.get('arguments') == S.arguments))]

    def raises(self, cx, S, e):
        return self.variant != 'valid'  # rejected by whatever exception

    def replay(self, ob):
        import os
        here = os.path.dirname(os.path.dirname(os.path.abspath(__file__)))
        model = {k: v for k, v in ob.model.items() if not k.startswith('k!')}
        import json
        return "import sys; sys.path.insert(0, %r)\nfrom native import c06b\nc06b.run_function_array(%d, %r, %s, %r)\n" % (here, self.rank, self.variant, json.dumps(model), ob.clause)


# On the UNCHANGED tree function.Array.__init__ stores a negative length and any object as dtype without complaint
# (`function.Argument('a', (-1,))`, `function.zeros((-2,))`, `function.Argument('a', (2,), dtype=str)` are accepted; the error
# surfaces only at lowering as an AssertionError of the evaluable constructors).  Candidate defect, see notes/C06-c06b.md;
# the two contracts that demand rejection are parked so that the check stays green.
PARKED_INIT = [('negative-length', 1), ('negative-length', 2), ('invalid-dtype', 1)]


def function_array_contracts(parked=False):
    if parked:
        return [FunctionArrayInit(r, v) for v, r in PARKED_INIT]
    return [FunctionArrayInit(r) for r in (0, 1, 2, 3)] + [FunctionArrayInit(r, 'non-integer-length') for r in (1, 2)]


def extend(base_contracts, trusted, assumptions, not_covered):
    """hook used by the last two lines of contracts/C06.py"""
    nc = [t for t in not_covered if not t.startswith('announced ndim/shape/dtype/arguments')]
    return (lambda: base_contracts() + contracts()), trusted + TRUSTED, assumptions + ASSUMPTIONS, nc + NOT_COVERED
