"""C19 -- the recursive descent of expression_v2._Parser: INDEX BOOKKEEPING and ERROR behaviour (BOUNDED structure, symbolic values).

Each parse_* function is verified on its REAL body against
  * an abstract array backend (`self.array.*` are uninterpreted: every call is logged with its arguments and returns a fresh token),
  * abstract results of the parse_* functions it calls: (array token, shape, indices, summed) with symbolic index characters and axis
    lengths that satisfy the result invariant R below, and
  * abstract substrings (the text is opaque; pieces, emptiness, first characters are symbolic facts).
R(array, shape, indices, summed):  len(shape) = len(indices), the indices are pairwise distinct, and no index is in `summed`.
Every contract proves R for its own result from R of the sub-results; R for the whole parser follows by induction on the recursion
depth (meta-argument, as DESIGN 2.4).  Only ExpressionSyntaxError may escape, and exactly under the stated condition: IndexError, KeyError,
ValueError (from str.index), AssertionError are refuted on every path.
Structure bounds are stated per contract (`bounded`).
"""
import ast
import itertools
import os
import z3
from pyvc.contract import Contract, State
from pyvc.values import SInt, SBool, SObj, SOpaque, STerm, Sym, Unsupported, PyRaise, BoundMethod, zint, zbool
from pyvc.small import SmallSet, IdxStr
from pyvc import extract
from contracts.C13 import InlineFn
from contracts.c19_text import Char, MOD

PROP = 'C19'
CH = z3.DeclareSort('IndexChar')
HERE = os.path.dirname(os.path.dirname(os.path.abspath(__file__)))


def native(call):
    return "import sys; sys.path.insert(0, %r)\nfrom native import c19\nc19.%s\n" % (HERE, call)


def module_constant(name):
    """a module-level literal of expression_v2 (read from the current source)"""
    _, tree = extract.module_ast(MOD)
    for n in tree.body:
        if isinstance(n, ast.Assign) and any(isinstance(t, ast.Name) and t.id == name for t in n.targets):
            return ast.literal_eval(n.value)
    raise Unsupported('module constant %s not found' % name)


class Matcher:
    """token for `_match(s)` / `_match_spaces` (the matchers themselves are under contract in c19_substring)"""

    def __init__(self, what):
        self.what = what

    def __eq__(self, other):
        return isinstance(other, Matcher) and other.what == self.what

    def __hash__(self):
        return hash(self.what)

    def __repr__(self):
        return 'Matcher(%r)' % (self.what,)


class ASub(SObj):
    """an opaque `_Substring`: what the parser can observe is given by symbolic facts"""

    def __init__(self, P, tag, nonempty=None, pieces=None, text=None):
        super().__init__('_Substring', classes=('_Substring',))
        self.P, self.tag, self.nonempty, self.pieces, self.text = P, tag, nonempty, pieces, text
        self._trim = {}

    def fact(self, ctx, what):
        return self.P.fact(ctx, self.tag + ':' + what)

    def truth(self, ctx):
        if self.nonempty is None:
            self.nonempty = self.fact(ctx, 'nonempty')
        return self.nonempty

    def length(self, ctx):
        if self.text is not None:
            return len(self.text)
        raise Unsupported('len of an opaque substring')

    def derived(self, ctx, how, nonempty=None):
        if how not in self._trim:
            self._trim[how] = ASub(self.P, '%s.%s' % (self.tag, how), nonempty=nonempty, pieces=self.pieces)
        return self._trim[how]

    def getattr(self, ctx, name):
        me = self
        if name in ('trim', 'trim_start', 'trim_end'):
            return lambda ctx: me.derived(ctx, name)
        if name in ('split', 'isplit', 'strip_prefix', 'partition_scope', 'partition', 'starts_with', 'ends_with'):
            f = self.P.sub_methods.get(name)
            if f is None:
                raise Unsupported('_Substring.%s is not part of this scenario' % name)
            return lambda ctx, *a, **k: f(ctx, me, *a, **k)
        if name in ('start', 'stop', 'base'):
            raise Unsupported('_Substring.%s of an opaque substring' % name)
        raise Unsupported('_Substring.%s is not modelled' % name)

    def getitem(self, ctx, idx):
        f = self.P.sub_methods.get('__getitem__')
        if f is None:
            raise Unsupported('_Substring.__getitem__ is not part of this scenario')
        return f(ctx, self, idx)

    def sym_str(self, ctx):
        f = self.P.sub_methods.get('__str__')
        if f is None:
            return SOpaque('str')
        return f(ctx, self)

    def iterate(self, ctx):
        f = self.P.sub_methods.get('__iter__')
        if f is None:
            raise Unsupported('_Substring.__iter__ is not part of this scenario')
        return f(ctx, self)

    def contains(self, ctx, item):
        return self.P.fact(ctx, '%s:contains %r' % (self.tag, item))

    def compare(self, ctx, op, other, reflected):
        if op in ('==', '!='):
            return (other is self) == (op == '==')
        return NotImplemented

    def unop(self, ctx, op):
        if op == 'not':
            t = self.truth(ctx)
            return (not t) if isinstance(t, bool) else SBool(z3.Not(t))
        raise Unsupported('unary %s on a substring' % op)


class Res:
    """an abstract parse result with symbolic index characters / axis lengths satisfying R"""

    def __init__(self, cx, tag, rank, nsummed=1):
        self.tag = tag
        self.chars = [STerm(cx.const('%s.idx%d' % (tag, k), CH), (str,), '%s.idx%d' % (tag, k)) for k in range(rank)]
        self.lens = [SInt(cx.int('%s.len%d' % (tag, k))) for k in range(rank)]
        self.summed = [STerm(cx.const('%s.summed%d' % (tag, k), CH), (str,), '%s.summed%d' % (tag, k)) for k in range(nsummed)]
        allc = [c.term for c in self.chars + self.summed]
        if len(allc) > 1:
            cx.assume(z3.Distinct(*allc))  # R: indices pairwise distinct and not summed; a set has distinct elements
        self.array = SOpaque(tag)

    def value(self):
        return (self.array, tuple(self.lens), IdxStr(self.chars), SmallSet(list(self.summed), frozen=True))


def eq_any(x, ys):
    return z3.Or(*[x.term == y.term for y in ys]) if ys else z3.BoolVal(False)


def R_holds(shape, indices, summed):
    chars = list(indices.chars) if isinstance(indices, IdxStr) else list(indices)
    if not isinstance(shape, tuple) or len(shape) != len(chars):
        return z3.BoolVal(False)
    sel = summed.elems if isinstance(summed, SmallSet) else list(summed)
    cs = [z3.Not(eq_any(c, sel)) for c in chars]
    if len(chars) > 1:
        cs.append(z3.Distinct(*[c.term for c in chars]))
    return z3.And(*cs) if cs else z3.BoolVal(True)


def set_equals(summed, parts):
    """the set `summed` is the union of the element lists `parts`"""
    sel = summed.elems if isinstance(summed, SmallSet) else list(summed)
    allp = [x for p in parts for x in p]
    cs = [eq_any(x, sel) for x in allp] + [eq_any(x, allp) for x in sel]
    return z3.And(*cs) if cs else z3.BoolVal(True)


class Backend(SObj):
    """uninterpreted `_ArrayOps`: logs every call, returns a fresh token"""

    def __init__(self, results=None):
        super().__init__('_ArrayOps')
        self.log = []
        self.results = results or {}

    def getattr(self, ctx, name):
        me = self

        def f(ctx, *args):
            if name in me.results:
                r = me.results[name](ctx, *args)
            else:
                r = SOpaque('%s#%d' % (name, len(me.log)))
            me.log.append((name, args, r))
            return r
        return f

    def calls(self, name):
        return [(a, r) for n, a, r in self.log if n == name]


class PWorld:
    def __init__(self, cx):
        self.cx = cx
        self.facts = {}
        self.sub_methods = {}
        self.backend = Backend()
        self.log = []  # calls of mocked parse_* methods
        self.parser = SObj('_Parser', attrs=dict(array=self.backend), methods={})
        for m in ('_trace', '_merge_summed_indices_same_term', '_verify_indices_summed'):
            self.parser.methods[m] = InlineFn('%s:_Parser.%s' % (MOD, m))  # real bodies
        self.globals = {'_match': lambda ctx, s: Matcher(s), '_match_spaces': Matcher('spaces'),
                        '_nth': InlineFn(MOD + ':_nth'), '_ORDINALS': module_constant('_ORDINALS'), '_sp': lambda ctx, *a: SOpaque('str')}

        from pyvc import ops

        def model_set(frozen):
            def f(ctx, it=()):
                r = (ops.py_frozenset if frozen else ops.py_set)(ctx, it)
                return SmallSet((), frozen) if isinstance(r, (set, frozenset)) and not r else r  # an empty set that may later hold symbolic characters
            return f
        self.globals.update(set=model_set(False), frozenset=model_set(True))

    def fact(self, ctx, name):
        if name not in self.facts:
            self.facts[name] = ctx.bool(name)
        return self.facts[name]


class ParseContract(Contract):
    prop = PROP

    def raises(self, cx, S, e):
        if e.exc == 'ExpressionSyntaxError':
            return self.must_reject(cx, S)
        return False

    def replay(self, ob):
        return native('parser()')


# ------------------------------------------------------------------------------------------------ parse_expression

class ParseExpression(ParseContract):
    """parse_expression: terms of a sum must have the same index SET and equal axis lengths per index (else ExpressionSyntaxError);
    every further term is transposed to the first term's index order; signs are the leading minus and the ` - ` separators."""
    fn = MOD + ':_Parser.parse_expression'

    def __init__(self, ranks, lead='none', nsummed=1):
        self.ranks, self.lead, self.nsummed = tuple(ranks), lead, nsummed
        self.label = 'term ranks=%s%s' % (','.join(map(str, ranks)), ',leading minus symbolic' if lead == 'sym' else '')
        self.expect_return = len(set(ranks)) == 1  # terms of different rank are always rejected
        self.bounded = 'at most 3 terms of rank <= 3 (three terms: rank <= 2), at most one summed index per term; index characters, axis lengths, signs symbolic'

    def setup(self, cx):
        P = PWorld(cx)
        terms = [Res(cx, 'term%d' % t, r, self.nsummed) for t, r in enumerate(self.ranks)]
        pieces = [ASub(P, 'piece%d' % t) for t in range(len(terms))]
        ims = [None] + [cx.int('separator%d' % t) for t in range(1, len(terms))]
        S = State(P=P, terms=terms, pieces=pieces, ims=ims, isplit_args=None, minus=None, after=None)

        def strip_prefix(ctx, s, prefix):
            if prefix != '-' or not s.tag.endswith('.trim_start'):
                raise Unsupported('strip_prefix(%r) on %s' % (prefix, s.tag))
            S.minus = P.fact(ctx, 'starts-with-minus') if self.lead == 'sym' else False
            if ctx.branch(S.minus):
                S.after = ASub(P, 'after-minus')
                return S.after
            return None

        def isplit(ctx, s, *matchers, first):
            S.isplit_args = (s, matchers, first)
            out = [(first, pieces[0])]
            for t in range(1, len(terms)):
                ctx.assume(z3.And(0 <= ims[t], ims[t] < len(matchers)), axiom='contract of _Substring.isplit: matcher index of the separator')
                out.append((SInt(ims[t]), pieces[t]))
            return out
        P.sub_methods.update(strip_prefix=strip_prefix, isplit=isplit)

        def parse_fraction(ctx, me, s):
            t = pieces.index(s)
            P.log.append(('parse_fraction', t))
            return terms[t].value()
        P.parser.methods['parse_fraction'] = parse_fraction
        S.s = ASub(P, 's')
        S.args = (P.parser, S.s)
        S.globals = P.globals
        return S

    def same_set(self, S, t):
        a, b = S.terms[0].chars, S.terms[t].chars
        if len(a) != len(b):
            return z3.BoolVal(False)
        return z3.And(*[eq_any(x, b) for x in a]) if a else z3.BoolVal(True)

    def must_reject(self, cx, S):
        cs = []
        for t in range(1, len(S.terms)):
            cs.append(z3.Not(self.same_set(S, t)))
            for k, x in enumerate(S.terms[0].chars):
                for j, y in enumerate(S.terms[t].chars):
                    cs.append(z3.And(x.term == y.term, zint(S.terms[0].lens[k]) != zint(S.terms[t].lens[j])))
        return z3.Or(*cs) if cs else z3.BoolVal(False)

    def ensures(self, cx, S, result):
        P = S.P
        arr, shape, indices, summed = result
        T0 = S.terms[0]
        s_arg, matchers, first = S.isplit_args
        out = [('splits-at-plus-and-minus-surrounded-by-spaces', z3.BoolVal(tuple(matchers) == (Matcher(' + '), Matcher(' - ')) and first in (0, 1))),
               ('every-term-parsed-once-in-order', z3.BoolVal(P.log == [('parse_fraction', t) for t in range(len(S.terms))]))]
        neg0 = z3.And(zbool(S.minus), zbool(S.after.nonempty)) if S.after is not None else z3.BoolVal(False)
        out.append(('leading-minus-negates-the-first-term', z3.BoolVal(first == 1) == neg0))
        out.append(('terms-are-split-from-the-text-after-the-leading-minus', z3.BoolVal(s_arg is (S.after if first == 1 else S.s))))
        out.append(('accepted-only-if-index-sets-and-lengths-agree', z3.Not(self.must_reject(cx, S))))
        adds = P.backend.calls('add')
        if len(S.terms) == 1 and first == 0:
            out.append(('single-term-returned-as-is', z3.BoolVal(arr is T0.array and not P.backend.log and isinstance(indices, IdxStr) and list(indices.chars) == T0.chars and list(shape) == T0.lens)))
            out.append(('summed-is-the-union-of-the-terms', set_equals(summed, [T0.summed])))
            out.append(('result-invariant-R', R_holds(shape, indices, summed)))
            return out
        ok = len(adds) == 1 and len(adds[0][0]) == len(S.terms) and arr is adds[0][1] and isinstance(indices, IdxStr) and len(indices.chars) == len(T0.chars) and len(shape) == len(T0.lens)
        if not ok:
            return out + [('one-add-of-all-terms', z3.BoolVal(False))]
        out.append(('one-add-of-all-terms', z3.BoolVal(True)))
        out.append(('result-has-the-first-terms-indices-and-shape', z3.And(*[a.term == b.term for a, b in zip(indices.chars, T0.chars)], *[zint(a) == zint(b) for a, b in zip(shape, T0.lens)])))
        signs, aligned = [], []
        transposes = {id(r): a for a, r in P.backend.calls('transpose')}
        for t, pair in enumerate(adds[0][0]):
            neg, term = pair
            signs.append(zbool(neg) == (z3.BoolVal(first == 1) if t == 0 else S.ims[t] == 1))
            Tt = S.terms[t]
            if term is Tt.array:
                aligned.append(z3.And(*[a.term == b.term for a, b in zip(Tt.chars, T0.chars)]) if len(Tt.chars) == len(T0.chars) else z3.BoolVal(False))
            elif id(term) in transposes and transposes[id(term)][0] is Tt.array:
                axes = transposes[id(term)][1]
                if not (isinstance(axes, tuple) and len(axes) == len(T0.chars) and all(isinstance(a, int) and 0 <= a < len(Tt.chars) for a in axes)):
                    aligned.append(z3.BoolVal(False))
                else:
                    # numpy.transpose: axis k of the result is axis axes[k] of the operand; it must carry the first term's k-th index
                    aligned.append(z3.And(*[Tt.chars[axes[k]].term == T0.chars[k].term for k in range(len(axes))]) if axes else z3.BoolVal(True))
            else:
                aligned.append(z3.BoolVal(False))
        out.append(('sign-of-each-term', z3.And(*signs)))
        out.append(('every-term-aligned-to-the-first-terms-index-order', z3.And(*aligned)))
        out.append(('summed-is-the-union-of-the-terms', set_equals(summed, [T.summed for T in S.terms])))
        out.append(('result-invariant-R', R_holds(shape, indices, summed)))
        return out


# ------------------------------------------------------------------------------------------------ parse_fraction

class ParseFraction(ParseContract):
    """parse_fraction: at most one ` / `; the denominator must have dimension zero; summed indices of numerator and denominator must not
    collide with each other nor with the free indices (a third use of an index)."""
    fn = MOD + ':_Parser.parse_fraction'

    def __init__(self, nparts, rnum=0, rden=0):
        self.nparts, self.rnum, self.rden = nparts, rnum, rden
        self.label = 'parts=%d,numerator rank=%d,denominator rank=%d' % (nparts, rnum, rden)
        self.expect_return = nparts <= 2 and not rden  # repeated fractions and non-scalar denominators are always rejected
        self.bounded = 'numerator rank <= 3, denominator rank <= 1, one summed index each; index characters and lengths symbolic'

    def setup(self, cx):
        P = PWorld(cx)
        num, den = Res(cx, 'numerator', self.rnum), Res(cx, 'denominator', self.rden)
        pieces = [ASub(P, 'piece%d' % t) for t in range(self.nparts)]
        S = State(P=P, num=num, den=den, pieces=pieces, split_args=None)

        def split(ctx, s, *matchers):
            S.split_args = (s, matchers)
            return list(pieces)
        P.sub_methods['split'] = split

        def parse_term(ctx, me, s):
            t = pieces.index(s)
            P.log.append(('parse_term', t))
            return (num, den)[t].value()
        P.parser.methods['parse_term'] = parse_term
        S.s = ASub(P, 's')
        S.args = (P.parser, S.s)
        S.globals = P.globals
        return S

    def must_reject(self, cx, S):
        if self.nparts > 2:
            return z3.BoolVal(True)
        if self.nparts == 1:
            return z3.BoolVal(False)
        if self.rden:
            return z3.BoolVal(True)
        cs = [eq_any(x, S.den.summed) for x in S.num.summed] + [eq_any(x, S.den.summed) for x in S.num.chars]
        return z3.Or(*cs) if cs else z3.BoolVal(False)

    def ensures(self, cx, S, result):
        P = S.P
        arr, shape, indices, summed = result
        out = [('splits-at-slash-surrounded-by-spaces', z3.BoolVal(S.split_args is not None and S.split_args[0] is S.s and tuple(S.split_args[1]) == (Matcher(' / '),))),
               ('accepted-only-if-valid', z3.Not(self.must_reject(cx, S)))]
        same_free = isinstance(indices, IdxStr) and list(indices.chars) == S.num.chars and list(shape) == S.num.lens
        if self.nparts == 1:
            out.append(('numerator-returned-as-is', z3.BoolVal(arr is S.num.array and same_free and not P.backend.log and P.log == [('parse_term', 0)])))
            out.append(('summed-is-the-union', set_equals(summed, [S.num.summed])))
        else:
            div = P.backend.calls('divide')
            out.append(('divide(numerator, denominator)', z3.BoolVal(len(div) == 1 and len(P.backend.log) == 1 and div[0][0][0] is S.num.array and div[0][0][1] is S.den.array and arr is div[0][1]
                                                                        and P.log == [('parse_term', 0), ('parse_term', 1)])))
            out.append(('free-indices-are-the-numerators', z3.BoolVal(same_free)))
            out.append(('summed-is-the-union', set_equals(summed, [S.num.summed, S.den.summed])))
        out.append(('result-invariant-R', R_holds(shape, indices, summed)))
        return out


# ------------------------------------------------------------------------------------------------ parse_term

class TermSpec:
    """index-notation reading of a product: `chars`/`lens` are the concatenated indices of the factors, `parts` their summed sets"""

    def __init__(self, chars, lens, parts):
        self.chars, self.lens, self.parts = chars, lens, parts
        self.n = len(chars)

    def count(self, k):
        return sum([z3.If(self.chars[k].term == c.term, 1, 0) for c in self.chars])

    def must_reject(self):
        cs = []
        allsum = [x for p in self.parts for x in p]
        for k in range(self.n):
            cs.append(self.count(k) >= 3)
            cs.append(eq_any(self.chars[k], allsum))  # summed inside a factor: this would be a third use
            for m in range(k + 1, self.n):
                cs.append(z3.And(self.chars[k].term == self.chars[m].term, zint(self.lens[k]) != zint(self.lens[m])))
        for p, q in itertools.combinations(self.parts, 2):
            cs += [eq_any(x, q) for x in p]  # summed in two factors
        return z3.Or(*cs) if cs else z3.BoolVal(False)

    def clauses(self, shape, indices, summed, ntraces):
        out_chars = list(indices.chars)
        once = [self.count(k) == 1 for k in range(self.n)]
        n_out = len(out_chars)
        goal = [sum([z3.If(o, 1, 0) for o in once]) == n_out if self.n else z3.BoolVal(n_out == 0), z3.BoolVal(len(shape) == n_out)]
        for p in range(min(n_out, len(shape))):
            alts = []
            for k in range(self.n):
                before = sum([z3.If(once[m], 1, 0) for m in range(k)]) if k else z3.IntVal(0)
                alts.append(z3.And(once[k], before == p, out_chars[p].term == self.chars[k].term, zint(shape[p]) == zint(self.lens[k])))
            goal.append(z3.Or(*alts))
        twice = [[self.chars[k]] for k in range(self.n)]
        sel = summed.elems if isinstance(summed, SmallSet) else list(summed)
        allsum = [x for p in self.parts for x in p]
        g2 = [eq_any(x, sel) for x in allsum]
        for k in range(self.n):
            g2.append(z3.Implies(self.count(k) == 2, eq_any(self.chars[k], sel)))
        for x in sel:
            g2.append(z3.Or(eq_any(x, allsum), *[z3.And(x.term == self.chars[k].term, self.count(k) == 2) for k in range(self.n)]))
        return [('free-indices-are-those-occurring-once-in-order', z3.And(*goal)),
                ('summed-gains-exactly-the-repeated-indices', z3.And(*g2) if g2 else z3.BoolVal(True)),
                ('one-trace-per-repeated-index', (sum([z3.If(self.count(k) == 2, 1, 0) for k in range(self.n)]) == 2 * ntraces) if self.n else z3.BoolVal(ntraces == 0))]


class ParseTerm(ParseContract):
    """parse_term: juxtaposed factors are multiplied; an index occurring once stays free (order of first occurrence), twice is summed
    (trace), more often -- counting uses inside the factors -- is an ExpressionSyntaxError; only the first factor may be a number."""
    fn = MOD + ':_Parser.parse_term'

    def __init__(self, ranks):
        self.ranks = tuple(ranks)
        self.label = 'factor ranks=%s' % (','.join(map(str, ranks)) or 'blank')
        self.bounded = 'at most 3 factors, at most 4 indices in total, one summed index per factor (none when 4 indices); characters and lengths symbolic'

    def setup(self, cx):
        P = PWorld(cx)
        ns = 0 if sum(self.ranks) >= 4 else 1
        facs = [Res(cx, 'factor%d' % t, r, ns) for t, r in enumerate(self.ranks)]
        pieces = [ASub(P, 'piece%d' % t) for t in range(len(facs))]
        blank = Res(cx, 'blank', 0, 0)
        S = State(P=P, facs=facs, pieces=pieces, split_args=None, blank=blank)
        S.s = ASub(P, 's')
        # scenario: `ranks == ()` is the blank term (s.trim() is empty), otherwise s.trim() is non-empty
        S.s.derived(None, 'trim', nonempty=bool(self.ranks))

        def split(ctx, s, *matchers):
            S.split_args = (s, matchers)
            return list(pieces)
        P.sub_methods['split'] = split

        def parse_power(ctx, me, s, allow_number):
            if s is S.s:
                P.log.append(('parse_power', 'whole', allow_number))
                return blank.value()
            t = pieces.index(s)
            P.log.append(('parse_power', t, allow_number))
            return facs[t].value()
        P.parser.methods['parse_power'] = parse_power
        S.args = (P.parser, S.s)
        S.globals = P.globals
        S.spec = TermSpec([c for f in facs for c in f.chars], [n for f in facs for n in f.lens], [f.summed for f in facs])
        return S

    def must_reject(self, cx, S):
        if len(self.ranks) <= 1:
            return z3.BoolVal(False)  # a single factor is returned as is; the blank term is rejected by parse_power (mocked here)
        return S.spec.must_reject()

    def ensures(self, cx, S, result):
        P = S.P
        arr, shape, indices, summed = result
        if not self.ranks:
            return [('blank-term-is-left-to-parse_power-on-the-untrimmed-text', z3.BoolVal(P.log == [('parse_power', 'whole', True)] and arr is S.blank.array and not P.backend.log))]
        out = [('splits-the-trimmed-text-at-spaces', z3.BoolVal(S.split_args is not None and S.split_args[0] is S.s.derived(None, 'trim') and tuple(S.split_args[1]) == (Matcher('spaces'),))),
               ('only-the-first-factor-may-be-a-number', z3.BoolVal(P.log == [('parse_power', t, t == 0) for t in range(len(self.ranks))])),
               ('accepted-only-if-valid', z3.Not(self.must_reject(cx, S)))]
        if len(self.ranks) == 1:
            F = S.facs[0]
            out.append(('single-factor-returned-as-is', z3.BoolVal(arr is F.array and not P.backend.log and isinstance(indices, IdxStr) and list(indices.chars) == F.chars and list(shape) == F.lens)))
            out.append(('summed-unchanged', set_equals(summed, [F.summed])))
        else:
            mul = P.backend.calls('multiply')
            traces = P.backend.calls('trace')
            out.append(('multiply-of-all-factors-in-order', z3.BoolVal(len(mul) == 1 and len(mul[0][0]) == len(S.facs) and all(a is f.array for a, f in zip(mul[0][0], S.facs))
                                                                         and (traces[0][0][0] is mul[0][1] if traces else arr is mul[0][1]) and len(P.backend.log) == 1 + len(traces))))
            if not isinstance(indices, IdxStr):
                raise Unsupported('indices %r' % (indices,))
            out += S.spec.clauses(shape, indices, summed, len(traces))
        out.append(('result-invariant-R', R_holds(shape, indices, summed)))
        return out


def contracts():
    cs = [ParseExpression((0,), 'sym'), ParseExpression((1, 1), 'sym')]
    cs += [ParseExpression(rs) for rs in ((0, 1), (1, 2), (2, 2), (1, 1, 1))]
    cs += [ParseExpression((3, 3), nsummed=0)]
    cs += [ParseFraction(1, 2), ParseFraction(3), ParseFraction(2, 0, 0), ParseFraction(2, 1, 0), ParseFraction(2, 2, 0), ParseFraction(2, 3, 0), ParseFraction(2, 1, 1)]
    cs.append(ParseTerm(()))
    cs += [ParseTerm(rs) for rs in ((2,), (1, 1), (1, 2), (2, 2), (1, 3), (1, 0, 1), (1, 1, 1))]
    return cs


TRUSTED = ['the array backend is uninterpreted (calls are logged and compared); the parse_* functions called by the function under contract are replaced by abstract results satisfying R '
           '(each is itself under contract; R for the whole parser by induction on recursion depth); substrings are opaque for parse_expression/parse_fraction/parse_term '
           '(their scanning is under contract in c19_substring)']
ASSUMPTIONS = ['BOUNDED: parse_expression <= 3 terms of rank <= 3, parse_fraction numerator rank <= 3, parse_term <= 3 factors and <= 4 indices; at most one summed index per sub-result',
               'sub-results satisfy R: len(shape) = len(indices), indices pairwise distinct and not in the summed set']
NOT_COVERED = []
