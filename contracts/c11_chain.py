"""C11 (chain rewriting) -- transform.canonical / uppermost / promote keep the composed affine map.

Chains are sequences of SYMBOLIC LENGTH of abstract transform items.  The affine map of a chain is the fold
    compose(items, lo, hi) = amap(items[lo]) after ... after amap(items[hi-1])
in an abstract monoid (`after` associative with identity `id_map`): nothing about matrices is used, so the result holds
for every instantiation of items whose swapup/swapdown satisfy the ITEM-LEVEL contract A-SWAP below (the real item classes
are checked against A-SWAP in contracts/c11_swap.py).

A-SWAP (item level; `b.swapdown(a)` for adjacent chain items (a, b), `a.swapup(b)` likewise), for fromdims(a) == todims(b):
    returns None, or a pair (s0, s1) with   amap(s0) after amap(s1) == amap(a) after amap(b),
    todims(s0) == todims(a), fromdims(s1) == fromdims(b), fromdims(s0) == todims(s1);
    swapdown returns a pair only if its receiver b is an updim (todims == fromdims + 1) and a is square,
    swapup   returns a pair only if its receiver a is an updim and b is square.
A-DIM: every item has todims >= fromdims >= 0.

The real bodies of canonical, uppermost (while loops, invariants below) and promote (for loop with early return; the
two callees are replaced by their contracts, which are exactly the postconditions proved here) are executed.

L-MONOID (fold lemmas, used only as explicit instances -- the split points the loop touches):
    split      lo <= k <= hi  =>  compose(x, lo, hi) == compose(x, lo, k) after compose(x, k, hi)
    singleton  compose(x, k, k+1) == amap(x[k]);   compose(x, k, k) == id_map
    frame      (forall j in [0, len): x[lo+j] == y[lo2+j])  =>  compose(x, lo, lo+len) == compose(y, lo2, lo2+len)
"""
import z3
from pyvc.contract import Contract, State
from pyvc.values import SInt, SBool, Sym, Unsupported, PyRaise, zint, zbool
from pyvc.interp import Loop
from pyvc import ops

PROP = 'C11'
I = z3.IntSort()
ITEM = z3.DeclareSort('TransformItem')
MAP = z3.DeclareSort('AffineMap')
ARR = z3.ArraySort(I, ITEM)
amap = z3.Function('amap', ITEM, MAP)
after = z3.Function('after', MAP, MAP, MAP)
id_map = z3.Const('id_map', MAP)
compose = z3.Function('compose', ARR, I, I, MAP)
td = z3.Function('todims', ITEM, I)
fd = z3.Function('fromdims', ITEM, I)
swd_ok = z3.Function('swapdown_some', ITEM, ITEM, z3.BoolSort())  # swd_ok(b, a): b.swapdown(a) is not None
swd0 = z3.Function('swapdown_0', ITEM, ITEM, ITEM)
swd1 = z3.Function('swapdown_1', ITEM, ITEM, ITEM)
swu_ok = z3.Function('swapup_some', ITEM, ITEM, z3.BoolSort())  # swu_ok(a, b): a.swapup(b) is not None
swu0 = z3.Function('swapup_0', ITEM, ITEM, ITEM)
swu1 = z3.Function('swapup_1', ITEM, ITEM, ITEM)

AX_MONOID = 'monoid: `after` (composition of affine maps) is associative with identity id_map'
AX_FOLD = 'L-MONOID: compose(x, lo, hi) is the fold of `after` over amap(x[lo..hi)): split / singleton / empty / frame, explicit instances only'
AX_SWAP = 'A-SWAP: swapup/swapdown of adjacent compatible items return None or a pair with the same composition, the same outer dimensions and matching inner dimensions; only an updim receiver facing a square partner swaps (item-level contract; see c11_swap)'
AX_DIM = 'A-DIM: every transform item has todims >= fromdims >= 0'
AX_MONO = 'L-MONO: adjacent-monotone => monotone, applied to the dimensions along a well-formed chain (lemmas/LMono.lean)'

_qn = [0]


def _bound():
    """refutation mode (pyvc.nparr.BOUND): chains have at most BOUND items and every position quantifier is expanded, so that a
    failing obligation becomes quantifier-free and yields a model; never used to prove anything"""
    from pyvc import nparr
    return nparr.BOUND


def forall(n, body, pats=None):
    if _bound() is not None:
        import itertools
        return z3.And(*[body(*[z3.IntVal(v) for v in vs]) for vs in itertools.product(range(0, 2 * _bound() + 2), repeat=n)])
    _qn[0] += 1
    vs = [z3.Int('c%d!%d' % (_qn[0], k)) for k in range(n)]
    b = body(*vs)
    if pats is not None:
        return z3.ForAll(vs, b, patterns=pats(*vs))
    return z3.ForAll(vs, b)


def base_axioms(cx):
    # the monoid laws of `after` are what makes the fold lemmas (L-MONOID) true; the proofs below use them only through the
    # explicit L-MONOID instances (a quantified associativity axiom is a matching loop and is not needed)
    cx.used_axioms.add(AX_MONOID)
    t, u = z3.Consts('ta tb', ITEM)
    cx.assume(z3.ForAll([t], z3.And(td(t) >= fd(t), fd(t) >= 0)), axiom=AX_DIM)
    cx.assume(z3.ForAll([t, u], z3.Implies(swd_ok(u, t), z3.And(td(u) == fd(u) + 1, td(t) == fd(t))), patterns=[swd_ok(u, t)]), axiom=AX_SWAP)
    cx.assume(z3.ForAll([t, u], z3.Implies(swu_ok(t, u), z3.And(td(t) == fd(t) + 1, td(u) == fd(u))), patterns=[swu_ok(t, u)]))


# ---- explicit instances of the fold lemmas

def split(x, lo, k, hi):
    return z3.Implies(z3.And(lo <= k, k <= hi), compose(x, lo, hi) == after(compose(x, lo, k), compose(x, k, hi)))


def single(x, k):
    return compose(x, k, k + 1) == amap(z3.Select(x, k))


def empty(x, k):
    return compose(x, k, k) == id_map


def frame(x, lo, y, lo2, ln):
    """frame instance whose antecedent (forall j in [0, ln): x[lo+j] == y[lo2+j]) holds BY CONSTRUCTION of x at every use
    (x is Store(y, ...) outside the range, or is defined as the concatenation): only the conclusion is emitted."""
    return z3.Implies(ln >= 0, compose(x, lo, z3.simplify(lo + ln)) == compose(y, lo2, z3.simplify(lo2 + ln)))


# ---- symbolic values

class TItem(Sym):
    """An abstract transform item (a term of sort TransformItem)."""

    def __init__(self, term):
        self.term = term

    def truth(self, ctx):
        return True

    def compare(self, ctx, op, other, reflected):
        if op in ('==', '!='):
            if isinstance(other, TItem):
                e = self.term == other.term
                return SBool(e if op == '==' else z3.Not(e))
            return op == '!='
        return NotImplemented

    def getattr(self, ctx, name):
        if name == 'fromdims':
            return SInt(fd(self.term))
        if name == 'todims':
            return SInt(td(self.term))
        if name == 'swapdown':
            return lambda ctx, other: self._swap(ctx, other, 'swapdown')
        if name == 'swapup':
            return lambda ctx, other: self._swap(ctx, other, 'swapup')
        raise Unsupported('attribute %s of an abstract transform item' % name)

    def _swap(self, ctx, other, which):
        if not isinstance(other, TItem):
            raise Unsupported('%s with %r' % (which, other))
        if which == 'swapdown':  # chain order (a, b) = (other, self)
            a, b = other.term, self.term
            ok, s0, s1 = swd_ok(b, a), swd0(b, a), swd1(b, a)
        else:  # chain order (a, b) = (self, other)
            a, b = self.term, other.term
            ok, s0, s1 = swu_ok(a, b), swu0(a, b), swu1(a, b)
        # callee precondition (A-SWAP is stated for adjacent, dimension-compatible items in chain order)
        ctx.lemma('%s-precondition:receiver-and-argument-are-adjacent-in-chain-order' % which, fd(a) == td(b))
        if not ctx.branch(ok):
            return None
        ctx.assume(z3.And(after(amap(s0), amap(s1)) == after(amap(a), amap(b)), td(s0) == td(a), fd(s1) == fd(b), fd(s0) == td(s1)), axiom=AX_SWAP)
        return (TItem(s0), TItem(s1))


class ItemSeq(Sym):
    """A tuple/list of abstract items: element k is arr[off + k], 0 <= k < n (n symbolic)."""
    mutable = False

    def __init__(self, arr, off, n, name='chain'):
        self.arr, self.off, self.n, self.name = arr, (off if z3.is_expr(off) else z3.IntVal(off)), (n if z3.is_expr(n) else z3.IntVal(n)), name

    @classmethod
    def fresh(cls, cx, name, n=None):
        if n is None:
            n = cx.int('len(%s)' % name)
            cx.assume(n >= 0)
        if _bound() is not None:
            cx.assume(n <= _bound())
        return cls(cx.const(name, ARR, report=False), z3.IntVal(0), n, name)

    def at(self, k):
        return z3.Select(self.arr, z3.simplify(self.off + k))

    def comp(self):
        return compose(self.arr, self.off, z3.simplify(self.off + self.n))

    def length(self, ctx):
        return SInt(self.n)

    def truth(self, ctx):
        return self.n > 0

    def isinstance_(self, ctx, types):
        return (list if self.mutable else tuple) in types

    def iterate(self, ctx):
        n = z3.simplify(self.n)
        if z3.is_int_value(n):
            return [TItem(self.at(z3.IntVal(k))) for k in range(n.as_long())]
        raise Unsupported('iteration over a chain of symbolic length (needs a loop contract)')

    def seq_len(self, ctx):
        return self.n

    def seq_at(self, ctx, i):
        return TItem(self.at(i))

    def _clamp(self, ctx, x, default):
        """slice bound as CPython clamps it; decided by branching so that the index terms stay free of if-then-else"""
        if x is None:
            return default
        v = zint(x)
        if ctx.branch(v < 0):
            v = v + self.n
            if ctx.branch(v < 0):
                return z3.IntVal(0)
            return z3.simplify(v)
        if ctx.branch(v > self.n):
            return self.n
        return z3.simplify(v)

    def _bounds(self, ctx, sl):
        if sl.step is not None and not (isinstance(sl.step, int) and not isinstance(sl.step, bool) and sl.step == 1):
            raise Unsupported('chain slice with a step')
        start = self._clamp(ctx, sl.start, z3.IntVal(0))
        stop = self._clamp(ctx, sl.stop, self.n)
        if ctx.branch(stop > start):
            return start, z3.simplify(stop - start)
        return start, z3.IntVal(0)

    def _index(self, ctx, idx, what):
        i = zint(idx)
        if not ctx.branch(z3.And(i >= -self.n, i < self.n)):
            raise PyRaise('IndexError', note=what)
        if ctx.branch(i < 0):
            return z3.simplify(i + self.n)
        return z3.simplify(i)

    def getitem(self, ctx, idx):
        if isinstance(idx, slice):
            start, ln = self._bounds(ctx, idx)
            # L-MONOID split instances at the slice boundaries
            lo, hi, s = self.off, z3.simplify(self.off + self.n), z3.simplify(self.off + start)
            ctx.assume(split(self.arr, lo, s, hi), axiom=AX_FOLD)
            ctx.assume(split(self.arr, s, z3.simplify(s + ln), hi))
            ctx.assume(empty(self.arr, hi))
            ctx.assume(empty(self.arr, lo))
            return type(self)(self.arr, s, ln, '%s[%s:+%s]' % (self.name, start, ln))
        if isinstance(idx, (int, SInt, SBool)):
            return TItem(self.at(self._index(ctx, idx, 'chain index out of range')))
        raise Unsupported('chain index %r' % (idx,))

    def binop(self, ctx, op, other, reflected):
        if op == '+' and isinstance(other, ItemSeq) and other.mutable == self.mutable:
            a, b = (other, self) if reflected else (self, other)
            return concat(ctx, a, b)
        if op == '+' and isinstance(other, (tuple, list)) and len(other) == 0 and isinstance(other, list) == self.mutable:
            return self
        return NotImplemented

    def compare(self, ctx, op, other, reflected):
        if op in ('==', '!=') and isinstance(other, ItemSeq) and other.mutable == self.mutable:
            e = z3.And(self.n == other.n, forall(1, lambda k: z3.Implies(z3.And(0 <= k, k < self.n), self.at(k) == other.at(k))))
            return SBool(e if op == '==' else z3.Not(e))
        return NotImplemented


class ItemTuple(ItemSeq):
    pass


class ItemList(ItemSeq):
    mutable = True

    def havoc(self, ctx, name):
        self.arr = ctx.const(name, ARR, report=False)
        self.n = ctx.int('len(%s)' % name, report=False)
        ctx.assume(self.n >= 0)
        return self

    def setitem(self, ctx, idx, value):
        if isinstance(idx, slice):
            vals = ops.iterate(ctx, value)
            if not all(isinstance(v, TItem) for v in vals):
                raise Unsupported('chain slice store of %r' % (value,))
            start, ln = self._bounds(ctx, idx)
            k = len(vals)
            s = z3.simplify(self.off + start)
            lo, hi = self.off, z3.simplify(self.off + self.n)
            old = self.arr
            if ctx.branch(ln == k):
                new = self.arr = updated(ctx, old, [(z3.simplify(s + j), v.term) for j, v in enumerate(vals)], self.name)
                # L-MONOID instances at the split points lo, s, s+1, ..., s+k, hi for the old and the new list
                e = z3.simplify(s + k)
                for x in (old, new):
                    # compose(x, lo, hi) == compose(x, lo, s) after (amap(x[s]) after ... amap(x[s+k-1])) after compose(x, s+k, hi)
                    ctx.assume(split(x, lo, s, hi), axiom=AX_FOLD)
                    ctx.assume(split(x, s, e, hi))
                    for j in range(k):
                        if j < k - 1:
                            ctx.assume(split(x, z3.simplify(s + j), z3.simplify(s + j + 1), e))
                        ctx.assume(single(x, z3.simplify(s + j)))
                ctx.assume(frame(new, lo, old, lo, start))
                ctx.assume(frame(new, z3.simplify(s + k), old, z3.simplify(s + k), z3.simplify(self.n - start - k)))
                return
            # general splice: the length changes
            new = ctx.const("%s'" % self.name, ARR, report=False)
            ctx.assume(forall(1, lambda j: z3.Implies(z3.And(lo <= j, j < s), z3.Select(new, j) == z3.Select(old, j)), lambda j: [z3.Select(new, j)]))
            for j, v in enumerate(vals):
                ctx.assume(z3.Select(new, z3.simplify(s + j)) == v.term)
            ctx.assume(forall(1, lambda j: z3.Implies(j >= s + k, z3.Select(new, j) == z3.Select(old, j - k + ln)), lambda j: [z3.Select(new, j)]))
            self.arr, self.n = new, z3.simplify(self.n - ln + k)
            return
        if isinstance(idx, (int, SInt, SBool)) and isinstance(value, TItem):
            p = z3.simplify(self.off + self._index(ctx, idx, 'chain assignment index out of range'))
            old, lo, hi = self.arr, self.off, z3.simplify(self.off + self.n)
            new = self.arr = updated(ctx, old, [(p, value.term)], self.name)
            for x in (old, new):
                ctx.assume(split(x, lo, p, hi), axiom=AX_FOLD)
                ctx.assume(split(x, p, p + 1, hi))
                ctx.assume(single(x, p))
            ctx.assume(frame(new, lo, old, lo, p - lo))
            ctx.assume(frame(new, p + 1, old, p + 1, hi - p - 1))
            return
        raise Unsupported('chain store %r' % (idx,))


def updated(ctx, old, writes, name):
    """the array `old` with the given positions overwritten, as a fresh constant with its defining facts (read-over-write spelled
    out with the pattern new[j] / old[j], so that E-matching alone follows it)"""
    if _bound() is not None:
        new = old
        for p, t in writes:
            new = z3.Store(new, p, t)
        return new
    new = ctx.const("%s'" % name, ARR, report=False)
    j = z3.Int('j!upd')
    ctx.assume(z3.ForAll([j], z3.Implies(z3.And(*[j != p for p, _ in writes]), z3.Select(new, j) == z3.Select(old, j)), patterns=[z3.Select(new, j), z3.Select(old, j)]))
    for k, (p, t) in enumerate(writes):
        if any(z3.eq(p, p2) for p2, _ in writes[k + 1:]):
            continue
        ctx.assume(z3.Select(new, p) == t)
    return new


def concat(ctx, a, b):
    c = ctx.const('%s+%s' % (a.name[:12], b.name[:12]), ARR, report=False)
    n = z3.simplify(a.n + b.n)
    ctx.assume(forall(1, lambda k: z3.Implies(z3.And(0 <= k, k < a.n), z3.Select(c, k) == z3.Select(a.arr, a.off + k)), lambda k: [z3.Select(c, k)]))
    ctx.assume(forall(1, lambda k: z3.Implies(z3.And(a.n <= k, k < n), z3.Select(c, k) == z3.Select(b.arr, b.off + k - a.n)), lambda k: [z3.Select(c, k)]))
    ctx.assume(split(c, z3.IntVal(0), a.n, n), axiom=AX_FOLD)
    ctx.assume(frame(c, z3.IntVal(0), a.arr, a.off, a.n))
    ctx.assume(frame(c, a.n, b.arr, b.off, b.n))
    return type(a)(c, z3.IntVal(0), n, 'concat')


class Enum(Sym):
    def __init__(self, seq, start=0):
        self.seq, self.start = seq, start

    def seq_len(self, ctx):
        return self.seq.n

    def seq_at(self, ctx, i):
        return (SInt(i + self.start), TItem(self.seq.at(i)))

    def iterate(self, ctx):
        return [(k + self.start, x) for k, x in enumerate(self.seq.iterate(ctx))]


def g_tuple(ctx, x=()):
    if isinstance(x, ItemSeq):
        return ItemTuple(x.arr, x.off, x.n, x.name)
    return ops.py_tuple(ctx, x)


def g_list(ctx, x=()):
    if isinstance(x, ItemSeq):
        return ItemList(x.arr, x.off, x.n, x.name)
    return ops.py_list(ctx, x)


def g_enumerate(ctx, x, start=0):
    if isinstance(x, ItemSeq):
        return Enum(x, start)
    return ops.py_enumerate(ctx, x, start)


GLOBALS = {'tuple': g_tuple, 'list': g_list, 'enumerate': g_enumerate}


# ---- predicates on chains

def _pairs(s, body, lo=None, hi=None):
    """forall adjacent positions (p, q = p+1) of s inside [lo, hi) (relative): body(s[p], s[q]).  Two bound variables and the
    multi-pattern {arr[p], arr[q]}: instantiation creates no new array reads (no matching loop, no arithmetic in patterns)."""
    lo = s.off if lo is None else z3.simplify(s.off + lo)
    hi = z3.simplify(s.off + (s.n if hi is None else hi))
    if _bound() is not None:
        return z3.And(*[z3.Implies(z3.And(lo <= p, p + 1 < hi), body(z3.Select(s.arr, z3.IntVal(p)), z3.Select(s.arr, z3.IntVal(p + 1)))) for p in range(0, 2 * _bound() + 2)])
    _qn[0] += 1
    p, q = z3.Int('p!%d' % _qn[0]), z3.Int('q!%d' % _qn[0])
    return z3.ForAll([p, q], z3.Implies(z3.And(lo <= p, q == p + 1, q < hi), body(z3.Select(s.arr, p), z3.Select(s.arr, q))),
                     patterns=[z3.MultiPattern(z3.Select(s.arr, p), z3.Select(s.arr, q))])


def wf(s):
    """adjacent items are dimension-compatible"""
    return _pairs(s, lambda a, b: fd(a) == td(b))


def mono_lemma(s):
    """L-MONO instance: in a well-formed chain (A-DIM) fromdims and todims are non-increasing along the chain"""
    if _bound() is not None:
        R = range(0, 2 * _bound() + 2)
        return z3.Implies(wf(s), z3.And(*[z3.Implies(z3.And(s.off <= p, q < s.off + s.n), z3.And(fd(z3.Select(s.arr, z3.IntVal(p))) >= fd(z3.Select(s.arr, z3.IntVal(q))), td(z3.Select(s.arr, z3.IntVal(p))) >= td(z3.Select(s.arr, z3.IntVal(q)))))
                                          for p in R for q in R if p <= q]))
    _qn[0] += 1
    p, q = z3.Int('p!%d' % _qn[0]), z3.Int('q!%d' % _qn[0])
    x, y = z3.Select(s.arr, p), z3.Select(s.arr, q)
    return z3.Implies(wf(s), z3.ForAll([p, q], z3.Implies(z3.And(s.off <= p, p <= q, q < s.off + s.n), z3.And(fd(x) >= fd(y), td(x) >= td(y))),
                                       patterns=[z3.MultiPattern(x, y)]))


def is_canonical(s, lo=None, hi=None):
    """transform.iscanonical: no adjacent pair (a, b) with b.swapdown(a) != None, for pairs inside [lo, hi)"""
    return _pairs(s, lambda a, b: z3.Not(swd_ok(b, a)), lo, hi)


def is_uppermost(s, lo=None, hi=None):
    """the mirror image: no adjacent pair (a, b) with a.swapup(b) != None, for pairs inside [lo, hi)"""
    return _pairs(s, lambda a, b: z3.Not(swu_ok(a, b)), lo, hi)


def same_outer(r, s):
    return z3.Implies(s.n > 0, z3.And(td(r.at(0)) == td(s.at(0)), fd(r.at(r.n - 1)) == fd(s.at(s.n - 1))))


def rewrite_post(which, s, r):
    """The contract of canonical / uppermost: result r for input chain s (well-formed)."""
    return [('length-unchanged', r.n == s.n),
            ('same-composed-map', r.comp() == s.comp()),
            ('same-outer-dimensions', same_outer(r, s)),
            ('well-formed', wf(r)),
            ('is-canonical' if which == 'canonical' else 'is-uppermost', is_canonical(r) if which == 'canonical' else is_uppermost(r))]


class Rewrite(Contract):
    """canonical / uppermost: for every well-formed chain (any length) the result has the same length, the same composed
    affine map, the same outer dimensions, is well-formed and is in normal form (iscanonical's predicate, resp. its mirror
    image); no IndexError."""
    prop = PROP
    split_conjunctions = True
    ematching_first = True  # every quantified hypothesis is used through explicit instances / patterns; MBQI only wanders

    def __init__(self, which):
        self.which = which
        self.fn = 'transform:' + which

        def inv(cx, env):
            S = self.S
            items, i, n = env.lookup('items'), zint(env.lookup('i')), zint(env.lookup('n'))
            if not isinstance(items, ItemList):
                raise Unsupported('items is %r' % (items,))
            parts = [items.n == S.chain.n, n == S.chain.n,
                     z3.And(0 <= i, i <= n - 1) if which == 'canonical' else z3.And(1 <= i, i <= n),
                     wf(items), same_outer(items, S.chain), items.comp() == S.chain.comp(),
                     is_canonical(items, 0, i + 1) if which == 'canonical' else is_uppermost(items, i - 1, n)]
            if cx.inv_mode == 'assume':
                cx.used_axioms.add(AX_MONO)
                parts.append(mono_lemma(items))
            return z3.And(*parts)
        self.loops = {0: Loop(inv, label='swaps', match='while ')}

    def setup(self, cx):
        base_axioms(cx)
        chain = ItemTuple.fresh(cx, 'chain')
        cx.assume(wf(chain))
        S = State(chain=chain, args=(chain,))
        S.globals = dict(GLOBALS)
        self.S = S
        return S

    def ensures(self, cx, S, result):
        if not isinstance(result, ItemSeq) or result.mutable:
            raise Unsupported('%s returned %r' % (self.which, result))
        return rewrite_post(self.which, S.chain, result)

    def replay(self, ob):
        return replay_script(self.which, ob.clause)


def replay_script(which, clause):
    import os
    here = os.path.dirname(os.path.dirname(os.path.abspath(__file__)))
    return "import sys; sys.path.insert(0, %r)\nfrom native import c11\nc11.run_rewrite(%r, %r)\n" % (here, which, clause)


class Promote(Contract):
    """promote(chain, ndims): with j the first position whose item has fromdims == ndims: same length, same composed map,
    well-formed, result[:j+1] is canonical and still ends in dimension ndims, result[j+1:] is uppermost; when no item has
    fromdims == ndims the chain is returned as it is.  canonical/uppermost are used through their contracts (proved above)."""
    prop = PROP
    fn = 'transform:promote'
    split_conjunctions = True
    ematching_first = True

    def __init__(self):
        def inv(cx, env, i):
            S = self.S
            return forall(1, lambda k: z3.Implies(z3.And(0 <= k, k < i), fd(S.chain.at(k)) != S.ndims))
        self.loops = {0: Loop(inv, label='scan', match='in enumerate(chain)')}

    def setup(self, cx):
        base_axioms(cx)
        chain = ItemTuple.fresh(cx, 'chain')
        cx.assume(wf(chain))
        ndims = cx.int('ndims')
        j = cx.int('j')
        # ghost: j is the first position with fromdims == ndims, or len(chain) if there is none (least-element principle)
        cx.assume(z3.And(0 <= j, j <= chain.n, z3.Implies(j < chain.n, fd(chain.at(j)) == ndims),
                         forall(1, lambda k: z3.Implies(z3.And(0 <= k, k < j), fd(chain.at(k)) != ndims))))
        S = State(chain=chain, ndims=ndims, j=j, args=(chain, SInt(ndims)), calls=[])

        def callee(which):
            def f(ctx, x):
                if not isinstance(x, ItemSeq):
                    raise Unsupported('%s(%r)' % (which, x))
                ctx.lemma('%s-precondition:well-formed-chain' % which, wf(x))
                r = ItemTuple.fresh(ctx, '%s(%s)' % (which, x.name[:16]), n=ctx.int('len(%s-result)' % which, report=False))
                ctx.used_axioms.add('contract of transform.%s (proved in this property)' % which)
                for nm, c in rewrite_post(which, x, r):
                    ctx.assume(c)
                S.calls.append(which)
                return r
            return f
        S.globals = dict(GLOBALS, canonical=callee('canonical'), uppermost=callee('uppermost'))
        self.S = S
        return S

    def ensures(self, cx, S, result):
        if not isinstance(result, ItemSeq) or result.mutable:
            raise Unsupported('promote returned %r' % (result,))
        r, s, j = result, S.chain, S.j
        return [('length-unchanged', r.n == s.n),
                ('same-composed-map', r.comp() == s.comp()),
                ('well-formed', wf(r)),
                ('head-is-canonical', z3.Implies(j < s.n, is_canonical(r, 0, j + 1))),
                ('head-ends-in-ndims', z3.Implies(j < s.n, fd(r.at(j)) == S.ndims)),
                ('tail-is-uppermost', z3.Implies(j < s.n, is_uppermost(r, j + 1, s.n))),
                ('unchanged-when-ndims-is-absent', z3.Implies(j == s.n, forall(1, lambda k: z3.Implies(z3.And(0 <= k, k < s.n), r.at(k) == s.at(k)))))]

    def replay(self, ob):
        return replay_script('promote', ob.clause)


def contracts():
    return [Rewrite('canonical'), Rewrite('uppermost'), Promote()]


TRUSTED = [AX_MONOID, AX_FOLD, AX_MONO]
ASSUMPTIONS = [AX_SWAP, AX_DIM, 'input chains are well-formed (fromdims of an item equals todims of the next): all chains nutils builds are',
               'transform items are interned, swapup/swapdown are pure functions of (receiver, argument) (C17)']
NOT_COVERED = ['termination of canonical/uppermost']
