"""C11 (kernel) -- element lookup is the inverse of element access.

LOOKUP(T):  for 0 <= i < len(T) and any tail:   T.index_with_tail(T[i] + tail) == (i, tail)
            and index_with_tail raises ValueError for a chain none of whose heads is an element of T.

Each sequence class is verified against the real bodies of BOTH its __getitem__ and its index_with_tail (a harness
composes the two calls), assuming LOOKUP of its parent (modular).  Chains are tuples of items; a parent element is an
opaque head item parent[k]; the user tail is an arbitrary tuple.

  IndexTransforms           arithmetic on offset/length (incl. negative i)
  Axis.map / Axis.unmap     mutual inverses incl. periodic (mod) axes
  MaskedTransforms          strictly increasing indices, numpy.searchsorted axiom, L-MONO
  ReorderedTransforms       indices a permutation, argsort axiom (L-PERM)
  UniformDerivedTransforms  divmod decoding; derived items distinct
  DerivedTransforms         offsets = cumsum(counts) (monotone, L-MONO), searchsorted(side='right') - 1
  ChainedTransforms         (bounded: 3 items) offsets; no element of one item is a head of an element of another

Assumed item-level contract A-NF: transform.uppermost / transform.canonical leave a derived (child/edge) transform of
the parent's reference at position 0 of the tail and return an equivalent remainder.

Chain rewriting (contracts/c11_chain.py): transform.canonical / uppermost (loop invariants, any chain length) and promote keep
the length, the composed affine map (fold in an abstract monoid), well-formedness and the outer dimensions, and deliver
the normal form (iscanonical's predicate / its mirror image), given the item-level contract A-SWAP.
Item level (contracts/c11_swap.py, BOUNDED native enumeration): the real swapup/swapdown of SimplexEdge (whole `swap` table,
ndims 1..3), TensorEdge1/2, ScaledUpdim, Updim satisfy A-SWAP in exact rational arithmetic.

Second round (notes/C11-c11b.md):
  contracts/c11_struct.py   StructuredTransforms LOOKUP harness (bounded: <= 3 axes, <= 2 refinements; all axis values symbolic incl. periodic)
  contracts/c11_plain.py    PlainTransforms LOOKUP harness (bounded: 3 elements with heads of different lengths, symbolic ids), EmptyTransforms,
                            Transforms.index / contains / contains_with_tail
  contracts/c11_basearr.py  integer-array branch of the base class Transforms.__getitem__ (unbounded)
  contracts/c11_seq.py      bounded native enumerations: array / slice / mask forms of __getitem__, transformseq.chain, elementseq / pointsseq containers
  contracts/c11_get.py      _Uniform/_Take/_Repeat/_Product.get of elementseq and pointsseq (unbounded)
"""
import z3
from pyvc.contract import Contract, State
from pyvc.values import SInt, SBool, SObj, SOpaque, STerm, Sym, Unsupported, PyRaise, zint, zbool
from pyvc.nparr import Vec, Numpy, qforall, I
from pyvc.ops import ClassRef
from pyvc import ops, lemmas
from pyvc.native import NativeBounded
from contracts.C13 import InlineFn

PROP = 'C11'
LEVEL = 'proof'
ITEM = z3.DeclareSort('TransformItem')


def titem(cx, nm):
    return STerm(cx.const(nm, ITEM), (), nm)


class PHead(Sym):
    """parent[k]: the (whole) chain of the k-th parent element, as one opaque head item."""

    def __init__(self, parent, k):
        self.parent, self.k = parent, k

    def compare(self, ctx, op, other, reflected):
        if op in ('==', '!='):
            if isinstance(other, PHead) and other.parent is self.parent:
                e = self.k == other.k
                return SBool(e if op == '==' else z3.Not(e))
            return op == '!='
        return NotImplemented

    def truth(self, ctx):
        return True

    def getattr(self, ctx, name):
        raise Unsupported('attribute %s of an abstract parent element' % name)


class Parent(SObj):
    """An abstract Transforms object satisfying LOOKUP (the induction hypothesis)."""

    def __init__(self, cx, name='parent'):
        self.n = cx.int('len(%s)' % name)
        cx.assume(self.n >= 0)
        self.pname = name
        super().__init__('Transforms', attrs=dict(todims=SInt(cx.int(name + '.todims')), fromdims=SInt(cx.int(name + '.fromdims')),
                                                  _linear_is_constant=SBool(cx.bool(name + '.lin'))), classes=('Transforms',))

    def length(self, ctx):
        return SInt(self.n)

    def getitem(self, ctx, idx):
        k = zint(idx)
        if not ctx.branch(z3.And(k >= -self.n, k < self.n)):
            raise PyRaise('IndexError')
        return (PHead(self, z3.If(k < 0, k + self.n, k)),)

    def getattr(self, ctx, name):
        if name == 'index_with_tail':
            def iwt(ctx, trans):
                if not isinstance(trans, tuple):
                    raise Unsupported('index_with_tail of %r' % (trans,))
                if trans and isinstance(trans[0], PHead) and trans[0].parent is self:
                    return SInt(trans[0].k), trans[1:]
                raise PyRaise('ValueError', note='not an element of ' + self.pname)
            return iwt
        return super().getattr(ctx, name)


class NumericStub:
    def sym_getattr(self, ctx, name):
        if name == 'isint':
            return lambda ctx, x: isinstance(x, (int, SInt)) and not isinstance(x, bool)
        if name == 'normdim':
            return InlineFn('numeric:normdim', {'isint': lambda ctx, x: isinstance(x, (int, SInt)) and not isinstance(x, bool)})
        if name in ('isintarray', 'isboolarray'):
            return lambda ctx, x: False
        raise Unsupported('numeric.' + name)


def same_tuple(ctx, a, b):
    r = ops.compare(ctx, '==', a, b)
    return zbool(r) if not isinstance(r, bool) else z3.BoolVal(r)


class Lookup(Contract):
    """Harness: x = self[i];  (j, t) = self.index_with_tail(x + tail);  ensures j == i and t == tail."""
    prop = PROP
    cls = None
    tails = None

    def __init__(self, taillen):
        self.taillen = taillen
        self.fn = 'transformseq:%s.index_with_tail' % self.cls
        self.label = 'roundtrip,tail=%d' % taillen

    def make(self, cx):
        raise NotImplementedError

    def setup(self, cx):
        S = State()
        S.self_, S.n = self.make(cx, S)
        i = cx.int('i')
        cx.assume(z3.And(0 <= i, i < S.n))
        S.i = i
        S.tail = tuple(titem(cx, 'tail%d' % k) for k in range(self.taillen))
        S.globals = dict(self.globals(cx, S))
        return S

    def globals(self, cx, S):
        return {'numeric': NumericStub(), 'numpy': Numpy()}

    def body(self, cx, S, call):
        x = call('transformseq:%s.__getitem__' % self.cls, S.self_, SInt(S.i))
        S.elem = x
        return call('transformseq:%s.index_with_tail' % self.cls, S.self_, x + S.tail)

    def expected_tail(self, cx, S):
        return S.tail

    def ensures(self, cx, S, result):
        j, t = result
        return [('index-recovered', zint(j) == S.i), ('tail-recovered', same_tuple(cx, t, self.expected_tail(cx, S)))]


class IndexLookup(Lookup):
    cls = 'IndexTransforms'

    def make(self, cx, S):
        n, off, nd = cx.int('length'), cx.int('offset'), cx.int('ndims')
        cx.assume(n >= 0)
        o = SObj('IndexTransforms', attrs=dict(_length=SInt(n), _offset=SInt(off), fromdims=SInt(nd), todims=SInt(nd)))
        return o, n

    def globals(self, cx, S):
        g = super().globals(cx, S)

        class T:
            def sym_getattr(self, ctx, name):
                if name == 'Index':
                    return ClassRef('Index', construct=lambda ctx, fromdims, index: SObj('Index', attrs=dict(fromdims=fromdims, index=index), classes=('Index', 'TransformItem')))
                raise Unsupported('transform.' + name)
        g['transform'] = T()
        return g


class IndexLookupNegative(IndexLookup):
    """self[i - len] is the same element as self[i]."""

    def __init__(self):
        super().__init__(0)
        self.label = 'negative-index'

    def body(self, cx, S, call):
        a = call('transformseq:IndexTransforms.__getitem__', S.self_, SInt(S.i))
        b = call('transformseq:IndexTransforms.__getitem__', S.self_, SInt(S.i - S.n))
        return a, b

    def ensures(self, cx, S, result):
        a, b = result
        return [('same-element', z3.And(zint(a[0].attrs['index']) == zint(b[0].attrs['index']), zint(a[0].attrs['fromdims']) == zint(b[0].attrs['fromdims'])))]


class IndexLookupForeign(Contract):
    """index_with_tail raises ValueError unless the root is an Index of this sequence."""
    prop = PROP
    fn = 'transformseq:IndexTransforms.index_with_tail'
    label = 'foreign-root'
    expect_return = True

    def setup(self, cx):
        n, off, nd = cx.int('length'), cx.int('offset'), cx.int('ndims')
        cx.assume(n >= 0)
        o = SObj('IndexTransforms', attrs=dict(_length=SInt(n), _offset=SInt(off), fromdims=SInt(nd), todims=SInt(nd)))
        isidx = cx.bool('root.isIndex')
        ri, rd = cx.int('root.index'), cx.int('root.fromdims')
        root = RootItem(isidx, ri, rd)
        S = State(args=(o, (root,)), n=n, off=off, nd=nd, isidx=isidx, ri=ri, rd=rd)

        class T:
            def sym_getattr(self, ctx, name):
                if name == 'Index':
                    return ClassRef('Index')
                raise Unsupported('transform.' + name)
        S.globals = {'transform': T(), 'numeric': NumericStub()}
        return S

    def member(self, S):
        return z3.And(S.isidx, S.rd == S.nd, 0 <= S.ri - S.off, S.ri - S.off < S.n)

    def raises(self, cx, S, e):
        return z3.Not(self.member(S)) if e.exc == 'ValueError' else False

    def ensures(self, cx, S, result):
        j, t = result
        return [('found-only-members', self.member(S)), ('index', zint(j) == S.ri - S.off)]


class RootItem(SObj):
    def __init__(self, isidx, ri, rd):
        super().__init__('TransformItem', attrs=dict(index=SInt(ri), fromdims=SInt(rd)))
        self.isidx = isidx

    def isinstance_(self, ctx, types):
        if any(getattr(t, '__name__', None) == 'Index' for t in types):
            return self.isidx
        return False

    def getattr(self, ctx, name):
        if name == 'index' and not ctx.branch(self.isidx):
            raise PyRaise('AttributeError', note='index')
        return super().getattr(ctx, name)


class MaskedLookup(Lookup):
    cls = 'MaskedTransforms'

    def make(self, cx, S):
        p = Parent(cx)
        idx = Vec.fresh(cx, 'indices', 'int')
        # class invariant (documented): strictly increasing indices into the parent
        cx.assume(qforall(1, lambda j: z3.Implies(z3.And(0 <= j, j < idx.n), z3.And(0 <= idx.sel(j), idx.sel(j) < p.n))))
        cx.assume(qforall(2, lambda a, b: z3.Implies(z3.And(0 <= a, a < b, b < idx.n), idx.sel(a) < idx.sel(b))),
                  axiom='L-MONO (strict): adjacent strictly increasing => strictly increasing (lemmas/LMono.lean)')
        S.parent, S.idx = p, idx
        o = SObj('MaskedTransforms', attrs=dict(_parent=p, _indices=idx, todims=p.attrs['todims'], fromdims=p.attrs['fromdims']))
        return o, idx.n


class MaskedForeign(Contract):
    """a parent element that is not selected by the mask is not found"""
    prop = PROP
    fn = 'transformseq:MaskedTransforms.index_with_tail'
    label = 'unselected-parent-element'

    def setup(self, cx):
        S = State()
        m = MaskedLookup(0)
        o, n = m.make(cx, S)
        k = cx.int('k')
        cx.assume(z3.And(0 <= k, k < S.parent.n))
        S.k = k
        S.args = (o, (PHead(S.parent, k),))
        S.globals = {'numeric': NumericStub(), 'numpy': Numpy()}
        return S

    def selected(self, S):
        from pyvc.nparr import qexists
        return qexists(1, lambda j: z3.And(0 <= j, j < S.idx.n, S.idx.sel(j) == S.k))

    def raises(self, cx, S, e):
        return z3.Not(self.selected(S)) if e.exc == 'ValueError' else False

    def ensures(self, cx, S, result):
        j, t = result
        return [('found-position-holds-the-parent-index', z3.And(0 <= zint(j), zint(j) < S.idx.n, S.idx.sel(zint(j)) == S.k))]


class ReorderedLookup(Lookup):
    cls = 'ReorderedTransforms'

    def make(self, cx, S):
        p = Parent(cx)
        idx = Vec.fresh(cx, 'indices', 'int', n=p.n)
        rid = Vec.fresh(cx, 'rindices', 'int', n=p.n)
        # indices is a permutation of range(len(parent)); _rindices = argsort(indices) is its inverse (L-PERM)
        cx.assume(qforall(1, lambda j: z3.Implies(z3.And(0 <= j, j < p.n), z3.And(0 <= idx.sel(j), idx.sel(j) < p.n))))
        cx.assume(qforall(1, lambda j: z3.Implies(z3.And(0 <= j, j < p.n), rid.sel(idx.sel(j)) == j)),
                  axiom='L-PERM: numpy.argsort of a permutation is its inverse (lemmas/LPerm.lean)')
        S.parent = p
        o = SObj('ReorderedTransforms', attrs=dict(_parent=p, _indices=idx, _rindices=rid, todims=p.attrs['todims'], fromdims=p.attrs['fromdims']))
        return o, p.n


class Derived(Sym):
    """The tuple of derived (child / edge) transforms of one reference: n distinct items D(ref, j)."""

    def __init__(self, cx, tag, n=None, ref=None):
        self.n = n if n is not None else cx.int('len(derived%s)' % tag)
        cx.assume(self.n >= 0)
        self.tag, self.ref = tag, ref

    def length(self, ctx):
        return SInt(self.n)

    def getitem(self, ctx, idx):
        j = zint(idx)
        if not ctx.branch(z3.And(j >= -self.n, j < self.n)):
            raise PyRaise('IndexError')
        return DItem(self, z3.If(j < 0, j + self.n, j))

    def getattr(self, ctx, name):
        if name == 'index':
            def index(ctx, x):
                if isinstance(x, DItem) and x.d.tag == self.tag and (self.ref is None or z3.eq(z3.simplify(self.ref), z3.simplify(x.d.ref)) or ctx.entails(self.ref == x.d.ref)):
                    return SInt(x.j)
                raise PyRaise('ValueError', note='not a derived transform of this reference')
            return index
        raise Unsupported('tuple.' + name)

    def truth(self, ctx):
        return self.n > 0


class DItem(Sym):
    def __init__(self, d, j):
        self.d, self.j = d, j

    def compare(self, ctx, op, other, reflected):
        if op in ('==', '!='):
            if isinstance(other, DItem) and other.d.tag == self.d.tag:
                e = self.j == other.j
                if self.d.ref is not None and other.d.ref is not None:
                    e = z3.And(e, self.d.ref == other.d.ref)
                return SBool(e if op == '==' else z3.Not(e))
            return op == '!='
        return NotImplemented

    def truth(self, ctx):
        return True


class TransformNF:
    """transform.uppermost / canonical under A-NF: position 0 keeps the derived transform; the remainder is an
    equivalent chain NF(rest) (uninterpreted)."""

    def sym_getattr(self, ctx, name):
        if name in ('uppermost', 'canonical'):
            def nf(ctx, tail):
                ctx.used_axioms.add('A-NF: transform.uppermost/canonical keep a derived transform of the reference at position 0 (item-level swap contracts, assumed)')
                if not tail:
                    return tail
                return (tail[0],) + tuple(NFItem(x, name) for x in tail[1:])
            return nf
        raise Unsupported('transform.' + name)


class NFItem(Sym):
    """an item of the normalised remainder (equivalent to the original remainder)"""

    def __init__(self, x, how):
        self.x, self.how = x, how

    def compare(self, ctx, op, other, reflected):
        if op in ('==', '!=') and isinstance(other, NFItem):
            r = ops.compare(ctx, '==', self.x, other.x)
            return r if op == '==' else ops.unop(ctx, 'not', r)
        return NotImplemented


class UniformDerivedLookup(Lookup):
    cls = 'UniformDerivedTransforms'

    def make(self, cx, S):
        p = Parent(cx)
        d = Derived(cx, '')
        cx.assume(d.n >= 1)
        S.parent, S.d = p, d
        o = SObj('UniformDerivedTransforms', attrs=dict(_parent=p, _derived_transforms=d, todims=p.attrs['todims'], fromdims=SInt(cx.int('fromdims'))))
        o.length = lambda ctx: SInt(p.n * d.n)
        return o, p.n * d.n

    def globals(self, cx, S):
        g = super().globals(cx, S)
        g['transform'] = TransformNF()
        return g

    def expected_tail(self, cx, S):
        return tuple(NFItem(x, 'nf') for x in S.tail)


class DerivedLookup(Lookup):
    cls = 'DerivedTransforms'

    def make(self, cx, S):
        p = Parent(cx)
        off = Vec.fresh(cx, 'offsets', 'int', n=p.n + 1)
        count = z3.Function('nderived', I, I)
        # _offsets = cumsum([0, *counts]) with counts >= 0  (L-CUMSUM): offsets[0] = 0, offsets[k+1] = offsets[k] + count(k)
        cx.assume(off.sel(z3.IntVal(0)) == 0)
        cx.assume(qforall(1, lambda k: z3.Implies(z3.And(0 <= k, k < p.n), z3.And(count(k) >= 0, off.sel(k + 1) == off.sel(k) + count(k)))),
                  axiom='L-CUMSUM: numpy.cumsum([0, *c])[k+1] = cumsum[k] + c[k]')
        lemmas.mono(cx, off)
        S.parent, S.off, S.count = p, off, count
        refs = SObj('References', attrs={})
        refs.getitem = lambda ctx, k: RefAt(zint(k))
        o = SObj('DerivedTransforms', attrs=dict(_parent=p, _parent_references=refs, _offsets=off, todims=p.attrs['todims'], fromdims=SInt(cx.int('fromdims'))))
        o.methods['_derived_transforms'] = lambda ctx, s, ref: Derived(ctx, 'R', n=count(ref.k), ref=ref.k)
        o.length = lambda ctx: SInt(off.sel(p.n))
        return o, off.sel(p.n)

    def globals(self, cx, S):
        g = super().globals(cx, S)
        g['transform'] = TransformNF()
        return g

    def expected_tail(self, cx, S):
        return tuple(NFItem(x, 'nf') for x in S.tail)


class RefAt(Sym):
    def __init__(self, k):
        self.k = k


class ChainedLookup(Lookup):
    """ChainedTransforms of three abstract sequences (class invariant: an element of one item is never a head of an
    element of another -- the abstract parents raise ValueError for foreign chains)."""
    cls = 'ChainedTransforms'
    bounded = 'three chained sequences (symbolic lengths)'

    def make(self, cx, S):
        ps = [Parent(cx, 'item%d' % k) for k in range(3)]
        n = ps[0].n + ps[1].n + ps[2].n
        offs = [z3.IntVal(0), ps[0].n, ps[0].n + ps[1].n, n]
        off = Vec('int', z3.IntVal(4), lambda i: z3.If(i == 0, offs[0], z3.If(i == 1, offs[1], z3.If(i == 2, offs[2], offs[3]))), 'offsets')
        S.parents = ps
        o = SObj('ChainedTransforms', attrs=dict(_items=tuple(ps), _offsets=off, todims=ps[0].attrs['todims'], fromdims=ps[0].attrs['fromdims']))
        o.length = lambda ctx: SInt(n)
        return o, n


class AxisInverse(Contract):
    """Axis.unmap(Axis.map(ielem)) == ielem  and  Axis.map(Axis.unmap(index)) == index (mod)."""
    prop = PROP
    fn = 'transformseq:Axis.unmap'

    def __init__(self, direction):
        self.direction = direction
        self.label = direction

    def setup(self, cx):
        i, j, mod = cx.int('i'), cx.int('j'), cx.int('mod')
        cx.assume(z3.And(i <= j, mod >= 0))
        # class invariant of periodic axes (DimAxis): the axis fits in one period
        cx.assume(z3.Implies(mod != 0, z3.And(j - i <= mod, i >= 0)))
        ax = SObj('Axis', attrs=dict(i=SInt(i), j=SInt(j), mod=SInt(mod)))
        ax.length = lambda ctx: SInt(j - i)
        x = cx.int('x')
        S = State(ax=ax, x=x, i=i, j=j, mod=mod)
        if self.direction == 'unmap-after-map':
            cx.assume(z3.And(0 <= x, x < j - i))
        S.globals = {}
        return S

    def body(self, cx, S, call):
        if self.direction == 'unmap-after-map':
            y = call('transformseq:Axis.map', S.ax, SInt(S.x))
            return call('transformseq:Axis.unmap', S.ax, y)
        y = call('transformseq:Axis.unmap', S.ax, SInt(S.x))
        S.y = y
        return call('transformseq:Axis.map', S.ax, y)

    allow_raises = {'ValueError': lambda cx, S, e: True}

    def raises(self, cx, S, e):
        return self.direction == 'map-after-unmap' and e.exc == 'ValueError'

    def ensures(self, cx, S, result):
        if self.direction == 'unmap-after-map':
            return [('inverse', zint(result) == S.x)]
        from pyvc.values import pymod
        return [('inverse-mod', z3.If(S.mod != 0, pymod(zint(result) - S.x, z3.If(S.mod == 0, 1, S.mod)) == 0, zint(result) == S.x)),
                ('ielem-in-range', z3.And(0 <= zint(S.y), zint(S.y) < S.j - S.i))]


class ChainTake(NativeBounded):
    """take() of a chained PointsSequence / References container (the compressed containers topologies and samples are built from):
    item k of the result is item indices[k] -- for every index array, sorted or not.  BOUNDED native enumeration (chains of <= 5
    distinct items, every index array of length <= 4).  On the pinned commit indices alternating between the two parts were silently
    reordered (repaired, known_findings.json)."""
    prop = PROP
    fn = 'pointsseq:_Chain.take'
    label = 'native-enumeration'
    bounded = 'exhaustive native enumeration: chains of <= 5 pairwise distinct items, every index array of length <= 4 (points) / <= 3 (references)'
    module = 'c11'
    call = 'chain_take()'
    clauses = ('points-take-keeps-the-order-of-the-indices', 'references-take-keeps-the-order-of-the-indices')


class LocateWithinTol(NativeBounded):
    """Topology.locate through StructuredTopology._locate / _asaffine (the affine fast path) and the generic Newton path: the returned
    sample maps, in input order, to within the tolerance of the targets, or LocateError is raised.  Floating point, outside the SMT
    model: a BOUNDED native stand-in over small structured topologies (also one element wide) and separable geometries that are affine
    or strictly monotone nonlinear in one direction."""
    prop = PROP
    fn = 'topology:StructuredTopology._asaffine'
    label = 'native-enumeration'
    bounded = ('native enumeration: mesh.rectilinear of shape (1) (2) (3) (1,1) (2,1) (1,2) (3,1) (1,3) (2,2) (1,2,1) (2,1,1); per direction one of '
               'x, 2x+1, x^2, x+x^3/8 with at most one nonlinear direction; two interior targets per element in reversed element order; tol=1e-10, '
               'images compared to 1e-8')
    module = 'c11'
    call = 'locate_within_tol()'
    clauses = ('located-points-map-to-the-targets-in-input-order',)


def contracts():
    cs = [ChainTake(), LocateWithinTol()]
    for t in (0, 2):
        cs += [IndexLookup(t), MaskedLookup(t), ReorderedLookup(t), UniformDerivedLookup(t), DerivedLookup(t)]
    cs += [ChainedLookup(0), ChainedLookup(2), IndexLookupNegative(), IndexLookupForeign(), MaskedForeign(), AxisInverse('unmap-after-map'), AxisInverse('map-after-unmap')]
    from contracts import c11_chain, c11_swap, c11_struct, c11_plain, c11_seq, c11_get, c11_basearr
    cs += c11_chain.contracts()
    cs += c11_swap.contracts()
    cs += c11_struct.contracts()
    cs += c11_plain.contracts()
    cs += c11_seq.contracts()
    cs += c11_get.contracts()
    cs += c11_basearr.contracts()
    return cs


TRUSTED = ['pyvc symbolic executor and its Python model; harness contracts compose two real method bodies',
           'numpy.searchsorted axiom (sorted input), argsort of a permutation (L-PERM), cumsum recurrence (L-CUMSUM), L-MONO',
           'A-NF (assumed item-level contract of uppermost/canonical, used by the lookup harnesses of the derived sequences)',
           'chain rewriting (contracts/c11_chain.py): affine maps under composition form a monoid (exact arithmetic); L-MONOID fold lemmas '
           '(split, singleton, empty, frame) used as explicit instances only, cross-checked on random integer matrices in native/axioms.py; '
           'L-MONO on the dimensions along a well-formed chain; model of tuple/list of items (index, slice, slice store, +) with CPython clamping',
           'item-level swaps (contracts/c11_swap.py): the native enumeration harness native/c11.py and exact Fraction arithmetic on the float matrix entries',
           'StructuredTransforms (contracts/c11_struct.py): local models IVec (numpy int vector of concrete length: asarray/array of a list, elementwise + - * // %, divmod by the literal shape), '
           'CTable/CIndices (the (2,)*n child-transform table and its inverse dict: entries equal iff their index tuples are equal), EItem (pairwise distinct structured edge transforms), '
           'util.product = left fold of *; L-RADIX (row-major digits <-> index is a bijection onto range(prod n_k)); L-DIVMOD as GROUND instances with checked premise; '
           'the callee contract of Axis.map/unmap (unmap(map(x)) == x for 0 <= x < len, proved here as AxisInverse) replaces their bodies in all but the one-axis unrefined configuration',
           'PlainTransforms (contracts/c11_plain.py): id() = one integer per object; Python tuple order on id tuples; numpy.searchsorted on a sorted object array of tuples = number of entries '
           '<= x (right) / < x (left); numpy.empty((), object) with a[()] = x',
           'container get (contracts/c11_get.py): abstract parent sequences (get(k) = uninterpreted item for 0 <= k < len, IndexError otherwise), item.product uninterpreted; L-RADIX, ground L-DIVMOD',
           'bounded native enumerations (contracts/c11_seq.py, native/c11b.py): the enumeration harness itself (reference semantics = Python lists of the elements obtained by integer access)',
           'base-class array indexing (contracts/c11_basearr.py): numpy any/all over comparison results (exists/forall), less/greater/greater_equal/equal with a scalar, diff, fancy indexing a[s], '
           'argsort(a) = a permutation of range(len(a)) with an inverse such that a[s] is non-decreasing, argsort of a permutation = its inverse (L-PERM); inductive lemmas L-MONO (strict), L-MONO-GAP, L-PROG '
           '(adjacent differences 1 => arithmetic progression) offered for the index array; types.arraydata is the identity on arrays; the meaning of the produced Masked/Reordered objects '
           '(item k = parent[indices[k]], len(Reordered) = len(parent)) is the one their integer __getitem__ is verified against in the LOOKUP harnesses',
           'all of the above cross-checked on random inputs in native/axioms_c11b.py (L-RADIX, ground L-DIVMOD, searchsorted on object arrays, Axis callee contract, A-NF-S / A-NF-P on real sequences)']
ASSUMPTIONS = ['parent satisfies LOOKUP (structural induction over the nesting of sequence classes: meta-argument)',
               'documented class preconditions: strictly increasing mask indices; permutation indices; derived transforms of a reference are pairwise distinct',
               'tails of length 0 and 2 are exercised; the bodies only slice the tail (parametric in its length)',
               'canonical/uppermost/promote: A-SWAP (swapup/swapdown of adjacent dimension-compatible items return None or a pair with the same composed map, '
               'the same outer and matching inner dimensions; only an updim receiver facing a square argument swaps) -- ASSUMED for all items in the unbounded '
               'proofs, CHECKED for the real classes only on the bounded family of contracts/c11_swap.py',
               'canonical/uppermost/promote: A-DIM (todims >= fromdims >= 0 for every item); input chains are well-formed (fromdims of an item equals todims of the next); '
               'swapup/swapdown are pure functions of (receiver, argument) on interned items (C17)',
               'promote: canonical and uppermost are replaced by their contracts (exactly the postconditions proved for them in this property)',
               'StructuredTransforms: class invariants of Axis (i <= j, mod >= 0; a periodic axis fits in one period: j - i <= mod); the child table holds pairwise distinct interned items; '
               'A-NF-S (ASSUMED, cross-checked natively): uppermost keeps the leading structured children, and promote(uppermost(edges + tail), fromdims) == edges + NF(tail); identity when there '
               'is no user tail (by A-SWAP: a square receiver never swaps, adjacent updims do not swap)',
               'PlainTransforms: class invariants established by the constructor (_sorted[s] is the id tuple of _transforms[_indices[s]], lexicographically increasing) and the documented '
               'precondition that no transform is a head of another; A-NF-P (ASSUMED, cross-checked natively): promote(element + tail, fromdims) == element + NF(tail) for the canonical elements; '
               'for a foreign chain promote is taken as the identity (any chain none of whose heads is an element)',
               'Transforms.index/contains/contains_with_tail: self.index_with_tail is abstract (returns (k, ()) / (k, (item,)) or raises ValueError)',
               'Transforms.__getitem__(int array): the recursive call self[index[s]] is replaced by the contract of the sorted case (`#int-array,sorted`, proved with the real body; its precondition '
               '"sorted and in range" is an obligation at the call); self is an abstract sequence (only len(self), todims, fromdims are read)',
               'container get: _Take indices lie within the parent (checked by the constructor), count >= 1, lengths >= 0; parents are only asked for normalised (non-negative) indices']
NOT_COVERED = ['Transforms.__getitem__: the slice and boolean-mask branches and the subclass overrides (Masked/Reordered/Chained) are covered by bounded native enumeration only; "rejected EXACTLY for" is proved as '
               '"accepted => in range and distinct" plus "IndexError/ValueError only for an out-of-range/repeated index" (together: exactly); index arrays of ndim != 1',
               'StructuredTransforms beyond 3 axes / 2 refinements / the exercised patterns of boundary axes; its constructor (_ctransforms, _cindices, _etransforms tables); lookup soundness '
               '("found only members") for periodic axes (unmap accepts any congruent index); PlainTransforms beyond three elements of 2, 1, 3 items and its constructor (argsort of the object array)',
               'array / slice / mask forms of __getitem__ and transformseq.chain: only BOUNDED native enumeration on small real sequences (no symbolic proof); negative slice steps (NotImplementedError by design); '
               'ChainedTransforms whose items are themselves chained (only producible by calling the constructor directly: chain() flattens one level)',
               'elementseq/pointsseq: take/compress/repeat/product/chain of the containers only by BOUNDED native enumeration (get is proved unbounded); _Derived, children/edges/getpoints, _balanced_chain/_merge_chain beyond the pool',
               'TransformIndex/TransformCoords evaluation, locate(), interface consistency',
               'termination of canonical/uppermost; that canonical/uppermost of a tail keep a derived transform at position 0 (A-NF) is still assumed, not derived from A-SWAP',
               'A-SWAP for item classes/dimensions outside the bounded family (simplex ndims > 3, deeper tensor nestings); "ndims is reached as soon as possible" in promote beyond head-canonical/tail-uppermost']
