"""C10 -- SubsetTopology.connectivity: renumbering through the kept elements (bounded: <= 4 base elements).

The REAL body of topology.SubsetTopology.connectivity (and of numeric.invmap, which it calls) is executed for a base
topology of N elements (N fixed per contract) whose connectivity table is SYMBOLIC (every entry an integer in [-1, N)),
with a symbolic choice of kept elements (refs[i] truthy or empty) and optionally extra (trimmed) edges on the kept ones.

rows         one row per kept element, in base order; row length = ref.nedges
renumbered   row(i)[e] = renum(c) if c = base[i][e] >= 0 and element c is kept, else -1, where renum(c) = number of
             kept elements before c -- an edge to a removed neighbour becomes boundary; extra (trimmed) edges are boundary
symmetric    ASSUMING the base table is symmetric (base[i][e] = j >= 0 => i occurs in base[j]): the result is symmetric
paired       ASSUMING faces are paired in the base (#{e: base[i][e] = j} = #{f: base[j][f] = i}): the same holds for the
             result -- every interior face is listed once from each of its two sides
"""
import z3
from pyvc.contract import Contract, State
from pyvc.values import SInt, SBool, SObj, Sym, Unsupported, PyRaise, zint, zbool
from pyvc import ops
from contracts.c10_real import RObj, Stub, run_real

PROP = 'C10'


class LArr(Sym):
    """1-d numpy integer array of concrete length; entries int | SInt"""

    def __init__(self, items, dtype='int'):
        self.items = list(items)
        self.dtype = dtype  # numpy.asarray([]) of an empty list is a FLOAT array

    def getattr(self, ctx, name):
        if name == 'take':
            return lambda ctx, idx: LArr([self._at(ctx, i) for i in ops.iterate(ctx, idx)])
        if name == 'shape':
            return (len(self.items),)
        if name == 'ndim':
            return 1
        raise Unsupported('ndarray.' + name)

    def _at(self, ctx, i):
        return ops.getitem(ctx, self.items, i)  # range check (IndexError), negative wrap, ite chain over the concrete positions

    def length(self, ctx):
        return len(self.items)

    def iterate(self, ctx):
        return list(self.items)

    def getitem(self, ctx, idx):
        if isinstance(idx, slice):
            return LArr(self.items[idx])
        return self._at(ctx, idx)

    def setitem(self, ctx, idx, value):
        if isinstance(idx, LArr):
            if idx.dtype != 'int':
                raise PyRaise('IndexError', note='arrays used as indices must be of integer (or boolean) type')
            pos = idx.items
            vals = ops.iterate(ctx, value)
            if any(not isinstance(p, int) for p in pos):
                raise Unsupported('store at symbolic positions')
            if len(vals) != len(pos):
                raise PyRaise('ValueError', note='shape mismatch')
            for p, v in zip(pos, vals):
                if not -len(self.items) <= p < len(self.items):
                    raise PyRaise('IndexError')
                self.items[p] = v
            return
        if isinstance(idx, int):
            self.items[idx] = value
            return
        raise Unsupported('store %r' % (idx,))

    def binop(self, ctx, op, other, reflected):
        if op == '+' and isinstance(other, (int, SInt)) and not isinstance(other, bool):
            return LArr([ops.binop(ctx, '+', x, other) for x in self.items])
        return NotImplemented


class NP1:
    def sym_getattr(self, ctx, name):
        if name == 'full':
            return lambda ctx, n, v: LArr([v] * int(n))
        if name == 'asarray':
            return lambda ctx, x, dtype=None: x if isinstance(x, LArr) else LArr(ops.iterate(ctx, x), dtype='int' if dtype is not None or len(ops.iterate(ctx, x)) else 'float')
        if name == 'arange':
            return lambda ctx, n: LArr(list(range(int(n))))
        if name == 'concatenate':
            return lambda ctx, parts: LArr([x for p in ops.iterate(ctx, parts) for x in ops.iterate(ctx, p)])
        if name == 'repeat':
            def repeat(ctx, v, k):
                if not isinstance(k, int):
                    raise Unsupported('repeat with a symbolic count')
                if k < 0:
                    raise PyRaise('ValueError', note='negative dimensions are not allowed')
                return LArr([v] * k)
            return repeat
        raise Unsupported('numpy.' + name)


class RefT(Sym):
    """element.Reference reduced to: empty or not (symbolic), number of edges"""

    def __init__(self, keep, nedges):
        self.keep, self.nedges = keep, nedges

    def truth(self, ctx):
        return self.keep

    def getattr(self, ctx, name):
        if name == 'nedges':
            return self.nedges
        raise Unsupported('Reference.' + name)


class SubsetConnectivity(Contract):
    prop = PROP
    fn = 'topology:SubsetTopology.connectivity'

    def __init__(self, N, E, extra, empty=False):
        self.N, self.E, self.extra, self.empty = N, E, extra, empty
        self.label = 'elements=%d,edges=%d,extra=%s' % (N, E, ''.join(str(x) for x in extra)) + (',nothing-kept' if empty else '')
        self.bounded = 'base topology of %d elements with %d edges each (table entries and the kept set symbolic); trimmed extra edges per element: %s' % (N, E, list(extra))

    def setup(self, cx):
        N, E = self.N, self.E
        c = [[cx.int('c_%d_%d' % (i, e)) for e in range(E)] for i in range(N)]
        keep = [cx.bool('keep%d' % i) for i in range(N)]
        for i in range(N):
            for e in range(E):
                cx.assume(z3.And(-1 <= c[i][e], c[i][e] < N))
        # the base table is symmetric and pairs faces (what C10 states of StructuredTopology.connectivity; modular)
        for i in range(N):
            for j in range(N):
                nij = sum([z3.If(c[i][e] == j, 1, 0) for e in range(E)])
                nji = sum([z3.If(c[j][f] == i, 1, 0) for f in range(E)])
                cx.assume(nij == nji)
        # the case "no element kept" is the separate contract SubsetConnectivity(.., empty=True) (PARKED: candidate defect)
        cx.assume(z3.Not(z3.Or(*keep)) if self.empty else z3.Or(*keep))
        refs = tuple(RefT(keep[i], E + self.extra[i]) for i in range(N))
        base = SObj('Topology', attrs=dict(connectivity=tuple(LArr([SInt(x) for x in row]) for row in c)))
        me = RObj('SubsetTopology', [('topology', 'SubsetTopology'), ('topology', 'TransformChainsTopology'), ('topology', 'Topology')], attrs=dict(refs=refs, basetopo=base))
        g = {'numpy': NP1(), 'types': Stub('types', frozenarray=lambda ctx, x, copy=True, dtype=None: x),
             'numeric': Stub('numeric', invmap=lambda ctx, *a, **k: run_real(ctx, 'numeric:invmap', a, k))}
        return State(args=(me,), c=c, keep=keep, globals=g)

    def ensures(self, cx, S, result):
        N, E = self.N, self.E
        K = []
        for i in range(N):
            if cx.entails(S.keep[i]):
                K.append(i)
            elif not cx.entails(z3.Not(S.keep[i])):
                raise Unsupported('kept set not decided on this path')
        rows = [ops.iterate(cx, r) for r in result]
        out = [('one-row-per-kept-element', z3.BoolVal(len(rows) == len(K) and all(len(rows[a]) == E + self.extra[i] for a, i in enumerate(K))))]
        if not out[0][1].eq(z3.BoolVal(True)):
            return out
        renum = {i: a for a, i in enumerate(K)}
        ren, extra = [], []
        for a, i in enumerate(K):
            for e in range(E):
                c = S.c[i][e]
                want = z3.IntVal(-1)
                for j in K:
                    want = z3.If(c == j, renum[j], want)
                ren.append(zint(rows[a][e]) == want)
            for e in range(E, len(rows[a])):
                extra.append(zint(rows[a][e]) == -1)
        R = [[zint(x) for x in row] for row in rows]
        sym, pair = [], []
        for a in range(len(K)):
            for e in range(E):
                sym.append(z3.Implies(R[a][e] >= 0, z3.Or(*[z3.And(R[a][e] == b, z3.Or(*[R[b][f] == a for f in range(len(R[b]))])) for b in range(len(K))])))
            for b in range(len(K)):
                pair.append(sum([z3.If(x == b, 1, 0) for x in R[a]]) == sum([z3.If(x == a, 1, 0) for x in R[b]]))
        return out + [('renumbered-or-boundary', z3.And(*ren)), ('extra-edges-are-boundary', z3.And(*extra)), ('symmetric', z3.And(*sym)), ('faces-paired', z3.And(*pair))]

    def replay(self, ob):
        import os
        here = os.path.dirname(os.path.dirname(os.path.abspath(__file__)))
        return "import sys; sys.path.insert(0, %r)\nfrom native import c10\nc10.subset_connectivity(%d, %d, %r, %r, %r)\n" % (here, self.N, self.E, tuple(self.extra), ob.model, self.empty)


def contracts():
    return [SubsetConnectivity(2, 2, (0, 0)), SubsetConnectivity(3, 2, (0, 1, 0)), SubsetConnectivity(3, 3, (0, 0, 0)), SubsetConnectivity(4, 2, (1, 0, 0, 1))]


def parked():
    """fails on the unchanged tree (genuine misbehaviour, see notes/C10-c10.md "candidate defects"): a subset that keeps NO element"""
    return [SubsetConnectivity(2, 2, (0, 0), empty=True)]
