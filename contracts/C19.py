"""C19 (kernel) -- expression strings: index bookkeeping and substring scanning of expression_v2.

_Parser._trace (BOUNDED: up to 4 indices, symbolic index characters and axis lengths).  On normal return:
    the remaining indices are pairwise distinct and are the input indices that occurred once, in order;
    every index that occurred twice was traced (paired axes) and has been added to the summed set;
    and ExpressionSyntaxError is raised exactly when an index occurs more than twice in the term (three times among the
    indices, or at all while already summed inside a sub-term) or two paired axes have different lengths.
_Parser._merge_summed_indices_same_term: disjoint union, ExpressionSyntaxError exactly on an overlap.
_Parser._verify_indices_summed: raises exactly when one of the indices is already summed.
_Substring.__getitem__ / trim_start / trim_end (any string, loop invariants): the invariant 0 <= start <= stop <= len(base)
    is preserved and the result is the maximal range without leading / trailing spaces.
"""
import itertools
import z3
from pyvc.contract import Contract, State
from pyvc.values import SInt, SBool, SObj, SOpaque, STerm, Sym, Unsupported, PyRaise, zint, zbool
from pyvc.small import SmallSet, IdxStr
from pyvc.nparr import Vec, qforall
from pyvc.interp import Loop
from pyvc.ops import ClassRef
from pyvc import ops
from contracts.C13 import InlineFn

PROP = 'C19'
LEVEL = 'proof'
CH = z3.DeclareSort('IndexChar')


class Trace(Contract):
    prop = PROP
    fn = 'expression_v2:_Parser._trace'
    allow_raises = {}

    def __init__(self, n, nsummed):
        self.n, self.nsummed = n, nsummed
        self.bounded = 'at most 4 indices per term and 2 incoming summed indices; index characters and axis lengths symbolic'
        self.label = 'nindices=%d,nsummed=%d' % (n, nsummed)

    def setup(self, cx):
        chars = [STerm(cx.const('idx%d' % k, CH), (str,), 'idx%d' % k) for k in range(self.n)]
        lens = [SInt(cx.int('len%d' % k)) for k in range(self.n)]
        summed = [STerm(cx.const('summed%d' % k, CH), (str,), 'summed%d' % k) for k in range(self.nsummed)]
        if self.nsummed == 2:
            cx.assume(summed[0].term != summed[1].term)
        S = State(chars=chars, lens=lens, summed=summed, traces=[])

        class ArrayOps(Sym):
            def getattr(s, ctx, name):
                if name == 'trace':
                    def trace(ctx, arr, i, j):
                        S.traces.append((i, j))
                        return SOpaque('traced')
                    return trace
                raise Unsupported('array.' + name)
        parser = SObj('_Parser', attrs=dict(array=ArrayOps()), methods={'_merge_summed_indices_same_term': lambda ctx, s, sub, *parts: InlineFn('expression_v2:_Parser._merge_summed_indices_same_term')(ctx, s, sub, *parts)})
        S.args = (parser, SOpaque('substring'), SOpaque('array'), tuple(lens), IdxStr(chars), SmallSet(summed, frozen=True))
        S.globals = {}
        return S

    def count(self, S, k):
        """number of occurrences of chars[k] among the indices (z3 Int)"""
        return sum([z3.If(S.chars[k].term == c.term, 1, 0) for c in S.chars])

    def in_summed(self, S, k):
        return z3.Or(*[S.chars[k].term == s.term for s in S.summed]) if S.summed else z3.BoolVal(False)

    def must_reject(self, S):
        conds = []
        for k in range(self.n):
            conds.append(self.count(S, k) >= 3)
            conds.append(self.in_summed(S, k))  # already summed inside a sub-term: this would be a third use
            for m in range(k + 1, self.n):
                conds.append(z3.And(S.chars[k].term == S.chars[m].term, zint(S.lens[k]) != zint(S.lens[m])))
        return z3.Or(*conds) if conds else z3.BoolVal(False)

    def raises(self, cx, S, e):
        if e.exc == 'ExpressionSyntaxError':
            return self.must_reject(S)
        return False

    def ensures(self, cx, S, result):
        arr, shape, indices, summed = result
        out_chars = list(indices.chars)
        out = [('accepted-only-valid', z3.Not(self.must_reject(S)))]
        # remaining indices: exactly the input indices occurring once, in order
        once = [self.count(S, k) == 1 for k in range(self.n)]
        # build expected sequence relationally: out_chars is the subsequence of chars at positions where `once`
        n_out = len(out_chars)
        goal = [sum([z3.If(o, 1, 0) for o in once]) == n_out if self.n else z3.BoolVal(n_out == 0)]
        # position p of the output corresponds to the (p+1)-th once-position
        for p in range(n_out):
            alts = []
            for k in range(self.n):
                before = sum([z3.If(once[m], 1, 0) for m in range(k)]) if k else z3.IntVal(0)
                alts.append(z3.And(once[k], before == p, out_chars[p].term == S.chars[k].term, zint(shape[p]) == zint(S.lens[k])))
            goal.append(z3.Or(*alts))
        out.append(('free-indices-kept-in-order', z3.And(*goal)))
        out.append(('shape-matches-indices', z3.BoolVal(len(shape) == n_out)))
        # summed set: incoming plus exactly the indices occurring twice
        sel = summed.elems if isinstance(summed, SmallSet) else list(summed)
        g2 = []
        for k in range(self.n):
            member = z3.Or(*[x.term == S.chars[k].term for x in sel]) if sel else z3.BoolVal(False)
            g2.append((self.count(S, k) == 2) == z3.And(member, z3.Not(self.in_summed(S, k))) if True else None)
        for s_ in S.summed:
            g2.append(z3.Or(*[x.term == s_.term for x in sel]) if sel else z3.BoolVal(False))
        for x in sel:
            g2.append(z3.Or(*([x.term == s_.term for s_ in S.summed] + [z3.And(x.term == S.chars[k].term, self.count(S, k) == 2) for k in range(self.n)])))
        out.append(('summed-gains-exactly-the-pairs', z3.And(*g2) if g2 else z3.BoolVal(True)))
        out.append(('one-trace-per-pair', sum([z3.If(self.count(S, k) == 2, 1, 0) for k in range(self.n)]) == 2 * len(S.traces) if self.n else z3.BoolVal(not S.traces)))
        return out

    def replay(self, ob):
        import os
        here = os.path.dirname(os.path.dirname(os.path.abspath(__file__)))
        return "import sys; sys.path.insert(0, %r)\nfrom native import c19\nc19.trace()\n" % here


class Merge(Contract):
    prop = PROP
    fn = 'expression_v2:_Parser._merge_summed_indices_same_term'
    bounded = 'two parts of at most 2 indices each'

    def __init__(self, na, nb):
        self.na, self.nb = na, nb
        self.label = 'parts=%d+%d' % (na, nb)

    def setup(self, cx):
        a = [STerm(cx.const('a%d' % k, CH), (str,)) for k in range(self.na)]
        b = [STerm(cx.const('b%d' % k, CH), (str,)) for k in range(self.nb)]
        for xs in (a, b):
            if len(xs) == 2:
                cx.assume(xs[0].term != xs[1].term)
        S = State(a=a, b=b)
        S.args = (SObj('_Parser'), SOpaque('substring'), SmallSet(a, True), SmallSet(b, True))
        return S

    def overlap(self, S):
        return z3.Or(*[x.term == y.term for x in S.a for y in S.b]) if S.a and S.b else z3.BoolVal(False)

    def raises(self, cx, S, e):
        return self.overlap(S) if e.exc == 'ExpressionSyntaxError' else False

    def ensures(self, cx, S, result):
        el = result.elems
        has = lambda x: z3.Or(*[e.term == x.term for e in el]) if el else z3.BoolVal(False)
        return [('disjoint', z3.Not(self.overlap(S))), ('union', z3.And(*[has(x) for x in S.a + S.b], z3.BoolVal(len(el) == len(S.a) + len(S.b))))]


class CharSeq(Vec):
    """a Python str as a sequence of character codes"""

    def getitem(self, ctx, idx):
        r = super().getitem(ctx, idx)
        if isinstance(r, SInt):
            return CharV(r.v)
        return r

    def isinstance_(self, ctx, types):
        return str in types


class CharV(SInt):
    def compare(self, ctx, op, other, reflected):
        if isinstance(other, str) and len(other) == 1 and op in ('==', '!='):
            e = self.v == ord(other)
            return SBool(e if op == '==' else z3.Not(e))
        return super().compare(ctx, op, other, reflected)


def substring(cx):
    base = CharSeq('int', cx.int('len(base)'), None, 'base')
    n = base.n
    cx.assume(n >= 0)
    a = z3.Array(cx.name('base'), z3.IntSort(), z3.IntSort())
    base._sel = lambda i: z3.Select(a, i)
    start, stop = cx.int('start'), cx.int('stop')
    cx.assume(z3.And(0 <= start, start <= stop, stop <= n))
    made = []

    def construct(ctx, b, s=None, e=None):
        o = SObj('_Substring', attrs=dict(base=b, start=s, stop=e), classes=('_Substring',))
        made.append(o)
        return o
    me = SObj('_Substring', attrs=dict(base=base, start=SInt(start), stop=SInt(stop)), classes=('_Substring',))
    me.length = lambda ctx: SInt(stop - start)
    return me, base, start, stop, construct


class Trim(Contract):
    prop = PROP

    def __init__(self, which):
        self.which = which
        self.fn = 'expression_v2:_Substring.trim_' + which

        def inv(cx, env):
            S = self.S
            if which == 'start':
                p = zint(env.lookup('start'))
                return z3.And(S.start <= p, p <= S.stop, qforall(1, lambda k: z3.Implies(z3.And(S.start <= k, k < p), S.base.sel(k) == 32)))
            p = zint(env.lookup('stop'))
            return z3.And(S.start <= p, p <= S.stop, qforall(1, lambda k: z3.Implies(z3.And(p <= k, k < S.stop), S.base.sel(k) == 32)))
        self.loops = {0: Loop(inv, label='scan', match='while ',
                              decreases=(lambda cx, env: self.S.stop - zint(env.lookup('start'))) if which == 'start' else (lambda cx, env: zint(env.lookup('stop')) - self.S.start))}

    def setup(self, cx):
        me, base, start, stop, construct = substring(cx)
        S = State(args=(me,), base=base, start=start, stop=stop, globals={'_Substring': ClassRef('_Substring', construct=construct)})
        self.S = S
        return S

    def ensures(self, cx, S, r):
        a, b = zint(r.attrs['start']), zint(r.attrs['stop'])
        out = [('range-invariant', z3.And(0 <= a, a <= b, b <= S.base.n, S.start <= a, b <= S.stop))]
        if self.which == 'start':
            out.append(('maximal-trim', z3.And(b == S.stop, qforall(1, lambda k: z3.Implies(z3.And(S.start <= k, k < a), S.base.sel(k) == 32)),
                                               z3.Implies(a < b, S.base.sel(a) != 32))))
        else:
            out.append(('maximal-trim', z3.And(a == S.start, qforall(1, lambda k: z3.Implies(z3.And(b <= k, k < S.stop), S.base.sel(k) == 32)),
                                               z3.Implies(a < b, S.base.sel(b - 1) != 32))))
        return out


class SubGetItem(Contract):
    prop = PROP
    fn = 'expression_v2:_Substring.__getitem__'

    def __init__(self, kind):
        self.kind = kind
        self.label = kind

    def setup(self, cx):
        me, base, start, stop, construct = substring(cx)
        S = State(base=base, start=start, stop=stop, globals={'_Substring': ClassRef('_Substring', construct=construct)})
        if self.kind == 'int':
            k = cx.int('item')
            S.item = k
            S.args = (me, SInt(k))
        else:
            a, b = cx.int('a'), cx.int('b')
            S.a, S.b = a, b
            # internal-use precondition ("we use asserts instead of proper exceptions"): callers pass non-crossing slices
            from contracts.C07 import py_slice_spec
            n = stop - start
            ca = z3.If(z3.If(a < 0, a + n, a) < 0, 0, z3.If(z3.If(a < 0, a + n, a) > n, n, z3.If(a < 0, a + n, a)))
            cb = z3.If(z3.If(b < 0, b + n, b) < 0, 0, z3.If(z3.If(b < 0, b + n, b) > n, n, z3.If(b < 0, b + n, b)))
            cx.assume(ca <= cb)
            S.args = (me, slice(SInt(a), SInt(b)))
        return S

    def raises(self, cx, S, e):
        if e.exc == 'AssertionError' and self.kind == 'int':
            return z3.Not(z3.And(0 <= S.item, S.item < S.stop - S.start))
        return False

    def ensures(self, cx, S, r):
        a, b = zint(r.attrs['start']), zint(r.attrs['stop'])
        out = [('range-invariant', z3.And(0 <= a, a <= b, b <= S.base.n, S.start <= a, b <= S.stop))]
        if self.kind == 'int':
            out.append(('single-character', z3.And(a == S.start + S.item, b == a + 1)))
        else:
            from contracts.C07 import py_slice_spec
            es, el = py_slice_spec(S.a, S.b, S.stop - S.start)
            out.append(('python-slice', z3.And(b - a == el, z3.Implies(el > 0, a == S.start + es))))
        return out


class Align(Contract):
    """_FunctionArrayOps.align(array, in_indices, out_indices): the transposition makes axis k of the result the axis that
    carried index out_indices[k] in the input, for every permutation of up to 4 distinct indices."""
    prop = PROP
    fn = 'expression_v2:_FunctionArrayOps.align'
    bounded = 'up to 4 indices, every permutation; index characters symbolic and pairwise distinct'

    def __init__(self, perm):
        self.perm = perm
        self.label = 'out=in[%s]' % ','.join(map(str, perm))

    def setup(self, cx):
        n = len(self.perm)
        chars = [STerm(cx.const('idx%d' % k, CH), (str,), 'idx%d' % k) for k in range(n)]
        if n > 1:
            cx.assume(z3.Distinct(*[c.term for c in chars]))
        S = State(chars=chars, axes=None)

        def transpose(ctx, s, arr, axes):
            S.axes = axes
            return SOpaque('transposed')
        me = SObj('_FunctionArrayOps', methods={'transpose': transpose})
        S.args = (me, SOpaque('array'), IdxStr(chars), IdxStr([chars[p] for p in self.perm]))
        return S

    def ensures(self, cx, S, result):
        axes = S.axes
        if not (isinstance(axes, tuple) and len(axes) == len(self.perm) and all(isinstance(a, int) for a in axes)):
            raise Unsupported('transpose called with %r' % (axes,))
        # numpy.transpose(a, axes): axis k of the result is axis axes[k] of the input; it must carry out_indices[k]
        return [('result-axis-k-carries-out_indices[k]', z3.BoolVal(all(0 <= a < len(axes) for a in axes) and all(axes[k] == self.perm[k] for k in range(len(axes)))))]

    def replay(self, ob):
        import os
        here = os.path.dirname(os.path.dirname(os.path.abspath(__file__)))
        return "import sys; sys.path.insert(0, %r)\nfrom native import c19\nc19.align()\n" % here


def contracts():
    cs = [Align(p) for n in range(0, 5) for p in itertools.permutations(range(n))]
    for n in range(0, 5):
        for ns in (0, 1, 2):
            if n == 4 and ns == 2:
                continue
            cs.append(Trace(n, ns))
    for na in range(0, 3):
        for nb in range(0, 3):
            cs.append(Merge(na, nb))
    cs += [Trim('start'), Trim('end'), SubGetItem('int'), SubGetItem('slice')]
    from contracts import c19_substring, c19_scope, c19_parser, c19_items, c19_power
    cs += c19_substring.contracts() + c19_scope.contracts() + c19_parser.contracts() + c19_items.contracts() + c19_power.contracts()
    return [c for c in cs if c.key() not in PARKED]


PARKED = []  # keys of contracts taken out of the check because they fail on the unchanged tree (candidate defects, see notes/)


TRUSTED = ['pyvc symbolic executor; small symbolic sets/strings (concrete size, symbolic items); array.trace is uninterpreted (only how often it is called is checked)',
           'characters as integer codes; slice.indices as in CPython']
ASSUMPTIONS = ['incoming summed sets contain pairwise distinct indices', 'BOUNDED: _trace with at most 4 indices (the loop is unrolled), _merge with at most 2+2 indices']
NOT_COVERED = ['that the produced array means the index-notation reading (the _FunctionArrayOps backend), operator precedence, function calls, gradients, jump/mean',
               'the whole of expression_v1']

from contracts import c19_substring as _sub, c19_parser as _par, c19_items as _itm, c19_power as _pow, c19_scope as _sco  # noqa: E402
TRUSTED = TRUSTED + _sub.TRUSTED + _sco.TRUSTED + _par.TRUSTED + _itm.TRUSTED + _pow.TRUSTED
ASSUMPTIONS = ASSUMPTIONS + _sub.ASSUMPTIONS + _par.ASSUMPTIONS + _itm.ASSUMPTIONS + _pow.ASSUMPTIONS
NOT_COVERED = NOT_COVERED + _sub.NOT_COVERED + _par.NOT_COVERED + _itm.NOT_COVERED + [
    '_Parser.parse_signed_int/unsigned_int/unsigned_float; _Substring.__contains__, __iter__ (real bodies executed where used in part 1, facts in part 2)',
    '_FunctionArrayOps.multiply/append_axes/trace/get_element/add/jump/mean shape bookkeeping and Namespace.__setattr__ (need an n-dimensional numpy model)']
