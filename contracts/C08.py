"""C08 (kernel) -- the algebraic core of edge normals.

numeric.ext(A) for A in R^{n x (n-1)}, n = 1, 2, 3 (all cases the code implements), for all real entries:
    ext(A)^T A = 0                      (the exterior vector is orthogonal to every column: normal to the surface)
    ext(A).ext(A) = det(A^T A)          (its length is the surface measure)
    det([A | ext(A)]) = s_n ext(A).ext(A) with s = +1 (n=1,3), -1 (n=2): the orientation convention edge transforms rely on
transform.Updim.ext returns -ext(linear) exactly when isflipped.
Polynomial identities over the reals (z3 nonlinear arithmetic); floats treated as reals.
"""
import z3
from pyvc.contract import Contract, State
from pyvc.values import SReal, SBool, SObj, Sym, Unsupported, PyRaise, zreal
from pyvc import ops

PROP = 'C08'
LEVEL = 'proof'


class Mat(Sym):
    """numpy array of concrete shape with symbolic real entries (tuple of rows)."""

    def __init__(self, rows):
        self.rows = tuple(tuple(r) for r in rows)

    def getattr(self, ctx, name):
        if name == 'ndim':
            return 2
        if name == 'shape':
            return (len(self.rows), len(self.rows[0]) if self.rows else 0)
        raise Unsupported('ndarray.' + name)

    def length(self, ctx):
        return len(self.rows)

    def iterate(self, ctx):
        return list(self.rows)


def det(M):
    n = len(M)
    if n == 1:
        return M[0][0]
    if n == 2:
        return M[0][0] * M[1][1] - M[0][1] * M[1][0]
    return (M[0][0] * (M[1][1] * M[2][2] - M[1][2] * M[2][1]) - M[0][1] * (M[1][0] * M[2][2] - M[1][2] * M[2][0]) + M[0][2] * (M[1][0] * M[2][1] - M[1][1] * M[2][0]))


class NP:
    def sym_getattr(self, ctx, name):
        if name == 'asarray':
            return lambda ctx, x: x
        if name == 'array':
            return lambda ctx, x: tuple(ops.iterate(ctx, x))
        if name == 'ones':
            return lambda ctx, n: (1,) * n
        raise Unsupported('numpy.' + name)


class Ext(Contract):
    prop = PROP
    fn = 'numeric:ext'

    def __init__(self, n):
        self.n = n
        self.label = 'n=%d' % n

    def setup(self, cx):
        n = self.n
        A = [[SReal(cx.real('a%d%d' % (i, j))) for j in range(n - 1)] for i in range(n)]
        return State(args=(Mat(A),), A=A, globals={'numpy': NP()})

    def ensures(self, cx, S, result):
        n = self.n
        e = [zreal(x) for x in ops.iterate(cx, result)]
        if len(e) != n:
            raise Unsupported('ext returned %d components' % len(e))
        A = [[zreal(x) for x in row] for row in S.A]
        out = [('orthogonal-to-column-%d' % j, sum(e[i] * A[i][j] for i in range(n)) == 0) for j in range(n - 1)]
        M = [A[i] + [e[i]] for i in range(n)]
        ee = sum(x * x for x in e)
        # |ext|^2 is the Gram determinant of the columns: ext has the length of the surface measure
        G = [[sum(A[i][p] * A[i][q] for i in range(n)) for q in range(n - 1)] for p in range(n - 1)]
        gram = det(G) if n > 1 else z3.RealVal(1)
        out.append(('length-is-surface-measure', ee == gram))
        # orientation convention of the code: det([A | ext]) = +|ext|^2 for n = 1, 3 and -|ext|^2 for n = 2 (the docstring
        # states + for all n; for n = 2 the code rotates the tangent clockwise, (a, b) -> (b, -a), and every edge transform
        # relies on that).  A sign flip here turns outward normals inward.
        sign = -1 if n == 2 else 1
        out.append(('orientation', det(M) == sign * ee))
        return out

    def replay(self, ob):
        import os
        here = os.path.dirname(os.path.dirname(os.path.abspath(__file__)))
        return "import sys; sys.path.insert(0, %r)\nfrom native import c08\nc08.ext(%d)\n" % (here, self.n)


class UpdimExt(Contract):
    prop = PROP
    fn = 'transform:Updim.ext'

    def __init__(self, flipped):
        self.flipped = flipped
        self.label = 'isflipped=%s' % flipped

    def setup(self, cx):
        v = [SReal(cx.real('e%d' % i)) for i in range(3)]
        S = State(v=v)

        class Vec3(Sym):
            def __init__(s, xs):
                s.xs = xs

            def unop(s, ctx, op):
                if op == '-':
                    return Vec3([ops.unop(ctx, '-', x) for x in s.xs])
                raise Unsupported(op)
        S.Vec3 = Vec3
        vec = Vec3(v)

        class Num:
            def sym_getattr(self, ctx, name):
                return lambda ctx, lin: vec

        class Ty:
            def sym_getattr(self, ctx, name):
                return lambda ctx, x, copy=True: x
        selfobj = SObj('Updim', attrs=dict(linear=SObj('linear'), isflipped=self.flipped))
        S.args = (selfobj,)
        S.globals = {'numeric': Num(), 'types': Ty()}
        return S

    def ensures(self, cx, S, result):
        sign = -1 if self.flipped else 1
        return [('orientation', z3.And(*[zreal(r) == sign * zreal(x) for r, x in zip(result.xs, S.v)]))]


def contracts():
    from contracts import c08_edges
    return [Ext(1), Ext(2), Ext(3), UpdimExt(False), UpdimExt(True)] + c08_edges.contracts()


TRUSTED = ['pyvc symbolic executor; numpy.asarray/array/ones on small fixed-shape tuples', 'floats treated as reals (machine arithmetic as mathematical)',
           'small-matrix numpy model of contracts/c08_edges.py (concrete shapes, exact entries; cross-checked in native/axioms_c08.py): asarray, zeros, ones, eye, concatenate(axis=0), '
           'dot / @, .T, row / column / slice / index-list subscripts, a[None, :], scalar[newaxis, newaxis], 2-d slice stores, elementwise + - * with numpy broadcasting of '
           '(n,m) with (m,), unary minus, numpy.linalg.det as the cofactor polynomial (order <= 3); integer shape tables (array of shapes, sum(0), cumsum(0)) by the real numpy',
           'types.frozenarray / types.arraydata as identity; decorators cached_property / property / types.lru_cache transparent; objects of the transform / element classes are '
           'RObj (contracts/c10_real.py): every method, property and constructor executed is the real body']
ASSUMPTIONS = ['n <= 3 is all the code implements (NotImplementedError beyond)',
               'class invariant of Updim used for the symbolic factor edge: linear is n x (n-1), offset has length n, isflipped is a bool, _affine = (linear, offset)',
               'a Square factor is given by its linear part and offset; its isflipped is the real property bool(det < 0) with det the exact determinant']
NOT_COVERED = ['gradients, Jacobians, divergence theorem, normalisation, lowering: calculus and array semantics are outside; this claim covers the algebraic core of the normal and the '
               'orientation flags of the edge transforms (SimplexEdge, TensorEdge1/2, ScaledUpdim, flipped) for ndims <= 3',
               'swapup / swapdown of the edge transforms (C11 item tables), MosaicReference / WithChildrenReference extra edges, orientation of interface opposites']
