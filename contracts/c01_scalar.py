"""C01 (scalar kernel, extension) -- more value-preserving elementwise rewrite rules.

Same reading as contracts/C01.py: an `IR` carries the ghost value of one arbitrary fixed element; constructors act
pointwise.  Rules here:

  Multiply._add            a*b + a*c -> a*(b+c),  x + x -> 2*x,  x + (-1)*x -> 0      (<= 3 factors per product: bounded)
  Power._power  (int)      (x**a)**n -> x**(a*n) resp. |x|**(a*n)  for integer exponents a, n >= 0
  Power._power  (float, even constant exponent)   (x**a)**n -> |x|**(a*n) unless a*n is known even
  Power._power  (float, arbitrary exponent)       PARKED: fails on the unchanged tree (candidate defect, notes/C01-c01.md)
  Multiply._optimized_for_numpy   x * sign(x) -> |x|
  LogicalNot._simplified   not not x -> x
"""
import z3
from pyvc.contract import Contract, State
from pyvc.values import SExt, SInt, SBool, SObj, SOpaque, PyRaise, Unsupported, pymod, zint, is_intlike, Sym
from pyvc.ops import ClassRef, Builtin
from contracts.C01 import IR, NOCLAIM, OptInt, child, Rewrite, node, PROP, MODULE
from contracts.C06 import GLOBALS as C06_GLOBALS


class KDType(SOpaque):
    """a concrete dtype: compared against the builtins bool/int/float/complex"""

    def __init__(self, kind):
        super().__init__('dtype:' + kind)
        self.kind = kind

    def compare(self, ctx, op, other, reflected):
        if op in ('==', '!='):
            if isinstance(other, KDType):
                same = other.kind == self.kind
            else:
                t = other.type if isinstance(other, Builtin) else other
                name = getattr(t, '__name__', None)
                if name not in ('bool', 'int', 'float', 'complex'):
                    return NotImplemented
                same = name == self.kind
            return same if op == '==' else not same
        return NotImplemented


def with_cu(cx, c):
    has, cu = cx.bool(c.name + '.has_const_uniform'), cx.int(c.name + '.const_uniform')
    cx.assume(z3.Implies(has, c.val == cu))
    c.attrs['_const_uniform'] = OptInt(has, cu)
    return c


class MultiplyAdd(Contract):
    """Multiply._add(other): a returned node evaluates to self + other, elementwise, for all factor values."""
    prop = PROP
    fn = 'evaluable:Multiply._add'

    def __init__(self, mine, other, other_is_product=True):
        self.mine, self.other, self.other_is_product = mine, other, other_is_product
        self.label = '%s+%s%s' % ('*'.join(mine), '*'.join(other), '' if other_is_product else '(single)')
        self.bounded = 'products of at most 3 factors, sharing pattern %s' % self.label

    def setup(self, cx):
        names = sorted(set(self.mine) | set(self.other))
        F = {}
        for n in names:
            c = with_cu(cx, child(cx, n))
            c.attrs['dtype'] = KDType('int')
            F[n] = c

        def product(name, letters):
            v = z3.IntVal(1)
            for l in letters:
                v = v * F[l].val
            return IR(cx, name, v, classes=('Multiply', 'Array'), attrs=dict(_factors=[F[l] for l in letters], dtype=KDType('int')))
        me = product('self', self.mine)
        other = product('other', self.other) if self.other_is_product else F[self.other[0]]
        S = State(args=(me, other), me=me, other=other, F=F)

        def multiply(ctx, *fs):
            if not fs:
                raise PyRaise('TypeError', note='multiply() of no factors (functools.reduce of an empty sequence)')
            r = z3.IntVal(1)
            for f in fs:
                r = r * f.val
            return IR(ctx, 'product', r)
        S.globals = dict(C06_GLOBALS)
        S.globals.update({'Multiply': ClassRef('Multiply'), 'multiply': multiply, 'add': lambda ctx, a, b: IR(ctx, 'sum', a.val + b.val),
                          'astype': lambda ctx, v, dt: IR(ctx, 'const', zint(v)), 'zeros_like': lambda ctx, x: IR(ctx, 'zeros', z3.IntVal(0))})
        return S

    def ensures(self, cx, S, result):
        if result is None:
            return [('declines', z3.BoolVal(True))]
        if not isinstance(result, IR):
            raise Unsupported('rule returned %r' % (result,))
        return [('sum-equal', result.val == S.me.val + S.other.val)]

    def replay(self, ob):
        import json, os
        here = os.path.dirname(os.path.dirname(os.path.abspath(__file__)))
        return ("import sys; sys.path.insert(0, %r)\nfrom native import c01\nc01.run_multiply_add(%r, %r, %r, %s)\n"
                % (here, self.mine, self.other, self.other_is_product, json.dumps({k: v for k, v in ob.model.items() if not k.startswith('k!')})))


IPOW = z3.Function('int.power', z3.IntSort(), z3.IntSort(), z3.IntSort())
RPOW = z3.Function('real.power', z3.RealSort(), z3.RealSort(), z3.RealSort())
ISEVEN = z3.Function('is-even-integer', z3.RealSort(), z3.BoolSort())
RMOD = z3.Function('real.mod', z3.RealSort(), z3.RealSort(), z3.RealSort())


class PIR(IR):
    """IR with % (needed for `power % 2`) and an `exact` flag: built from uniform constants only, so iszero() is decided"""
    exact = False

    def binop(self, ctx, op, other, reflected):
        if op == '%' and not reflected and isinstance(other, IR):
            if z3.is_int(self.val) and z3.is_int(other.val):
                if not ctx.branch(other.val != 0):
                    raise PyRaise('ModelError:mod-by-zero-array')
                r = PIR(ctx, '(%s%%)' % self.name, pymod(self.val, other.val))
            else:
                r = PIR(ctx, '(%s%%)' % self.name, RMOD(z3.ToReal(self.val) if z3.is_int(self.val) else self.val, z3.ToReal(other.val) if z3.is_int(other.val) else other.val))
            r.exact = self.exact and getattr(other, 'exact', False)
            return r
        r = super().binop(ctx, op, other, reflected)
        if isinstance(r, IR) and r is not NotImplemented:
            p = PIR(ctx, r.name, r.val)
            p.exact = self.exact and getattr(other, 'exact', is_intlike(other))
            return p
        return r


def toreal(v):
    return z3.ToReal(v) if z3.is_int(v) else v


class PowerPower(Contract):
    """Power._power(n):  (func ** power) ** n  ==  replacement, elementwise.

    mode 'int':   integer data, exponents a, n >= 0 (Power.__post_init__): integer power laws (exact).
    mode 'even':  float data, `power` a uniform even integer constant (so iszero(power % 2) is decided by constant folding):
                  the sqrt(sqrt(x**4)) class -- the replacement must be |x| ** (a*n) unless a*n is an even integer.
    mode 'float': float data, arbitrary exponent arrays (PARKED, see module docstring)."""
    prop = PROP
    fn = 'evaluable:Power._power'

    def __init__(self, mode):
        self.mode = mode
        self.label = {'int': 'integer-exponents', 'even': 'float-even-constant-exponent', 'float': 'float-arbitrary-exponent'}[mode]

    def setup(self, cx):
        mode = self.mode
        kind = 'int' if mode == 'int' else 'float'
        if mode == 'int':
            x, a, n = cx.int('func.val'), cx.int('power.val'), cx.int('n.val')
            cx.assume(z3.And(a >= 0, n >= 0))
        else:
            x, a, n = cx.real('func.val'), cx.real('power.val'), cx.real('n.val')
        f = PIR(cx, 'func', x, attrs=dict(dtype=KDType(kind)))
        p = PIR(cx, 'power', a, attrs=dict(dtype=KDType(kind)))
        nn = PIR(cx, 'n', n, attrs=dict(dtype=KDType(kind)))
        if mode == 'even':
            k = cx.int('power.half')
            cx.assume(z3.And(a == z3.ToReal(2 * k), ISEVEN(a)), axiom='is-even-integer(2k) for integer k')
            p.exact = True
        me = node('Power', func=f, power=p, dtype=KDType(kind))
        S = State(args=(me, nn), x=x, a=a, n=n, me=me)
        two = {}

        def astype(ctx, v, dt):
            c = PIR(ctx, 'const', zint(v) if mode == 'int' else z3.RealVal(v))
            c.exact = True
            return c

        def iszero(ctx, t):
            if getattr(t, 'exact', False):
                # a constant expression: simplification folds it, iszero is exact.  real.mod(a, 2) == 0 <=> a is an even integer
                v = t.val
                if mode != 'int':
                    ctx.assume((v == 0) == ISEVEN(t.val.arg(0)) if z3.is_app(t.val) and t.val.decl().name() == 'real.mod' else z3.BoolVal(True), axiom='numpy.mod(a, 2) == 0 iff a is an even integer')
                return SBool(v == 0)
            z = ctx.bool('iszero(%s)' % t.name)
            ctx.assume(z3.Implies(z, t.val == 0), axiom='iszero(x) => every element of x is 0')
            if mode != 'int' and z3.is_app(t.val) and t.val.decl().name() == 'real.mod':
                ctx.assume((t.val == 0) == ISEVEN(t.val.arg(0)), axiom='numpy.mod(a, 2) == 0 iff a is an even integer')
            return SBool(z)

        def multiply(ctx, u, v):
            r = PIR(ctx, 'product', u.val * v.val, attrs=dict(dtype=KDType(kind)))
            r.exact = getattr(u, 'exact', False) and getattr(v, 'exact', False)
            return r

        def mkpower(ctx, base, e):
            pw = IPOW if mode == 'int' else RPOW
            return IR(ctx, 'Power', pw(base.val, e.val))

        def mkabs(ctx, u):
            return PIR(ctx, 'abs', z3.If(u.val < 0, -u.val, u.val))
        S.globals = dict(C06_GLOBALS)
        S.globals.update({'astype': astype, 'iszero': iszero, 'multiply': multiply, 'abs': mkabs, 'Power': ClassRef('Power', construct=mkpower), 'complex': Builtin('complex')})
        return S

    def ensures(self, cx, S, result):
        if result is None:
            return [('declines', z3.BoolVal(True))]
        if not isinstance(result, IR):
            raise Unsupported('rule returned %r' % (result,))
        x, a, n = S.x, S.a, S.n
        ax = z3.If(x < 0, -x, x)
        if self.mode == 'int':
            cx.assume(IPOW(IPOW(x, a), n) == IPOW(x, a * n), axiom='integer power law (x**a)**n == x**(a*n) for integers a, n >= 0')
            an = cx.int('a*n', report=False)
            k = cx.int('a//2', report=False)
            cx.assume(an == a * n)
            cx.assume(z3.Implies(a % 2 == 0, z3.And(a == 2 * k, an % 2 == 0)), axiom='an even integer times an integer is even')
            cx.assume(z3.Implies(an % 2 == 0, IPOW(ax, a * n) == IPOW(x, a * n)), axiom='|x|**e == x**e for even e')
            return [('power-of-power-equal', result.val == IPOW(IPOW(x, a), n))]
        # reals: an even integer exponent forgets the sign; power law for a non-negative base (ground instances for the terms at hand)
        an = a * n
        for e in (a, an):
            cx.assume(z3.Implies(ISEVEN(e), RPOW(x, e) == RPOW(ax, e)), axiom='x**e == |x|**e for an even integer e')
            cx.assume((RMOD(e, z3.RealVal(2)) == 0) == ISEVEN(e), axiom='numpy.mod(a, 2) == 0 iff a is an even integer')
        for y in (x, ax):
            cx.assume(z3.Implies(y >= 0, RPOW(RPOW(y, a), n) == RPOW(y, an)), axiom='(y**a)**n == y**(a*n) for y >= 0')
        orig = RPOW(RPOW(x, a), n)
        # "on which the original is defined and finite": the original is a real number here by construction of the model
        return [('power-of-power-equal', result.val == orig)]

    def replay(self, ob):
        import json, os
        here = os.path.dirname(os.path.dirname(os.path.abspath(__file__)))
        return "import sys; sys.path.insert(0, %r)\nfrom native import c01\nc01.run_power_power(%r)\n" % (here, self.mode)


_r, _s, _t = z3.Reals('r! s! t!')


class MultiplySignAbs(Rewrite):
    """Multiply._optimized_for_numpy: x * sign(x) -> |x|."""
    cls = 'Multiply'
    method = '_optimized_for_numpy'
    label = 'sign-times-self'

    def model(self, cx):
        a = with_cu(cx, child(cx, 'f0'))
        a.attrs['dtype'] = KDType('int')
        sg = with_cu(cx, IR(cx, 'sign(f0)', z3.If(a.val > 0, 1, z3.If(a.val < 0, -1, 0)), classes=('Sign', 'Array'), attrs=dict(func=a, dtype=KDType('int'))))
        other = with_cu(cx, child(cx, 'f1'))
        other.attrs['dtype'] = KDType('int')
        G = {'a': a, 'sg': sg, 'o': other}
        o = node('Multiply', _factors=[a, other, sg], dtype=KDType('int'), ndim=0, funcs=(a, sg))
        return o, G

    def extra_globals(self, cx, G):
        def multiply(ctx, *fs):
            r = z3.IntVal(1)
            for f in fs:
                r = r * f.val
            return IR(ctx, 'product', r)

        def sign(ctx, x):
            # hash-consing: Sign(fi) IS the existing node when fi is its operand; any other Sign node is a different object
            return G['sg'] if x is G['a'] else IR(ctx, 'sign(%s)' % x.name, z3.If(x.val > 0, 1, z3.If(x.val < 0, -1, 0)), classes=('Sign', 'Array'))
        return {'multiply': multiply, 'Sign': ClassRef('Sign', construct=sign), 'Negative': lambda ctx, x: IR(ctx, 'neg', -x.val),
                'Absolute': ClassRef('Absolute', construct=lambda ctx, x: IR(ctx, 'abs', z3.If(x.val < 0, -x.val, x.val))),
                'complex': Builtin('complex'), 'sorted': Builtin('sorted'), 'Einsum': lambda ctx, *a: NOCLAIM, 'range': Builtin('range')}

    def meaning(self, cx, G):
        return G['a'].val * G['o'].val * G['sg'].val

    def replay(self, ob):
        import os
        here = os.path.dirname(os.path.dirname(os.path.abspath(__file__)))
        return "import sys; sys.path.insert(0, %r)\nfrom native import c01\nc01.run_sign_abs()\n" % here


class LogicalNotRule(Contract):
    """LogicalNot._simplified: not (not x) -> x (booleans)."""
    prop = PROP
    fn = 'evaluable:LogicalNot._simplified'

    def setup(self, cx):
        b = cx.bool('x.val')
        inner_is_not = cx.bool('x is a LogicalNot')
        y = SObj('Array', attrs=dict(val=None), classes=('Array',))
        y.bval = cx.bool('x.x.val')
        x = SObj('LogicalNot', attrs=dict(x=y), classes=('LogicalNot', 'Array'))
        x.bval = b
        cx.assume(z3.Implies(inner_is_not, b == z3.Not(y.bval)))
        x.isinstance_ = lambda ctx, types: SBool(inner_is_not) if any(getattr(t, '__name__', None) == 'LogicalNot' for t in types) else False
        me = SObj('LogicalNot', attrs=dict(x=x), classes=('LogicalNot', 'Array'), methods={'super()._simplified': lambda ctx, s: NOCLAIM})
        S = State(args=(me,), b=b)
        def mknot(ctx, y):
            r = SObj('LogicalNot', attrs=dict(x=y), classes=('LogicalNot', 'Array'))
            r.bval = z3.Not(y.bval)
            return r
        S.globals = {'LogicalNot': ClassRef('LogicalNot', construct=mknot)}
        return S

    def ensures(self, cx, S, result):
        if result is None or result is NOCLAIM:
            return [('declines-or-other-rule', z3.BoolVal(True))]
        if not hasattr(result, 'bval'):
            raise Unsupported('rule returned %r' % (result,))
        return [('double-negation-equal', result.bval == z3.Not(S.b))]

    def replay(self, ob):
        import os
        here = os.path.dirname(os.path.dirname(os.path.abspath(__file__)))
        return "import sys; sys.path.insert(0, %r)\nfrom native import c01\nc01.run_logical_not()\n" % here


PARKED = []


def contracts():
    import os
    cs = [MultiplyAdd('ab', 'ac'), MultiplyAdd('ab', 'ab'), MultiplyAdd('ab', 'ba'), MultiplyAdd('ab', 'a', False), MultiplyAdd('abc', 'ab'),
          MultiplyAdd('ab', 'cd'), MultiplyAdd('ab', 'abc'), MultiplyAdd('abc', 'cad'),
          PowerPower('int'), PowerPower('even'), MultiplySignAbs(), LogicalNotRule()]
    cs += [PowerPower('float')]  # fails on the unchanged tree: recorded KNOWN FINDING (known_findings.json), carve-out = the even-constant-exponent contract
    return cs
