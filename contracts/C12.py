"""C12 (kernel) -- util.merge_index_map computes exactly the merge the sets prescribe.

merge_index_map(nin, merge_sets, condense) is a union-find over index_map with parent pointers going down.
Contract (for every number of merge sets, every set length, every nin; termination of the parent chase included):

  requires   every index in every merge set lies in [0, nin); every merge set is non-empty
  ensures    documented:     index_map[i] == index_map[j] for i, j in the same merge set
             no-over-merging: index_map[i] == index_map[j]  =>  i E j  for EVERY equivalence relation E on indices
                              that relates the members of each merge set (hence for the least one)
             range:          0 <= index_map[i] < count when condensing; count <= nin

Ghost state: rep[i] (the root of i in the parent forest), maintained at the union step.
Loop invariants (unbounded proofs):
  loop0 (merge sets)  P[i] <= i, rep[i] is a root <= i, rep[P[i]] = rep[i], P[i] = i => rep[i] = i, i E rep[i],
                      members of processed sets share rep
  loop1 (one set)     resolved[b] = rep[set[b]] for b processed
  loop2 (chase)       0 <= index < nin, rep[index] = rep[set[a]]; decreases index
  loop3 (final pass)  processed j: Q[j] = Q[rep[j]]; unprocessed j: Q[j] = P0[j]; labels of roots strictly
                      increasing and below count (condense) / equal to the root (otherwise)
"""
import z3
from pyvc.contract import Contract, State
from pyvc.values import SInt, SBool, Sym, Unsupported, PyRaise, zint
from pyvc.nparr import Vec, SList, Numpy, qforall, qexists, Enumerated, I
from pyvc.interp import Loop

PROP = 'C12'
LEVEL = 'proof'


class MergeSets(Sym):
    """A sequence of K sequences of ints: MS(k, a) for a < LEN(k)."""

    def __init__(self, cx):
        self.K = cx.int('num_sets')
        cx.assume(self.K >= 0)
        self.LEN = z3.Function('set_len', I, I)
        self.MS = z3.Function('set_item', I, I, I)

    def seq_len(self, ctx):
        return self.K

    def seq_at(self, ctx, k):
        return OneSet(self, k)


class OneSet(Sym):
    def __init__(self, ms, k):
        self.ms, self.k = ms, k

    def seq_len(self, ctx):
        return self.ms.LEN(self.k)

    def seq_at(self, ctx, a):
        return SInt(self.ms.MS(self.k, a))


class UFVec(Vec):
    """index_map: the fancy store `index_map[resolved] = m` is the union step and also updates the ghost rep."""

    def setitem(self, ctx, idx, value):
        if isinstance(idx, SList):
            S = self.S
            m = zint(value)
            rep_old = S.rep
            inres = z3.Function(ctx.name('in_resolved'), I, z3.BoolSort())
            wit = z3.Function(ctx.name('wit_resolved'), I, I)
            ctx.assume(qforall(1, lambda b: z3.Implies(z3.And(0 <= b, b < idx.n), inres(idx.sel(b)))))
            ctx.assume(qforall(1, lambda x: z3.Implies(inres(x), z3.And(0 <= wit(x), wit(x) < idx.n, idx.sel(wit(x)) == x))))
            rep_new = z3.Array(ctx.name('rep'), I, I)
            ctx.assume(qforall(1, lambda i: z3.Select(rep_new, i) == z3.If(inres(z3.Select(rep_old, i)), m, z3.Select(rep_old, i))))
            S.rep = rep_new
            S.unions.append((inres, m))
        return super().setitem(ctx, idx, value)


def rep_invariants(S, P, n, rep, E):
    """I1-I4, I6 for parent array P (a sel function) and ghost rep."""
    sel = lambda i: z3.Select(rep, i)
    return z3.And(
        qforall(1, lambda i: z3.Implies(z3.And(0 <= i, i < n), z3.And(0 <= P(i), P(i) <= i))),
        qforall(1, lambda i: z3.Implies(z3.And(0 <= i, i < n), z3.And(0 <= sel(i), sel(i) <= i, P(sel(i)) == sel(i)))),
        qforall(1, lambda i: z3.Implies(z3.And(0 <= i, i < n), sel(P(i)) == sel(i))),
        qforall(1, lambda i: z3.Implies(z3.And(0 <= i, i < n, P(i) == i), sel(i) == i)),
        qforall(1, lambda i: z3.Implies(z3.And(0 <= i, i < n), E(i, sel(i)))))


class MergeIndexMap(Contract):
    prop = PROP
    fn = '_util:merge_index_map'

    def __init__(self, condense):
        self.condense = condense
        self.label = 'condense=%s' % condense
        C = self

        def inv0(cx, env, k):
            S = C.S
            P = env.lookup('index_map')
            ms = S.ms
            sel = lambda i: z3.Select(S.rep, i)
            return z3.And(rep_invariants(S, P.sel, S.n, S.rep, S.E),
                          qforall(3, lambda kk, a, b: z3.Implies(z3.And(0 <= kk, kk < k, 0 <= a, a < ms.LEN(kk), 0 <= b, b < ms.LEN(kk)),
                                                                sel(ms.MS(kk, a)) == sel(ms.MS(kk, b)))))

        def inv1(cx, env, a):
            S = C.S
            res = env.lookup('resolved')
            ms_k = env.lookup('merge_set')
            sel = lambda i: z3.Select(S.rep, i)
            if isinstance(res, list):
                if res:
                    raise Unsupported('resolved is a non-empty concrete list')
                return a == 0
            return z3.And(res.n == a, qforall(1, lambda b: z3.Implies(z3.And(0 <= b, b < a), res.sel(b) == sel(ms_k.ms.MS(ms_k.k, b)))))

        def inv2(cx, env):
            S = C.S
            idx = zint(env.lookup('index'))
            sel = lambda i: z3.Select(S.rep, i)
            if getattr(S, 'member', None) is None:
                S.member = idx  # first evaluation (loop entry): `index` is the member of the merge set being resolved
            cur = S.member
            return z3.And(0 <= idx, idx < S.n, sel(idx) == sel(cur))

        def inv3(cx, env, i):
            S = C.S
            Q = env.lookup('index_map')
            if S.P0 is None:
                S.P0 = Q._sel if Q.base is None else Q.sel  # snapshot of the forest at the start of the final pass
            P0, n = S.P0, S.n
            sel = lambda j: z3.Select(S.rep, j)
            count = zint(env.lookup('count'))
            parts = [
                qforall(1, lambda j: z3.Implies(z3.And(i <= j, j < n), Q.sel(j) == P0(j))),
                qforall(1, lambda j: z3.Implies(z3.And(0 <= j, j < i), Q.sel(j) == Q.sel(sel(j)))),
                0 <= count, count <= i]
            if C.condense:
                parts += [qforall(1, lambda r: z3.Implies(z3.And(0 <= r, r < i, P0(r) == r), z3.And(0 <= Q.sel(r), Q.sel(r) < count))),
                          qforall(2, lambda r1, r2: z3.Implies(z3.And(0 <= r1, r1 < r2, r2 < i, P0(r1) == r1, P0(r2) == r2), Q.sel(r1) < Q.sel(r2)))]
            else:
                parts += [qforall(1, lambda r: z3.Implies(z3.And(0 <= r, r < i, P0(r) == r), Q.sel(r) == r))]
            return z3.And(*parts)

        def havoc_rep(cx, env):
            C.S.rep = z3.Array(cx.name('rep'), I, I)  # the ghost is changed by the union step in the loop body

        self.loops = {
            0: Loop(inv0, label='sets', on_havoc=havoc_rep, match='in merge_sets'),
            1: Loop(inv1, label='members', havoc={'resolved': lambda cx, env: SList.fresh_list(cx, 'resolved')}, match='in merge_set'),
            2: Loop(inv2, label='chase', decreases=lambda cx, env: zint(env.lookup('index')), match='while '),
            3: Loop(inv3, label='finalpass', match='enumerate(index_map)'),
        }

    def replay(self, ob):
        import os
        here = os.path.dirname(os.path.dirname(os.path.abspath(__file__)))
        return "import sys; sys.path.insert(0, %r)\nfrom native import c12\nc12.run(%r)\n" % (here, self.condense)

    def setup(self, cx):
        n = cx.int('nin')
        cx.assume(n >= 0)
        ms = MergeSets(cx)
        cx.assume(qforall(1, lambda k: z3.Implies(z3.And(0 <= k, k < ms.K), ms.LEN(k) >= 1)))
        cx.assume(qforall(2, lambda k, a: z3.Implies(z3.And(0 <= k, k < ms.K, 0 <= a, a < ms.LEN(k)), z3.And(0 <= ms.MS(k, a), ms.MS(k, a) < n))))
        # an arbitrary equivalence relation containing every merge pair
        E = z3.Function('E', I, I, z3.BoolSort())
        cx.assume(qforall(1, lambda x: E(x, x)))
        cx.assume(qforall(2, lambda x, y: z3.Implies(E(x, y), E(y, x))))
        cx.assume(qforall(3, lambda x, y, z: z3.Implies(z3.And(E(x, y), E(y, z)), E(x, z))))
        cx.assume(qforall(3, lambda k, a, b: z3.Implies(z3.And(0 <= k, k < ms.K, 0 <= a, a < ms.LEN(k), 0 <= b, b < ms.LEN(k)), E(ms.MS(k, a), ms.MS(k, b)))))
        rep0 = z3.Array(cx.name('rep'), I, I)
        cx.assume(qforall(1, lambda i: z3.Select(rep0, i) == i))  # initially every index is its own root
        S = State(n=n, ms=ms, E=E, rep=rep0, unions=[], P0=None)
        self.S = S

        def current_member(env):
            # the member of the current merge set whose parent chain is being chased: merge_set[a]
            return S.member
        S.current_member = current_member

        def arange(ctx, nn):
            v = UFVec('int', zint(nn), lambda i: i, 'index_map')
            v.S = S
            return v
        S.args = (SInt(n), ms, self.condense)
        S.globals = {'numpy': Numpy(extra={'arange': arange})}
        return S

    def ensures(self, cx, S, result):
        imap, count = result
        if not isinstance(imap, Vec):
            raise Unsupported('returned %r' % (result,))
        ms, n, E = S.ms, S.n, S.E
        out = [('documented-merged', qforall(3, lambda k, a, b: z3.Implies(z3.And(0 <= k, k < ms.K, 0 <= a, a < ms.LEN(k), 0 <= b, b < ms.LEN(k)),
                                                                           imap.sel(ms.MS(k, a)) == imap.sel(ms.MS(k, b))))),
               ('no-over-merging', qforall(2, lambda i, j: z3.Implies(z3.And(0 <= i, i < n, 0 <= j, j < n, imap.sel(i) == imap.sel(j)), E(i, j)))),
               ('length', imap.n == n),
               ('count-range', z3.And(0 <= zint(count), zint(count) <= n))]
        if self.condense:
            out.append(('labels-below-count', qforall(1, lambda i: z3.Implies(z3.And(0 <= i, i < n), z3.And(0 <= imap.sel(i), imap.sel(i) < zint(count))))))
        else:
            out.append(('one-fixed-point-per-class', qforall(1, lambda i: z3.Implies(z3.And(0 <= i, i < n), imap.sel(imap.sel(i)) == imap.sel(i)))))
        return out


def contracts():
    from contracts import C12_support
    return [MergeIndexMap(True), MergeIndexMap(False)] + C12_support.contracts()


TRUSTED = ['pyvc symbolic executor and its Python model (DESIGN 2.3), loop rule (init / preserve / use, havoc of assigned names)',
           'numpy externals: arange, integer-array store (Skolem witness form); min() of a list as an attained lower bound',
           'ghost update of rep at the union step is specification text, not code']
ASSUMPTIONS = ['every index in a merge set lies in [0, nin) and every merge set is non-empty (documented)', 'numpy int64 as mathematical integers']
NOT_COVERED = ['every concrete basis class (dof lists, coefficient tables), partition of unity, continuity across interfaces: numeric, outside',
               'Basis._computed_support inverse relation (DESIGN 4.12; not built)',
               'surjectivity of the condensed labels onto range(count)']
