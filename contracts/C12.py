"""C12 (kernel) -- util.merge_index_map computes exactly the merge the sets prescribe.

merge_index_map(nin, merge_sets, condense) is a union-find over index_map with parent pointers going down.
Contract (for every number of merge sets, every set length, every nin; termination of the parent chase included):

  requires   every index in every merge set lies in [0, nin); every merge set is non-empty
  ensures    documented:     index_map[i] == index_map[j] for i, j in the same merge set
             no-over-merging: index_map[i] == index_map[j]  =>  i E j  for EVERY equivalence relation E on indices
                              that relates the members of each merge set (hence for the least one)
             range:          0 <= index_map[i] < count when condensing; count <= nin

Ghost state: rep[i] (the root of i in the parent forest), maintained at the union step.
Loop invariants (unbounded proofs):
  loop0 (merge sets)  P[i] <= i, rep[i] is a root <= i, rep[P[i]] = rep[i], P[i] = i => rep[i] = i, i E rep[i],
                      members of processed sets share rep
  loop1 (one set)     resolved[b] = rep[set[b]] for b processed
  loop2 (chase)       0 <= index < nin, rep[index] = rep[set[a]]; decreases index
  loop3 (final pass)  processed j: Q[j] = Q[rep[j]]; unprocessed j: Q[j] = P0[j]; labels of roots strictly
                      increasing and below count (condense) / equal to the root (otherwise)
"""
import z3
from pyvc.contract import Contract, State
from pyvc.values import SInt, SBool, Sym, Unsupported, PyRaise, zint
from pyvc.nparr import Vec, SList, Numpy, qforall, qexists, Enumerated, I
from pyvc.interp import Loop

PROP = 'C12'
LEVEL = 'proof'


class MergeSets(Sym):
    """A sequence of K sequences of ints: MS(k, a) for a < LEN(k)."""

    def __init__(self, cx):
        self.K = cx.int('num_sets')
        cx.assume(self.K >= 0)
        self.LEN = z3.Function('set_len', I, I)
        self.MS = z3.Function('set_item', I, I, I)

    def seq_len(self, ctx):
        return self.K

    def seq_at(self, ctx, k):
        return OneSet(self, k)


class OneSet(Sym):
    def __init__(self, ms, k):
        self.ms, self.k = ms, k

    def seq_len(self, ctx):
        return self.ms.LEN(self.k)

    def seq_at(self, ctx, a):
        return SInt(self.ms.MS(self.k, a))


class UFVec(Vec):
    """index_map: the fancy store `index_map[resolved] = m` is the union step and also updates the ghost rep."""

    def setitem(self, ctx, idx, value):
        if isinstance(idx, SList):
            S = self.S
            m = zint(value)
            rep_old = S.rep
            inres = z3.Function(ctx.name('in_resolved'), I, z3.BoolSort())
            wit = z3.Function(ctx.name('wit_resolved'), I, I)
            ctx.assume(qforall(1, lambda b: z3.Implies(z3.And(0 <= b, b < idx.n), inres(idx.sel(b)))))
            ctx.assume(qforall(1, lambda x: z3.Implies(inres(x), z3.And(0 <= wit(x), wit(x) < idx.n, idx.sel(wit(x)) == x))))
            rep_new = z3.Array(ctx.name('rep'), I, I)
            ctx.assume(qforall(1, lambda i: z3.Select(rep_new, i) == z3.If(inres(z3.Select(rep_old, i)), m, z3.Select(rep_old, i))))
            S.rep = rep_new
            S.unions.append((inres, m))
        return super().setitem(ctx, idx, value)


def rep_invariants(S, P, n, rep, E):
    """I1-I4, I6 for parent array P (a sel function) and ghost rep."""
    sel = lambda i: z3.Select(rep, i)
    return z3.And(
        qforall(1, lambda i: z3.Implies(z3.And(0 <= i, i < n), z3.And(0 <= P(i), P(i) <= i))),
        qforall(1, lambda i: z3.Implies(z3.And(0 <= i, i < n), z3.And(0 <= sel(i), sel(i) <= i, P(sel(i)) == sel(i)))),
        qforall(1, lambda i: z3.Implies(z3.And(0 <= i, i < n), sel(P(i)) == sel(i))),
        qforall(1, lambda i: z3.Implies(z3.And(0 <= i, i < n, P(i) == i), sel(i) == i)),
        qforall(1, lambda i: z3.Implies(z3.And(0 <= i, i < n), E(i, sel(i)))))


class MergeIndexMap(Contract):
    prop = PROP
    fn = '_util:merge_index_map'

    def __init__(self, condense):
        self.condense = condense
        self.label = 'condense=%s' % condense
        C = self

        def inv0(cx, env, k):
            S = C.S
            P = env.lookup('index_map')
            ms = S.ms
            sel = lambda i: z3.Select(S.rep, i)
            return z3.And(rep_invariants(S, P.sel, S.n, S.rep, S.E),
                          qforall(3, lambda kk, a, b: z3.Implies(z3.And(0 <= kk, kk < k, 0 <= a, a < ms.LEN(kk), 0 <= b, b < ms.LEN(kk)),
                                                                sel(ms.MS(kk, a)) == sel(ms.MS(kk, b)))))

        def inv1(cx, env, a):
            S = C.S
            res = env.lookup('resolved')
            ms_k = env.lookup('merge_set')
            sel = lambda i: z3.Select(S.rep, i)
            if isinstance(res, list):
                if res:
                    raise Unsupported('resolved is a non-empty concrete list')
                return a == 0
            return z3.And(res.n == a, qforall(1, lambda b: z3.Implies(z3.And(0 <= b, b < a), res.sel(b) == sel(ms_k.ms.MS(ms_k.k, b)))))

        def inv2(cx, env):
            S = C.S
            idx = zint(env.lookup('index'))
            sel = lambda i: z3.Select(S.rep, i)
            if getattr(S, 'member', None) is None:
                S.member = idx  # first evaluation (loop entry): `index` is the member of the merge set being resolved
            cur = S.member
            return z3.And(0 <= idx, idx < S.n, sel(idx) == sel(cur))

        def inv3(cx, env, i):
            S = C.S
            Q = env.lookup('index_map')
            if S.P0 is None:
                S.P0 = Q._sel if Q.base is None else Q.sel  # snapshot of the forest at the start of the final pass
            P0, n = S.P0, S.n
            sel = lambda j: z3.Select(S.rep, j)
            count = zint(env.lookup('count'))
            parts = [
                qforall(1, lambda j: z3.Implies(z3.And(i <= j, j < n), Q.sel(j) == P0(j))),
                qforall(1, lambda j: z3.Implies(z3.And(0 <= j, j < i), Q.sel(j) == Q.sel(sel(j)))),
                0 <= count, count <= i]
            if C.condense:
                parts += [qforall(1, lambda r: z3.Implies(z3.And(0 <= r, r < i, P0(r) == r), z3.And(0 <= Q.sel(r), Q.sel(r) < count))),
                          qforall(2, lambda r1, r2: z3.Implies(z3.And(0 <= r1, r1 < r2, r2 < i, P0(r1) == r1, P0(r2) == r2), Q.sel(r1) < Q.sel(r2)))]
            else:
                parts += [qforall(1, lambda r: z3.Implies(z3.And(0 <= r, r < i, P0(r) == r), Q.sel(r) == r))]
            return z3.And(*parts)

        def havoc_rep(cx, env):
            C.S.rep = z3.Array(cx.name('rep'), I, I)  # the ghost is changed by the union step in the loop body

        self.loops = {
            0: Loop(inv0, label='sets', on_havoc=havoc_rep, match='in merge_sets'),
            1: Loop(inv1, label='members', havoc={'resolved': lambda cx, env: SList.fresh_list(cx, 'resolved')}, match='in merge_set'),
            2: Loop(inv2, label='chase', decreases=lambda cx, env: zint(env.lookup('index')), match='while '),
            3: Loop(inv3, label='finalpass', match='enumerate(index_map)'),
        }

    def replay(self, ob):
        import os
        here = os.path.dirname(os.path.dirname(os.path.abspath(__file__)))
        return "import sys; sys.path.insert(0, %r)\nfrom native import c12\nc12.run(%r)\n" % (here, self.condense)

    def setup(self, cx):
        n = cx.int('nin')
        cx.assume(n >= 0)
        ms = MergeSets(cx)
        from pyvc import nparr
        if nparr.BOUND is not None:
            # counterexample search only: index quantifiers are expanded over 0..BOUND, so every index domain must fit
            # (otherwise the invariants are assumed on a part of the arrays only and the search reports spurious models)
            cx.assume(z3.And(n <= nparr.BOUND, ms.K <= nparr.BOUND))
            cx.assume(qforall(1, lambda k: ms.LEN(k) <= nparr.BOUND))
        cx.assume(qforall(1, lambda k: z3.Implies(z3.And(0 <= k, k < ms.K), ms.LEN(k) >= 1)))
        cx.assume(qforall(2, lambda k, a: z3.Implies(z3.And(0 <= k, k < ms.K, 0 <= a, a < ms.LEN(k)), z3.And(0 <= ms.MS(k, a), ms.MS(k, a) < n))))
        # an arbitrary equivalence relation containing every merge pair
        E = z3.Function('E', I, I, z3.BoolSort())
        cx.assume(qforall(1, lambda x: E(x, x)))
        cx.assume(qforall(2, lambda x, y: z3.Implies(E(x, y), E(y, x))))
        cx.assume(qforall(3, lambda x, y, z: z3.Implies(z3.And(E(x, y), E(y, z)), E(x, z))))
        cx.assume(qforall(3, lambda k, a, b: z3.Implies(z3.And(0 <= k, k < ms.K, 0 <= a, a < ms.LEN(k), 0 <= b, b < ms.LEN(k)), E(ms.MS(k, a), ms.MS(k, b)))))
        rep0 = z3.Array(cx.name('rep'), I, I)
        cx.assume(qforall(1, lambda i: z3.Select(rep0, i) == i))  # initially every index is its own root
        S = State(n=n, ms=ms, E=E, rep=rep0, unions=[], P0=None)
        self.S = S

        def current_member(env):
            # the member of the current merge set whose parent chain is being chased: merge_set[a]
            return S.member
        S.current_member = current_member

        def arange(ctx, nn):
            v = UFVec('int', zint(nn), lambda i: i, 'index_map')
            v.S = S
            return v
        S.args = (SInt(n), ms, self.condense)
        S.globals = {'numpy': Numpy(extra={'arange': arange})}
        return S

    def ensures(self, cx, S, result):
        imap, count = result
        if not isinstance(imap, Vec):
            raise Unsupported('returned %r' % (result,))
        ms, n, E = S.ms, S.n, S.E
        out = [('documented-merged', qforall(3, lambda k, a, b: z3.Implies(z3.And(0 <= k, k < ms.K, 0 <= a, a < ms.LEN(k), 0 <= b, b < ms.LEN(k)),
                                                                           imap.sel(ms.MS(k, a)) == imap.sel(ms.MS(k, b))))),
               ('no-over-merging', qforall(2, lambda i, j: z3.Implies(z3.And(0 <= i, i < n, 0 <= j, j < n, imap.sel(i) == imap.sel(j)), E(i, j)))),
               ('length', imap.n == n),
               ('count-range', z3.And(0 <= zint(count), zint(count) <= n))]
        if self.condense:
            out.append(('labels-below-count', qforall(1, lambda i: z3.Implies(z3.And(0 <= i, i < n), z3.And(0 <= imap.sel(i), imap.sel(i) < zint(count))))))
        else:
            out.append(('one-fixed-point-per-class', qforall(1, lambda i: z3.Implies(z3.And(0 <= i, i < n), imap.sel(imap.sel(i)) == imap.sel(i)))))
        return out


def contracts():
    from contracts import C12_support, C12_bases, C12_inverse, C12_ctor, C12_tables
    return [MergeIndexMap(True), MergeIndexMap(False)] + C12_support.contracts() + C12_bases.contracts() + C12_inverse.contracts() + C12_ctor.contracts() + C12_tables.contracts()


from contracts.C12_support import PARKED as _PARKED_SUPPORT  # noqa: E402  (empty since the _int_or_vec repair)
from contracts.C12_tables import PARKED as _PARKED_TABLES  # noqa: E402  (_basis_c0_structured, two elements across a periodic direction: candidate defect D3, notes/C12-c12b.md)
PARKED = list(_PARKED_SUPPORT) + list(_PARKED_TABLES)

TRUSTED = ['pyvc symbolic executor and its Python model (DESIGN 2.3), loop rule (init / preserve / use, havoc of assigned names)',
           'numpy externals: arange, integer-array store (Skolem witness form); min() of a list as an attained lower bound',
           'ghost update of rep at the union step is specification text, not code',
           'pyvc/nested.py: `[[] for i in range(n)]` is n distinct empty lists; x[d].append(v) functional update; ghost POS(d, v) = position of the last append of v to x[d] (specification only)',
           'pyvc/npsets.py (cross-checked in native/axioms.py): numpy.unique, numpy.union1d, mask.nonzero()[0] as strictly increasing arrays with exactly the stated element sets (Skolem witnesses); '
           'functools.reduce(numpy.union1d, items) returns items[0] ITSELF for a single item, else the strictly increasing union',
           'types.frozenarray(list of ints / array) is that array; tuple(generator over the list of lists) is the mapped sequence; numpy.array([]) is the empty array, numpy.array([i]) the 1-array',
           'contracts/evalsem.py (cross-checked in native/axioms.py:evaluable_nodes): denotations of evaluable.constant/Elemwise/Range/get/Take/take/Less/InsertAxis/Find/divmod/RavelIndex/Ravel '
           'and +,*,% on integer nodes; insertaxis/PolyMul/ravel on coefficient tables only track WHICH stored rows are combined (row identities), not polynomial values',
           'evaluable.compile/eval deliver the denotation of the node DAG (that is C02, not checked here): get_dofs(e)/get_coefficients(e) = f_dofs_coeffs(index) evaluated at index = e',
           'L-DIVMOD ground instances (divmod(q*n + r, n) = (q, r), 0 <= r < n) for the row-major element digits of StructuredBasis; L-MONO for the DiscontBasis offsets',
           'numeric.normdim is executed from its real source inside _int_or_vec / DiscontBasis.get_support; numeric.isintarray/isboolarray are dtype tests',
           'second round (contracts/C12_inverse.py, cross-checked by native/axioms.py:run_c12b): numpy.searchsorted with an ARRAY of values (elementwise insertion points); arr[mask] keeps the '
           'selected entries in order (strictly increasing position function onto the True positions); numpy.concatenate(list of 1-D arrays) as an element-set axiom (sound, order/multiplicity '
           'unspecified) raising ValueError for an empty list; numpy.arange(a, b); numpy.diff; functools.reduce(numpy.add.outer, axes).ravel() in row-major MULTI-INDEX form (a flat position is the '
           'row-major rank of its multi-index, as in evalsem.py); functools.reduce over a concrete-length list as the left fold; numpy results (fancy takes, elementwise results, comparisons, copies) are '
           'SNAPSHOTS of their operands (pyvc/nparr.py:Vec.frozen_sel)',
           'StructuredBasis.get_support: the periodic images x_0 = d_i, x_{t+1} = x_t + N_i are a specification-level sequence (non-decreasing by L-MONO); L-DIVMOD for the dof digits '
           '(divmod(q*n + r, n) = (q, r)), existence of mixed-radix digits and 0 <= mixed-radix number < prod N_i; bridge to the f_dofs_coeffs contract: (start + p) mod N == d  <=>  start + p == x_t '
           'for some t >= 0 (L-DIVMOD; needs 0 <= start); ghost position function of the appended aranges (specification only); VecList (list of int arrays grown by append)',
           'PrunedBasis.get_support / PrunedBasis.__init__: the parent\'s get_support / get_dofs(int array) are used BY CONTRACT (Basis._computed_support, _int_or_vec#intarray: proved above); '
           'numeric.sorted_index, _sorted_index_mask, numeric.invmap are executed in line from their real sources',
           'constructors: super().__init__ (Basis.__init__) is an external that records (ndofs, nelems, index, coords); types.arraydata / types.frozenarray / numpy.asarray / evaluable.constant return '
           'their argument; all(<generator>) over a symbolic-length sequence is the universally quantified element condition; zip of two symbolic sequences has the shorter length; '
           'L-MONO-GAP (lemmas/LMono.lean) turns the adjacent test of MaskedBasis.__init__ into global strict monotonicity; util.product of a concrete tuple is the product',
           'contracts/C12_tables.py: native enumeration harness native/c12d.py (float evaluation of the real coefficient tables by nutils_poly with threshold 1e-9; node positions of structured '
           'elements = element multi-index + local lattice point; the independent statement of the spline dof numbering and of the multiplicity-expanded knot vectors in _spline_expected/_expanded_knots)']
ASSUMPTIONS = ['every index in a merge set lies in [0, nin) and every merge set is non-empty (documented)', 'numpy int64 as mathematical integers',
               '_computed_support: get_dofs(e) is a 1-D int array with entries in [0, ndofs) for 0 <= e < nelems (class invariant of Basis, NOT checked by any constructor; repetitions and any order allowed)',
               '_int_or_vec: nargs >= 0; f is a total function from indices to 1-D int arrays; "+sorted-f": f returns strictly increasing arrays (true for get_support: proved for _computed_support)',
               'f_dofs_coeffs: 0 <= index < nelems (Basis.__init__ wraps the argument in InRange)',
               'PlainBasis: len(_dofs) == len(_coeffs) and equally many rows per element: ESTABLISHED by PlainBasis.__init__ (now under contract); dofs in [0, ndofs) is NOT checked by the constructor and stays an assumption on its callers',
               'DiscontBasis: _offsets == cumsum([0] + rows per element), ndofs == _offsets[-1]: ESTABLISHED by DiscontBasis.__init__ (now under contract)',
               'MaskedBasis: _indices strictly increasing within [0, parent.ndofs), _renumber == invmap(_indices, parent.ndofs, missing=ndofs): ESTABLISHED by MaskedBasis.__init__ (now under contract; ValueError otherwise); still assumed: parent dofs in range, len(parent) == parent.ndofs',
               'PrunedBasis: _dofmap strictly increasing, contains exactly the dofs of the selected parent elements, _renumber == invmap(_dofmap): ESTABLISHED by PrunedBasis.__init__ (now under contract, using the '
               'repaired _int_or_vec contract); still assumed: transmap entries in [0, parent.nelems), and for get_support transmap strictly increasing (call site SubsetTopology._indices; NOT checked by the constructor), parent dofs in range',
               'StructuredBasis: transforms_shape[i] >= 1, dofs_shape[i] >= 1, _ndofs[i] >= 0, rows of _coeffs[i][e] == _ndofs[i][e]; the element index is given by its row-major digits; '
               '_ndofs == stop - start, ndofs == prod dofs_shape, nelems == prod transforms_shape: ESTABLISHED by StructuredBasis.__init__ (now under contract, start/stop of equal length per axis assumed)',
               'StructuredBasis.get_support: per axis start_dofs and stop_dofs non-decreasing, len == transforms_shape[i] >= 1, stop_dofs[-1] >= dofs_shape[i] >= 1 (as built by _basis_spline: offsets = cumsum(m) - m[0], '
               'stop = offsets + p + 1; checked on the bounded spline family of C12_tables, otherwise ASSUMED; the constructor checks none of it); for the bridge to get_dofs additionally 0 <= start_dofs',
               'numeric.sorted_index / sorted_contains: sorted_array 1-D int non-decreasing, values 1-D int',
               'numeric.invmap: indices in [0, length) and pairwise distinct (documented precondition)']
NOT_COVERED = ['partition of unity, continuity across interfaces, polynomial VALUES of coefficient tables (PolyMul etc. are tracked as row identities only): numeric, outside',
               'surjectivity of the condensed labels onto range(count)',
               'Basis.get_support one-line body (self._computed_support[dof]); get_ndofs/get_coefficients (normdim + compiled evaluable); __getitem__ dispatch',
               'StructuredBasis.get_support beyond 2 axes and for array / mask arguments (the _int_or_vec contract covers the dispatch); StructuredBasis.f_dofs_coeffs beyond 3 axes',
               'PrunedBasis.get_support / MaskedBasis.get_support for array arguments; LegendreBasis, _DiscontinuousPartitionBasis; Basis.__init__ itself (compiles f_dofs_coeffs); the slice branch of Basis.__getitem__',
               '_basis_c0_structured, get_edge_dofs, _basis_spline are covered by BOUNDED native enumeration only (contracts/C12_tables.py): unstructured / simplex / mixed topologies, degree > 3, more than 4 elements per axis, '
               'non-integer knot values, tensor-product splines (per-axis code is shared), spline coefficient VALUES (polynomial pieces) are outside',
               '_basis_c0_structured with exactly TWO elements across a periodic direction: wrong merge (PARKED contract, candidate defect D3 in notes/C12-c12b.md)',
               'int-array / bool-mask argument with ONE distinct entry to get_dofs: documented strict monotonicity fails (PARKED contracts, candidate defect)']
