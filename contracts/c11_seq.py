"""C11: BOUNDED native enumerations (native/c11b.py) of
  * the array / slice / mask forms of transformseq `__getitem__` (base-class dispatch and the overriding subclasses): the result is a Transforms whose
    item k is self[indices[k]] -- unsorted index arrays included; repeated indices raise ValueError, out-of-range indices / masks of the wrong
    length raise IndexError; the result iterates in the same order and its own lookup is consistent (result.index(result[k]) == k);
  * transformseq.chain: elements = concatenation, flattened (items produced by chain() are never chained), empty items dropped, dimension checks;
  * the compressed containers of elementseq / pointsseq (`_Uniform`, `_Take`, `_Repeat`, `_Product`, and the base-class defaults through `_Plain`):
    take / compress / repeat / product / chain / get / len / iter / slices agree with plain Python lists of the items.
Nothing here is a proof: every obligation is labelled bounded.
"""
from pyvc.native import NativeBounded

PROP = 'C11'


class GetitemForms(NativeBounded):
    prop = PROP
    label = 'array-slice-mask-forms'
    module = 'c11b'
    clauses = ('item-k-is-self[indices[k]]', 'slice-is-the-python-slice', 'mask-selects-in-order', 'invalid-index-is-rejected', 'result-iterates-in-the-same-order', 'result-lookup-consistent')

    def __init__(self, cls, family):
        self.fn = 'transformseq:%s.__getitem__' % cls
        self.call = 'getitem_forms(%r)' % cls
        self.bounded = ('exhaustive native enumeration on %s: every index array of length <= 4 over range(len) (unsorted / repeated) plus out-of-range ones, '
                        'every slice with bounds in -len-1..len+1 and step None/1/2/3, every boolean mask' % family)


class ChainFn(NativeBounded):
    prop = PROP
    fn = 'transformseq:chain'
    label = 'native-enumeration'
    module = 'c11b'
    call = 'chain_fn()'
    clauses = ('elements-are-the-concatenation', 'flattened-and-empty-items-dropped', 'dimension-mismatch-is-rejected', 'result-lookup-consistent')
    bounded = 'exhaustive native enumeration: every tuple of <= 3 items from a pool of 6 sequences (empty, index, masked, chained), 4 dimension mismatches'


class Containers(NativeBounded):
    prop = PROP
    label = 'container-algebra'
    module = 'c11b'
    clauses = ('get-len-iter-agree-with-the-construction', 'take-item-k-is-item-indices[k]', 'compress-selects-in-order', 'repeat-is-the-repeated-list',
               'product-is-the-row-major-product', 'chain-is-the-concatenation', 'getitem-forms-agree-with-the-list')

    def __init__(self, mod, cls, fn):
        self.fn = '%s:%s' % (mod, fn)
        self.call = 'containers(%r, %r)' % (mod, cls)
        self.bounded = ('exhaustive native enumeration on the %s.%s instances of a pool of 9 sequences (<= 6 items, 4 distinct items): every index array of length <= 3, every mask, '
                        'repeat 0..3 (also nested), products with 2 partners (also nested), chains with every pool member on either side, every slice' % (mod, cls))


def contracts():
    cs = [GetitemForms('Transforms', '2 IndexTransforms, 1 StructuredTransforms, 1 PlainTransforms, 1 DerivedTransforms, 1 UniformDerivedTransforms (classes deferring to the base class)'),
          GetitemForms('MaskedTransforms', '2 masked sequences (one over a reordered parent)'),
          GetitemForms('ReorderedTransforms', '2 reordered sequences (one over a masked parent)'),
          GetitemForms('ChainedTransforms', '3 chained sequences of 2-3 items (index, masked, reordered items)'),
          GetitemForms('EmptyTransforms', 'the empty sequence'),
          ChainFn()]
    for mod, base in (('elementseq', 'References'), ('pointsseq', 'PointsSequence')):
        cs += [Containers(mod, '_Uniform', '_Uniform.take'), Containers(mod, '_Take', '_Take.take'), Containers(mod, '_Repeat', '_Repeat.get'), Containers(mod, '_Product', '_Product.get'),
               Containers(mod, '_Plain', base + '.take')]
    return cs
