"""C17 (interning and canonical construction) -- contracts on the REAL bodies of

  types:argument_canonicalizer (+ its closure `canonicalize`), types:ImmutableMeta.__call__, types:Immutable.__new__,
  types:ImmutableMeta._new, types:SingletonMeta._new, types:Immutable.__reduce__, types:DataClassMeta.__call__,
  types:DataClass.__reduce__, types:_hashable_function_wrapper.__init__, types:hashable_function

All contracts here are *bounded in structure*: the signature shape, the spelling of the call (which arguments are
positional / keyword / left to their default) and the number of entries already in the intern table are fixed per
scenario; argument VALUES are symbolic (terms of an uninterpreted sort, compared with ==).  `inspect.Signature.bind`,
`BoundArguments.apply_defaults/.args/.kwargs/.arguments` are not modelled by hand: the REAL inspect module of the
checker's interpreter is run on the concrete call structure with the opaque values in place (the "bind axiom").

The intern tables are modelled as association lists keyed by tuples of values (a WeakValueDictionary whose values are all
alive): lifetimes / garbage collection are NOT modelled (outside the family, see NOT_COVERED of C17).
"""
import inspect
import z3
from pyvc.contract import Contract, State
from pyvc.values import SInt, SBool, SObj, SOpaque, STerm, Sym, Unsupported, PyRaise, BoundMethod, zint, zbool
from pyvc.ops import Builtin, ClassRef
from pyvc import ops

PROP = 'C17'
PyVal = z3.DeclareSort('PyVal')
P = inspect.Parameter


def val(cx, name):
    return STerm(cx.const(name, PyVal), label=name)


def same(a, b):
    """z3 Bool: two (nested tuples / dicts of) values are equal, structure compared concretely"""
    if isinstance(a, STerm) and isinstance(b, STerm):
        return a.term == b.term
    if isinstance(a, (tuple, list)) and isinstance(b, (tuple, list)):
        if type(a) is not type(b) or len(a) != len(b):
            return z3.BoolVal(False)
        return z3.And(*[same(x, y) for x, y in zip(a, b)]) if a else z3.BoolVal(True)
    if isinstance(a, dict) and isinstance(b, dict):
        if list(a) != list(b):  # insertion order is part of what bind produces
            return z3.BoolVal(False)
        return z3.And(*[same(a[k], b[k]) for k in a]) if a else z3.BoolVal(True)
    if isinstance(a, Sym) or isinstance(b, Sym):
        return z3.BoolVal(a is b)
    return z3.BoolVal(type(a) is type(b) and a == b)


class BoundV(Sym):
    def __init__(self, ba):
        self.ba = ba

    def getattr(self, ctx, name):
        if name == 'apply_defaults':
            return lambda ctx: self.ba.apply_defaults()
        if name == 'args':
            return self.ba.args
        if name == 'kwargs':
            return dict(self.ba.kwargs)
        if name == 'arguments':
            return dict(self.ba.arguments)
        raise Unsupported('BoundArguments.' + name)


class SigV(Sym):
    """inspect.Signature of concrete shape; bind is the real one"""

    def __init__(self, params):
        self.sig = inspect.Signature(params)

    def getattr(self, ctx, name):
        if name == 'bind':
            def bind(ctx, *args, **kwargs):
                ctx.used_axioms.add('inspect.Signature.bind / BoundArguments.apply_defaults, .args, .kwargs, .arguments: the real CPython inspect module run on the concrete call structure (values opaque)')
                try:
                    return BoundV(self.sig.bind(*args, **kwargs))
                except TypeError as e:
                    raise PyRaise('TypeError', note=str(e))
            return bind
        if name == 'parameters':
            return dict(self.sig.parameters)
        raise Unsupported('Signature.' + name)

    def truth(self, ctx):
        return True


class TableV(Sym):
    """intern table: association list of (key tuple, object); key lookup by == on the values (forks)"""

    def __init__(self, S, entries=()):
        self.S = S
        self.entries = list(entries)

    def find(self, ctx, key):
        for k, o in self.entries:
            r = ops.compare(ctx, '==', k, key)
            if ctx.branch(zbool(r)):
                return (k, o)
        return None

    def getattr(self, ctx, name):
        if name == 'get':
            def get(ctx, key, default=None):
                self.S.events.append(('lookup', key))
                hit = self.find(ctx, key)
                return hit[1] if hit else default
            return get
        raise Unsupported('WeakValueDictionary.' + name)

    def getitem(self, ctx, key):
        self.S.events.append(('lookup', key))
        hit = self.find(ctx, key)
        if hit is None:
            raise PyRaise('KeyError')
        return hit[1]

    def setitem(self, ctx, key, value):
        self.S.events.append(('store', key, value))
        for i, (k, o) in enumerate(self.entries):
            r = ops.compare(ctx, '==', k, key)
            if ctx.branch(zbool(r)):
                self.entries[i] = (k, value)
                return
        self.entries.append((key, value))

    def truth(self, ctx):
        return bool(self.entries)


class InstV(Sym):
    """an instance created by object.__new__(cls)"""

    def __init__(self, cls, tag='new'):
        self.cls, self.tag = cls, tag
        self.d = {}

    def getattr(self, ctx, name):
        if name == '__dict__':
            return self.d
        if name == '__class__':
            return self.cls
        if name in self.d:
            return self.d[name]
        im = self.cls.attrs.get('instance_methods', {})
        if name in im:
            return BoundMethod(self, im[name], name)
        if name == '__signature__':
            return self.cls.attrs['__signature__']
        raise PyRaise('AttributeError', note=name)

    def setattr(self, ctx, name, value):
        self.d[name] = value

    def pytype(self, ctx):
        return self.cls

    def truth(self, ctx):
        return True

    def __repr__(self):
        return 'InstV(%s)' % self.tag


class ObjectModel:
    def __init__(self, S):
        self.S = S

    def sym_getattr(self, ctx, name):
        if name == '__new__':
            def new(ctx, cls):
                o = InstV(cls, 'fresh%d' % len(self.S.created))
                self.S.created.append(o)
                self.S.events.append(('object.__new__', o))
                return o
            return new
        raise Unsupported('object.' + name)


class HashV(Sym):
    def __init__(self, of):
        self.of = of


class Base(Contract):
    prop = PROP
    fail = None  # name of the user hook that raises in this scenario

    def new_state(self, cx):
        S = State(events=[], created=[])
        S.globals = {'object': ObjectModel(S), 'hash': lambda ctx, x: HashV(x), 'sorted': sorted_items, 'inspect': InspectModel(), 'functools': FunctoolsModel(S)}
        return S

    def user_hook(self, S, name):
        """__init__ / __post_init__ of the user's class: records the call; raises ValueError in the failing scenario"""
        def hook(ctx, obj, *a, **k):
            S.events.append((name, obj, a, dict(k), dict(obj.d), [e for e in S.table.entries] if getattr(S, 'table', None) is not None else None))
            if self.fail == name:
                raise PyRaise('ValueError', note='user %s fails' % name)
            return None
        return hook

    def raises(self, cx, S, e):
        if self.fail and e.exc == 'ValueError':
            return self.raise_condition(cx, S, e)
        return False

    def raise_condition(self, cx, S, e):
        return True

    def replay(self, ob):
        import os
        here = os.path.dirname(os.path.dirname(os.path.abspath(__file__)))
        return "import sys; sys.path.insert(0, %r)\nfrom native import c17b\nc17b.%s()\n" % (here, self.replay_fn)


def sorted_items(ctx, it, **kw):
    """sorted() of (str key, value) pairs with pairwise distinct concrete keys: decided by the keys alone"""
    xs = ops.iterate(ctx, it)
    if not kw and all(isinstance(x, tuple) and len(x) == 2 and isinstance(x[0], str) for x in xs) and len(set(x[0] for x in xs)) == len(xs):
        ctx.used_axioms.add('sorted() of (name, value) pairs with pairwise distinct names: ordered by name (tuple comparison is lexicographic)')
        return sorted(xs, key=lambda x: x[0])
    from pyvc.interp import _sorted
    return _sorted(ctx, it, **kw)


class InspectModel:
    def sym_getattr(self, ctx, name):
        if name == 'getsource':
            def getsource(ctx, f):
                if isinstance(f, FuncV):
                    return f.source
                raise Unsupported('inspect.getsource(%r)' % (f,))
            return getsource
        raise Unsupported('inspect.' + name)


class FuncV(Sym):
    """a plain Python function object with a __dict__"""

    def __init__(self, name, source, d=None):
        self.name, self.source, self.d = name, source, dict(d or {})

    def truth(self, ctx):
        return True

    def call(self, ctx, args, kwargs):
        raise Unsupported('call of the wrapped function')


class FunctoolsModel:
    def __init__(self, S):
        self.S = S

    def sym_getattr(self, ctx, name):
        if name == 'update_wrapper':
            def update_wrapper(ctx, wrapper, wrapped, *a, **k):
                if a or k:
                    raise Unsupported('update_wrapper with explicit assigned/updated')
                ctx.used_axioms.add("functools.update_wrapper(w, f): copies __module__/__name__/__qualname__/__doc__ (and __type_params__), UPDATES w.__dict__ with f.__dict__, sets w.__wrapped__ = f")
                self.S.events.append(('update_wrapper', wrapper, wrapped))
                for attr in ('__module__', '__name__', '__qualname__', '__doc__'):
                    wrapper.d[attr] = SOpaque(attr)
                wrapper.d.update(wrapped.d)
                wrapper.d['__wrapped__'] = wrapped
                return wrapper
            return update_wrapper
        if name == 'partial':
            def partial(ctx, f, *a, **k):
                return PartialV(f, a, k)
            return partial
        raise Unsupported('functools.' + name)


class PartialV(Sym):
    def __init__(self, f, a, k):
        self.f, self.a, self.k = f, a, k

    def call(self, ctx, args, kwargs):
        kw = dict(self.k)
        kw.update(kwargs)
        return ctx.interp.call(self.f, list(self.a) + list(args), kw)

    def truth(self, ctx):
        return True


# ---------------------------------------------------------------------------------------------------------------------------
# signature shapes and spellings

def shape(cx, which, with_self):
    """returns (params, spellings, canonical): spellings = list of (args, kwargs) that all denote the same call;
    canonical = (positional tuple, keyword dict) that bind+apply_defaults must produce (without self)"""
    x, y, z, dflt, dflt2 = (val(cx, n) for n in ('x', 'y', 'z', 'default-of-c', 'default-of-k'))
    selfp = [P('self', P.POSITIONAL_OR_KEYWORD)] if with_self else []
    if which == 'abc':  # (a, b, c=default)
        params = selfp + [P('a', P.POSITIONAL_OR_KEYWORD), P('b', P.POSITIONAL_OR_KEYWORD), P('c', P.POSITIONAL_OR_KEYWORD, default=dflt)]
        sp = [((x, y), {}), ((x,), {'b': y}), ((), {'b': y, 'a': x}), ((x, y, dflt), {}), ((x, y), {'c': dflt}), ((), {'c': dflt, 'a': x, 'b': y})]
        return params, sp, ((x, y, dflt), {})
    if which == 'a*k':  # (a, b=default, *, k=default2): the docstring example of argument_canonicalizer
        params = selfp + [P('a', P.POSITIONAL_OR_KEYWORD), P('b', P.POSITIONAL_OR_KEYWORD, default=dflt), P('k', P.KEYWORD_ONLY, default=dflt2)]
        sp = [((x,), {}), ((x, dflt), {}), ((x,), {'k': dflt2}), ((), {'k': dflt2, 'b': dflt, 'a': x}), ((x,), {'b': dflt})]
        return params, sp, ((x, dflt), {'k': dflt2})
    if which == 'a**':  # (a, **kw)
        params = selfp + [P('a', P.POSITIONAL_OR_KEYWORD), P('kw', P.VAR_KEYWORD)]
        sp = [((x,), {'p': y, 'q': z}), ((x,), {'q': z, 'p': y}), ((), {'q': z, 'a': x, 'p': y})]
        return params, sp, ((x,), {'p': y, 'q': z})
    raise ValueError(which)


SHAPES = {'abc': 6, 'a*k': 5, 'a**': 3}


# ---------------------------------------------------------------------------------------------------------------------------

class Canonicalizer(Base):
    """argument_canonicalizer(signature)(*args, **kwargs) == (positional incl. defaults, keyword incl. defaults),
    the same for every spelling of the call"""
    fn = 'types:argument_canonicalizer'
    replay_fn = 'canonicalizer'

    def __init__(self, which, i):
        self.which, self.i = which, i
        self.label = 'signature(%s),spelling%d' % (which, i)
        self.bounded = 'signature shape %s, spelling %d of %d' % (which, i, SHAPES[which])

    def setup(self, cx):
        S = self.new_state(cx)
        params, S.spellings, S.canonical = shape(cx, self.which, False)
        S.sig = SigV(params)
        return S

    def body(self, cx, S, call):
        canon = call('types:argument_canonicalizer', S.sig)
        a, k = S.spellings[self.i]
        return cx.interp.call(canon, list(a), dict(k))

    def ensures(self, cx, S, result):
        ok = isinstance(result, tuple) and len(result) == 2
        if not ok:
            return [('canonical-arguments', z3.BoolVal(False))]
        pos, kw = result
        if not isinstance(kw, dict) or not isinstance(pos, tuple):
            return [('canonical-arguments', z3.BoolVal(False))]
        kw_sorted = dict(sorted(kw.items()))
        want_kw = dict(sorted(S.canonical[1].items()))
        return [('canonical-arguments', z3.And(same(pos, S.canonical[0]), same(kw_sorted, want_kw)))]


def immutable_class(cx, S, contract, call, which, singleton, prior=None):
    """class object of an Immutable/Singleton subclass whose __init__ has the given shape; every method is the REAL body"""
    params, S.spellings, S.canonical = shape(cx, which, True)
    canon = call('types:argument_canonicalizer', SigV(params))
    S.table = TableV(S, prior or ()) if singleton else None
    cls = SObj('UserClass', attrs={'_canonicalize': canon, 'instance_methods': {'__init__': contract.user_hook(S, '__init__')}})
    if singleton:
        cls.attrs['_cache'] = S.table
        cls.methods['_new'] = lambda ctx, c, *a: call('types:SingletonMeta._new', c, *a)
        cls.methods['super()._new'] = lambda ctx, c, *a: call('types:ImmutableMeta._new', c, *a)
    else:
        cls.methods['_new'] = lambda ctx, c, *a: call('types:ImmutableMeta._new', c, *a)
    # cls.__new__ is a plain function attribute (no binding): Immutable.__new__(*args, **kwargs) with args[0] = cls
    cls.attrs['__new__'] = lambda ctx, *a, **k: call('types:Immutable.__new__', *a, **k)
    S.cls = cls
    return cls


def canonical_args(S):
    pos, kw = S.canonical
    return tuple(pos) + (tuple(sorted(kw.items())),)


class ImmutableNew(Base):
    """Cls(<spelling i>) through ImmutableMeta.__call__ -> Immutable.__new__ -> _canonicalize -> ImmutableMeta._new:
    _args is the canonical positional form (defaults filled in, keyword-only arguments as a name-sorted tuple of pairs),
    __init__ receives exactly those, and two spellings of one call give equal _args."""
    fn = 'types:Immutable.__new__'
    replay_fn = 'immutable_args'

    def __init__(self, which, i, fail=False):
        self.which, self.i = which, i
        self.fail = '__init__' if fail else None
        self.expect_return = not fail
        self.label = 'init(%s),spelling0-and-%d%s' % (which, i, ',init-raises' if fail else '')
        self.bounded = 'signature shape %s, spellings 0 and %d of %d' % (which, i, SHAPES[which])

    def setup(self, cx):
        return self.new_state(cx)

    def body(self, cx, S, call):
        cls = immutable_class(cx, S, self, call, self.which, False)
        out = []
        for i in (0, self.i):
            a, k = S.spellings[i]
            out.append(call('types:ImmutableMeta.__call__', cls, *a, **k))
        return out

    def ensures(self, cx, S, result):
        o1, o2 = result
        want = canonical_args(S)
        inits = [e for e in S.events if e[0] == '__init__']
        init_ok = len(inits) == 2 and all(e[1] is o for e, o in zip(inits, result))
        init_args = z3.And(*[z3.And(same(tuple(e[2]), tuple(S.canonical[0])), same(dict(sorted(e[3].items())), dict(sorted(S.canonical[1].items())))) for e in inits]) if init_ok else z3.BoolVal(False)
        args_set_before_init = all('_args' in e[4] for e in inits)
        return [('args-canonical', same(o1.d.get('_args'), want)),
                ('spelling-independent', same(o1.d.get('_args'), o2.d.get('_args'))),
                ('init-receives-canonical-arguments', init_args),
                ('args-set-before-init', z3.BoolVal(init_ok and args_set_before_init)),
                ('hash-of-args', z3.BoolVal(all(isinstance(o.d.get('_hash'), HashV) and o.d['_hash'].of is o.d.get('_args') for o in result)))]


class SingletonNew(Base):
    """Singleton subclass, table with one live prior entry (key k0 of symbolic values, object o0):
      hit   (k0 == canonical args)  =>  the cached object, nothing constructed, nothing stored
      miss                          =>  exactly one construction via ImmutableMeta._new with the canonical args, stored
                                        under those args AFTER __init__ returned; the second, differently spelled call
                                        returns THE SAME object and constructs nothing
      __init__ raises               =>  the exception propagates and the table is unchanged"""
    fn = 'types:SingletonMeta._new'
    replay_fn = 'singleton_identity'

    def __init__(self, which, i, fail=False):
        self.which, self.i = which, i
        self.fail = '__init__' if fail else None
        self.label = 'init(%s),spelling0-then-%d%s' % (which, i, ',init-raises' if fail else '')
        self.bounded = 'signature shape %s, spellings 0 and %d of %d; table with one prior entry' % (which, i, SHAPES[which])

    def setup(self, cx):
        return self.new_state(cx)

    def body(self, cx, S, call):
        params, sp, canonical = shape(cx, self.which, True)
        pos, kw = canonical
        # prior entry: same structure as a canonical key, arbitrary values
        k0 = tuple(val(cx, 'prior-key.%d' % n) for n in range(len(pos))) + (tuple((name, val(cx, 'prior-key.' + name)) for name in sorted(kw)),)
        S.o0 = InstV(None, 'cached')
        S.o0.d['_args'] = k0
        S.k0 = k0
        cls = immutable_class(cx, S, self, call, self.which, True, prior=[(k0, S.o0)])
        S.o0.cls = cls
        out = []
        for n, i in enumerate((0, self.i)):
            a, k = S.spellings[i]
            S.events.append(('call', n))
            out.append(call('types:ImmutableMeta.__call__', cls, *a, **k))
        return out

    def split(self, S):
        ev = S.events
        cut = [n for n, e in enumerate(ev) if e == ('call', 1)]
        first = ev[:cut[0]] if cut else ev
        second = ev[cut[0]:] if cut else []
        return first, second

    def ensures(self, cx, S, result):
        o1, o2 = result
        want = canonical_args(S)
        first, second = self.split(S)
        created1 = [e for e in first if e[0] == 'object.__new__']
        stores1 = [e for e in first if e[0] == 'store']
        inits1 = [e for e in first if e[0] == '__init__']
        quiet2 = not [e for e in second if e[0] in ('object.__new__', 'store', '__init__')]
        hit = o1 is S.o0
        out = [('same-object', z3.BoolVal(o2 is o1)), ('second-call-constructs-nothing', z3.BoolVal(quiet2))]
        if hit:
            out.append(('hit-returns-cached', z3.And(same(S.k0, want), z3.BoolVal(not created1 and not stores1 and not inits1))))
        else:
            ok = len(created1) == 1 and created1[0][1] is o1 and len(stores1) == 1 and stores1[0][2] is o1 and len(inits1) == 1
            stored_after_init = ok and first.index(stores1[0]) > first.index(inits1[0])
            out.append(('miss-constructs-once-and-stores-after-init', z3.BoolVal(bool(stored_after_init))))
            out.append(('stored-under-canonical-args', z3.And(same(stores1[0][1], want), same(o1.d.get('_args'), want)) if ok else z3.BoolVal(False)))
            out.append(('miss-only-if-no-equal-key', z3.Not(same(S.k0, want))))
        return out

    def raise_condition(self, cx, S, e):
        return z3.BoolVal(len(S.table.entries) == 1 and S.table.entries[0][1] is S.o0 and not [x for x in S.events if x[0] == 'store'])


class Reduce(Base):
    """pickle round trip: f, args = obj.__reduce__(); f(*args) rebuilds through cls._new with the same canonical _args
    (for a Singleton: the very same object while it is alive)"""
    fn = 'types:Immutable.__reduce__'
    replay_fn = 'reduce_roundtrip'

    def __init__(self, which, singleton):
        self.which, self.singleton = which, singleton
        self.label = 'init(%s),%s' % (which, 'Singleton' if singleton else 'Immutable')
        self.bounded = 'signature shape %s' % which

    def setup(self, cx):
        return self.new_state(cx)

    def body(self, cx, S, call):
        cls = immutable_class(cx, S, self, call, self.which, self.singleton)
        a, k = S.spellings[1]
        obj = call('types:ImmutableMeta.__call__', cls, *a, **k)
        r = call('types:Immutable.__reduce__', obj)
        if not (isinstance(r, tuple) and len(r) == 2):
            raise Unsupported('__reduce__ returned %r' % (r,))
        S.reduced = r
        rebuilt = cx.interp.call(r[0], list(ops.iterate(cx, r[1])), {})
        return obj, rebuilt

    def ensures(self, cx, S, result):
        obj, rebuilt = result
        out = [('rebuilt-has-the-same-args', same(rebuilt.d.get('_args'), obj.d.get('_args')) if isinstance(rebuilt, InstV) else z3.BoolVal(False)),
               ('reduce-passes-canonical-args', same(S.reduced[1], canonical_args(S))),
               ('rebuilt-is-of-the-same-class', z3.BoolVal(isinstance(rebuilt, InstV) and rebuilt.cls is obj.cls))]
        if self.singleton:
            out.append(('rebuilt-is-the-same-object', z3.BoolVal(rebuilt is obj)))
        return out


# ---------------------------------------------------------------------------------------------------------------------------
# DataClassMeta.__call__

class DataClassCall(Base):
    """DataClassMeta.__call__ with table invariant "cache[k] was built from k"; one live prior entry (k0, o0):
      hit   => o0, no construction, no __post_init__, nothing stored
      miss  => fresh object whose __dict__ is exactly the canonical arguments (by name, defaults included), __post_init__
               called once AFTER the attributes are set and BEFORE the object is stored under the canonical positional
               key; the second, differently spelled call returns the same object and constructs nothing
      __post_init__ raises => propagates, table unchanged (a failed construction leaves nothing behind)"""
    fn = 'types:DataClassMeta.__call__'
    replay_fn = 'dataclass_interning'

    def __init__(self, i, fail=False):
        self.which, self.i = 'abc', i
        self.fail = '__post_init__' if fail else None
        self.label = 'fields(abc),spelling0-then-%d%s' % (i, ',post-init-raises' if fail else '')
        self.bounded = 'fields (a, b, c=default), spellings 0 and %d of %d; table with one prior entry' % (i, SHAPES['abc'])

    def setup(self, cx):
        S = self.new_state(cx)
        params, S.spellings, S.canonical = shape(cx, 'abc', False)
        S.k0 = tuple(val(cx, 'prior-key.%d' % n) for n in range(3))
        S.o0 = InstV(None, 'cached')
        S.o0.d.update(zip('abc', S.k0))
        S.table = TableV(S, [(S.k0, S.o0)])
        cls = SObj('UserDataClass', attrs={'__signature__': SigV(params), '__cache': S.table, '_DataClassMeta__cache': S.table,
                                           'instance_methods': {'__post_init__': self.user_hook(S, '__post_init__')}})
        S.o0.cls = cls
        S.cls = cls
        return S

    def body(self, cx, S, call):
        out = []
        for n, i in enumerate((0, self.i)):
            a, k = S.spellings[i]
            S.events.append(('call', n))
            out.append(call('types:DataClassMeta.__call__', S.cls, *a, **k))
        return out

    def ensures(self, cx, S, result):
        o1, o2 = result
        want = tuple(S.canonical[0])
        ev = S.events
        cut = ev.index(('call', 1))
        first, second = ev[:cut], ev[cut:]
        created1 = [e for e in first if e[0] == 'object.__new__']
        stores1 = [e for e in first if e[0] == 'store']
        posts1 = [e for e in first if e[0] == '__post_init__']
        quiet2 = not [e for e in second if e[0] in ('object.__new__', 'store', '__post_init__')]
        hit = o1 is S.o0
        out = [('same-object', z3.BoolVal(o2 is o1)), ('second-call-constructs-nothing', z3.BoolVal(quiet2))]
        if hit:
            out.append(('hit-returns-cached', z3.And(same(S.k0, want), z3.BoolVal(not created1 and not stores1 and not posts1))))
        else:
            ok = len(created1) == 1 and created1[0][1] is o1 and len(stores1) == 1 and stores1[0][2] is o1 and len(posts1) == 1 and posts1[0][1] is o1
            out.append(('miss-constructs-once-and-stores-after-post-init', z3.BoolVal(bool(ok and first.index(stores1[0]) > first.index(posts1[0])))))
            out.append(('stored-under-canonical-key', same(stores1[0][1], want) if ok else z3.BoolVal(False)))
            attrs = {k: v for k, v in o1.d.items()} if isinstance(o1, InstV) else None
            out.append(('attributes-are-the-canonical-arguments', same(attrs, dict(zip('abc', want))) if attrs is not None else z3.BoolVal(False)))
            out.append(('attributes-set-before-post-init', same(posts1[0][4], dict(zip('abc', want))) if ok else z3.BoolVal(False)))
            out.append(('miss-only-if-no-equal-key', z3.Not(same(S.k0, want))))
        return out

    def raise_condition(self, cx, S, e):
        return z3.BoolVal(len(S.table.entries) == 1 and S.table.entries[0][1] is S.o0 and not [x for x in S.events if x[0] == 'store'])


class DataClassReduce(Base):
    """DataClass.__reduce__: (type(self), field values in signature order); calling it again interns to the same object"""
    fn = 'types:DataClass.__reduce__'
    replay_fn = 'dataclass_interning'
    bounded = 'fields (a, b, c=default)'
    label = 'fields(abc)'

    def setup(self, cx):
        S = self.new_state(cx)
        params, S.spellings, S.canonical = shape(cx, 'abc', False)
        S.table = TableV(S, [])
        S.cls = SObj('UserDataClass', attrs={'__signature__': SigV(params), '__cache': S.table, '_DataClassMeta__cache': S.table,
                                             'instance_methods': {'__post_init__': self.user_hook(S, '__post_init__')}})
        S.globals['getattr'] = ops.py_getattr
        S.globals['type'] = ops.py_type
        return S

    def body(self, cx, S, call):
        a, k = S.spellings[2]
        obj = call('types:DataClassMeta.__call__', S.cls, *a, **k)
        r = call('types:DataClass.__reduce__', obj)
        if not (isinstance(r, tuple) and len(r) == 2):
            raise Unsupported('__reduce__ returned %r' % (r,))
        S.reduced = r
        if r[0] is not S.cls:
            raise Unsupported('__reduce__ callable is %r' % (r[0],))
        rebuilt = call('types:DataClassMeta.__call__', S.cls, *ops.iterate(cx, r[1]))
        return obj, rebuilt

    def ensures(self, cx, S, result):
        obj, rebuilt = result
        return [('reduce-passes-field-values-in-order', same(tuple(S.reduced[1]), tuple(S.canonical[0]))),
                ('rebuilt-is-the-same-object', z3.BoolVal(rebuilt is obj))]


# ---------------------------------------------------------------------------------------------------------------------------
# hashable_function

class WrapperInit(Base):
    """_hashable_function_wrapper.__init__: afterwards self.__nutils_hash__ is nutils_hash(('hashable_function', identifier))
    -- "based solely on the given identifier" (docstring of hashable_function) -- and __wrapped__ is the function."""
    fn = 'types:_hashable_function_wrapper.__init__'
    replay_fn = 'hashable_function_identifier'

    def __init__(self, wrapped_has_hash):
        self.wrapped_has_hash = wrapped_has_hash
        self.label = 'wrapped-function-carries-its-own-__nutils_hash__' if wrapped_has_hash else 'wrapped-function-without-__nutils_hash__'
        self.bounded = 'one wrapped function; its __dict__ %s' % ('contains __nutils_hash__ (e.g. an already decorated function)' if wrapped_has_hash else 'has one unrelated entry')

    def setup(self, cx):
        S = self.new_state(cx)
        S.hashed = []

        def nh(ctx, x):
            d = SOpaque('digest#%d' % len(S.hashed))
            S.hashed.append((x, d))
            return d
        S.globals['nutils_hash'] = nh
        S.identifier = val(cx, 'identifier')
        S.stale = SOpaque('hash-carried-by-the-wrapped-function')
        d = {'some_attribute': SOpaque('unrelated')}
        if self.wrapped_has_hash:
            d['__nutils_hash__'] = S.stale
        S.wrapped = FuncV('f', SOpaque('source'), d)
        S.self_ = InstV(SObj('_hashable_function_wrapper'), 'wrapper')
        return S

    def body(self, cx, S, call):
        call('types:_hashable_function_wrapper.__init__', S.self_, S.wrapped, S.identifier)
        return S.self_

    def ensures(self, cx, S, result):
        ok = len(S.hashed) == 1 and isinstance(S.hashed[0][0], tuple) and len(S.hashed[0][0]) == 2 and S.hashed[0][0][0] == 'hashable_function' and S.hashed[0][0][1] is S.identifier
        return [('hash-is-that-of-the-identifier', z3.BoolVal(bool(ok and result.d.get('__nutils_hash__') is S.hashed[0][1]))),
                ('wraps-the-function', z3.BoolVal(result.d.get('__wrapped__') is S.wrapped))]


class HashableFunction(Base):
    """hashable_function(identifier)(f) / hashable_function(f): the wrapper is built from (f, identifier) resp.
    (f, inspect.getsource(f))"""
    fn = 'types:hashable_function'
    replay_fn = 'hashable_function_identifier'

    def __init__(self, bare):
        self.bare = bare
        self.label = 'bare-decorator' if bare else 'with-identifier'
        self.bounded = 'one decorated function'

    def setup(self, cx):
        S = self.new_state(cx)
        S.made = []

        def construct(ctx, wrapped, identifier):
            S.made.append((wrapped, identifier))
            return SOpaque('wrapper')
        S.globals['_hashable_function_wrapper'] = ClassRef('_hashable_function_wrapper', construct=construct)
        S.globals['callable'] = lambda ctx, x: isinstance(x, FuncV)
        S.source = SOpaque('source-text')
        S.f = FuncV('f', S.source)
        S.identifier = val(cx, 'identifier')
        return S

    def body(self, cx, S, call):
        if self.bare:
            return call('types:hashable_function', S.f)
        deco = call('types:hashable_function', S.identifier)
        return cx.interp.call(deco, [S.f], {})

    def ensures(self, cx, S, result):
        want = S.source if self.bare else S.identifier
        return [('wrapper-built-from-function-and-identifier', z3.BoolVal(len(S.made) == 1 and S.made[0][0] is S.f and S.made[0][1] is want))]



# ---------------------------------------------------------------------------------------------------------------------------
# arraydata.__new__: canonical dtype

ArrVal = z3.DeclareSort('ArrayValues')  # the mathematical content of an array: its elements as numbers, in index order
ShapeT = z3.DeclareSort('Shape')
BytesT = z3.DeclareSort('ByteString')
CAST = z3.Function('astype_values', z3.IntSort(), ArrVal, ArrVal)  # (target dtype code, values) -> values after the cast
TOBYTES = z3.Function('tobytes', z3.IntSort(), ShapeT, ArrVal, BytesT)  # (dtype code, shape, values) -> C-order bytes
CANON = {'bool': 1, 'int': 2, 'float': 3, 'complex': 4}  # dtype codes of numpy.dtype(bool/int/float/complex)
PYTYPE_OF_KIND = {'b': 'bool', 'u': 'int', 'i': 'int', 'f': 'float', 'c': 'complex'}


class DTypeV(Sym):
    def __init__(self, kind, code):
        self.kind, self.code = kind, code

    def getattr(self, ctx, name):
        if name == 'kind':
            return self.kind
        raise Unsupported('dtype.' + name)

    def compare(self, ctx, op, other, reflected):
        if op in ('==', '!=') and isinstance(other, DTypeV):
            e = self.code == other.code
            return SBool(e if op == '==' else z3.Not(e))
        return NotImplemented


class ArrV(Sym):
    """numpy.ndarray as (dtype, shape, mathematical values)"""

    def __init__(self, S, kind, code, shape, values):
        self.S, self.dtype, self.shape, self.values = S, DTypeV(kind, code), shape, values

    def isinstance_(self, ctx, types):
        return False

    def getattr(self, ctx, name):
        if name == 'dtype':
            return self.dtype
        if name == 'shape':
            return STerm(self.shape)
        if name == 'astype':
            def astype(ctx, t, copy=True):
                tn = t.name if isinstance(t, Builtin) else None
                if tn not in CANON:
                    raise Unsupported('astype(%r)' % (t,))
                ctx.used_axioms.add('ndarray.astype(T): same shape, dtype numpy.dtype(T), values cast element by element; a cast to the dtype the array already has changes nothing')
                code = z3.IntVal(CANON[tn])
                out = ArrV(self.S, {'bool': 'b', 'int': 'i', 'float': 'f', 'complex': 'c'}[tn], code, self.shape, CAST(code, self.values))
                ctx.assume(z3.Implies(self.dtype.code == code, out.values == self.values))
                return out
            return astype
        if name == 'tobytes':
            def tobytes(ctx, order='C'):
                ctx.used_axioms.add('ndarray.tobytes(): a function of (dtype, shape, values) only')
                return STerm(TOBYTES(self.dtype.code, self.shape, self.values))
            return tobytes
        raise Unsupported('ndarray.' + name)


class EqAll(Sym):
    def __init__(self, a, b):
        self.a, self.b = a, b

    def getattr(self, ctx, name):
        if name == 'all':
            ctx.used_axioms.add('numpy.equal(a, b).all() for arrays of one shape: true iff the elements are equal as numbers')
            return lambda ctx: SBool(self.a.values == self.b.values)
        raise Unsupported('ndarray.' + name)


class ArrayNumpy:
    def sym_getattr(self, ctx, name):
        if name == 'asarray':
            ctx.used_axioms.add('numpy.asarray(x): x itself for an ndarray, else the array with the same shape and values (value-preserving)')
            return lambda ctx, x: x
        if name == 'equal':
            return lambda ctx, a, b: EqAll(a, b)
        raise Unsupported('numpy.' + name)


class ArrayDataNew(Base):
    """arraydata.__new__(cls, arg) for two arrays of one kind class (bool / signed+unsigned integer / float / complex)
    with the SAME shape and the SAME element values but arbitrary (possibly different, possibly canonical) dtypes:
      width-independent   both constructions hand identical (dtype, shape, bytes) to Singleton.__new__ -- so the two
                          arraydata objects are the same interned object with one nutils hash
      canonical-dtype     the dtype handed over is the Python type of the kind class, the bytes are those of the array cast to it
      no-silent-truncation  a normal return implies the cast preserved every value; ValueError is raised only if it did not
                          (or the kind is not one of b/u/i/f/c)"""
    fn = 'types:arraydata.__new__'
    replay_fn = 'arraydata_width'

    def __init__(self, k1, k2=None):
        self.k1, self.k2 = k1, k2 or k1
        self.label = 'kinds=%s,%s' % (self.k1, self.k2)
        self.bounded = 'two arrays (dtype kinds %s and %s) with a common shape and common element values' % (self.k1, self.k2)
        self.expect_return = k1 in PYTYPE_OF_KIND

    def setup(self, cx):
        S = self.new_state(cx)
        S.globals['numpy'] = ArrayNumpy()
        S.handed = []
        S.shape = cx.const('shape', ShapeT)
        S.values = cx.const('values', ArrVal)
        S.arrs = []
        for n, k in enumerate((self.k1, self.k2)):
            code = cx.int('dtype-code.%d' % n)
            if k in PYTYPE_OF_KIND:
                canon = CANON[PYTYPE_OF_KIND[k]]
                if k in 'bu':
                    cx.assume(code == canon if k == 'b' else code != canon)  # bool has one width; no unsigned dtype is the canonical int
                cx.assume(z3.And(*[code != c for name, c in CANON.items() if c != canon]))
            S.arrs.append(ArrV(S, k, code, S.shape, S.values))

        def supernew(ctx, cls, *a):
            S.handed.append(a)
            return InstV(cls, 'arraydata%d' % len(S.handed))
        S.cls = SObj('arraydata', methods={'super().__new__': supernew})
        return S

    def body(self, cx, S, call):
        out = []
        for arr in S.arrs:
            S.current = arr
            out.append(call('types:arraydata.__new__', S.cls, arr))
        return out

    def ensures(self, cx, S, result):
        if len(S.handed) != 2 or any(len(h) != 4 for h in S.handed):
            return [('width-independent', z3.BoolVal(False))]
        (c1, t1, s1, b1), (c2, t2, s2, b2) = S.handed
        tn = PYTYPE_OF_KIND[self.k1]
        code = z3.IntVal(CANON[tn])
        ok_types = isinstance(t1, Builtin) and isinstance(t2, Builtin) and t1.name == t2.name == tn and c1 is S.cls and c2 is S.cls
        if not (ok_types and all(isinstance(x, STerm) for x in (s1, s2, b1, b2))):
            return [('width-independent', z3.BoolVal(False))]
        return [('width-independent', z3.And(s1.term == s2.term, b1.term == b2.term)),
                ('canonical-dtype', z3.And(b1.term == TOBYTES(code, S.shape, S.values), s1.term == S.shape)),
                ('no-silent-truncation', z3.And(*[CAST(code, a.values) == a.values for a in S.arrs]))]

    def raises(self, cx, S, e):
        if e.exc != 'ValueError':
            return False
        a = S.current
        if a.dtype.kind not in PYTYPE_OF_KIND:
            return True
        code = z3.IntVal(CANON[PYTYPE_OF_KIND[a.dtype.kind]])
        return z3.And(a.dtype.code != code, CAST(code, a.values) != a.values)


class ArrayDataIdem(Base):
    """arraydata(x) for x already an arraydata: x itself"""
    fn = 'types:arraydata.__new__'
    label = 'argument-is-arraydata'
    bounded = 'one call'
    replay_fn = 'arraydata_width'

    def setup(self, cx):
        S = self.new_state(cx)
        S.globals['numpy'] = ArrayNumpy()
        S.cls = SObj('arraydata')
        S.x = SObj('arraydata-instance', classes=('arraydata',))
        S.x.isinstance_ = lambda ctx, types: S.cls in types
        S.args = (S.cls, S.x)
        return S

    def ensures(self, cx, S, result):
        return [('returned-as-is', z3.BoolVal(result is S.x))]



# ---------------------------------------------------------------------------------------------------------------------------
# consumer: solver.System.__nutils_hash__

class SystemHash(Base):
    """System.__nutils_hash__ hashes the tagged tuple ('System', trials, R) where R is the scalar functional for a
    symmetric system and the tuple of block residuals otherwise -- the data from which System.__init__ derives every other
    attribute (dtype, arguments, trial shapes, jacobians, is_linear ...; by reading __init__, not checked here).  A system
    that is not symmetric has no __value attribute (it is only set under `if self.is_symmetric`)."""
    fn = 'solver:System.__nutils_hash__'
    replay_fn = 'system_hash'

    def __init__(self, symmetric):
        self.symmetric = symmetric
        self.label = 'symmetric' if symmetric else 'residual-vector'
        self.bounded = 'one System object'

    def setup(self, cx):
        S = self.new_state(cx)
        S.hashed = []

        class Types:
            def sym_getattr(s, ctx, name):
                if name == 'nutils_hash':
                    def nh(ctx, x):
                        S.hashed.append(x)
                        return SOpaque('digest')
                    return nh
                raise Unsupported('types.' + name)
        S.globals['types'] = Types()
        S.trials, S.value, S.block = val(cx, 'trials'), val(cx, 'value'), val(cx, 'block_residual')
        S.self_ = InstV(SObj('System'), 'system')
        S.self_.d.update({'trials': S.trials, 'is_symmetric': self.symmetric, '__block_residual': S.block, '_System__block_residual': S.block})
        if self.symmetric:
            S.self_.d.update({'__value': S.value, '_System__value': S.value})
        S.args = (S.self_,)
        return S

    def ensures(self, cx, S, result):
        h = S.hashed[0] if len(S.hashed) == 1 else None
        ok = isinstance(h, tuple) and len(h) == 3 and h[0] == 'System' and h[1] is S.trials and h[2] is (S.value if self.symmetric else S.block)
        return [('hashes-tag-trials-and-residual-data', z3.BoolVal(bool(ok)))]


def contracts():
    cs = []
    for which, n in SHAPES.items():
        cs += [Canonicalizer(which, i) for i in range(n)]
        cs += [ImmutableNew(which, i) for i in range(1, n)]
        cs += [SingletonNew(which, i) for i in range(1, n)]
        cs += [Reduce(which, False), Reduce(which, True)]
    cs += [ImmutableNew('abc', 1, fail=True), SingletonNew('abc', 2, fail=True)]
    cs += [DataClassCall(i) for i in range(1, SHAPES['abc'])] + [DataClassCall(3, fail=True), DataClassReduce()]
    w = WrapperInit(True)  # failed on the pinned commit (update_wrapper overwrote the fresh hash); repaired by a fix: commit
    w.replay_fn = 'hashable_function_rewrap'
    cs += [WrapperInit(False), w, HashableFunction(True), HashableFunction(False)]
    cs += [ArrayDataNew('i'), ArrayDataNew('u', 'i'), ArrayDataNew('b'), ArrayDataNew('f'), ArrayDataNew('c'), ArrayDataNew('U'), ArrayDataIdem()]
    cs += [SystemHash(True), SystemHash(False)]
    return cs


# fails on the unchanged tree (candidate defect, notes/C17-ext.md): update_wrapper overwrites the freshly computed hash
PARKED = []
