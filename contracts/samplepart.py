"""C09 (index partition kernel) -- the getindex family of src/nutils/sample.py partitions range(npoints).

Class invariant PART(s) of a Sample s with s.nelems elements and s.npoints points:

    the arrays s.getindex(0), ..., s.getindex(s.nelems-1) are pairwise disjoint, free of repetitions, together cover
    range(s.npoints), and len(s.getindex(e)) is the number of points cnt(e) of element e.

Stated with ghost inverse functions (DESIGN 4.9): PART(s) holds iff there are elem_of, loc_of with

    H1  for 0 <= e < nelems, 0 <= k < cnt(e):  0 <= idx(e,k) < npoints,  elem_of(idx(e,k)) = e,  loc_of(idx(e,k)) = k
    H2  for 0 <= p < npoints:  0 <= elem_of(p) < nelems,  0 <= loc_of(p) < cnt(elem_of(p)),  idx(elem_of(p), loc_of(p)) = p

where idx(e,k) = s.getindex(e)[k]  (H1: (e,k) -> idx is injective = disjoint, no repetitions; H2: it is onto).

Every getindex body is executed symbolically for a SYMBOLIC element number (all nelems, npoints, point counts) in two
scenarios, each against the witness functions the contract derives from the property statement:

    element   ielem arbitrary in range; clauses: length = cnt'(ielem); the documented order of the points where the class
              documents one (contiguous blocks / p1*npoints2 + p2 / shift by npoints1 / take through the custom index);
              every index in range; elem_of'/loc_of' invert it  (H1 for the composite, at a Skolem position k)
    cover     p arbitrary in range(npoints); the body is run for ielem = elem_of'(p); clause: position loc_of'(p) of the
              result exists and holds p  (H2 for the composite)

Operands (`_sample1`, `_sample2`, `_parent`) are abstract samples whose getindex is ASSUMED to satisfy PART (modular
induction hypothesis over the nesting of sample classes, a meta-argument as in C11); every call of an operand's getindex
emits the callee precondition `operand-element-in-range` as an obligation.
"""
import os
import z3
from pyvc.contract import Contract, State
from pyvc.values import SInt, SBool, SObj, Sym, Unsupported, PyRaise, zint, is_intlike
from pyvc.nparr import Vec, Numpy, SList
from pyvc.ops import ClassRef
from pyvc import nparr, lemmas

PROP = 'C09'
I = z3.IntSort()
HERE = os.path.dirname(os.path.dirname(os.path.abspath(__file__)))


def fa(nvars, body, patterns=None):
    """forall over ints with optional E-matching patterns; expanded over 0..BOUND in refutation mode (like nparr.qforall)."""
    if nparr.BOUND is None:
        nparr._qn[0] += 1
        vs = [z3.Int('q%d!%d' % (nparr._qn[0], k)) for k in range(nvars)]
        if patterns is not None:
            return z3.ForAll(vs, body(*vs), patterns=patterns(*vs))
        return z3.ForAll(vs, body(*vs))
    import itertools
    return z3.And(*[body(*[z3.IntVal(x) for x in xs]) for xs in itertools.product(range(0, nparr.BOUND + 2), repeat=nvars)])


# ---- array models ------------------------------------------------------------------------------------------------------

class IdxVec(Vec):
    """1-D int array (pyvc Vec) that additionally supports the two numpy idioms the getindex bodies use:
    `v[:, None]` / `v[None, :]` (a column / a row, see Arr2) and unpacking `*v` / `slice(*v)` when its length is
    entailed to be a small constant by the path hypotheses."""

    def getitem(self, ctx, idx):
        if isinstance(idx, tuple) and len(idx) == 2:
            a, b = idx
            full = lambda s: isinstance(s, slice) and s.start is None and s.stop is None and s.step is None
            me = self
            if full(a) and b is None:
                return Arr2((self.n, z3.IntVal(1)), (False, True), lambda i, j: me.sel(i))
            if a is None and full(b):
                return Arr2((z3.IntVal(1), self.n), (True, False), lambda i, j: me.sel(j))
            raise Unsupported('2-d index %r of a 1-d array' % (idx,))
        r = super().getitem(ctx, idx)
        if type(r) is Vec:
            r = IdxVec(r.kind, r.n, r._sel, r.name, r.base)
        return r

    def iterate(self, ctx):
        for k in range(0, 5):
            if ctx.entails(self.n == k):
                return [SInt(self.sel(z3.IntVal(j))) for j in range(k)]
        raise Unsupported('iteration over an array whose length is not a known small constant')

    def isinstance_(self, ctx, types):
        return any(getattr(t, '__name__', None) in ('arraydata', 'ndarray') for t in types)

    def getattr(self, ctx, name):
        if name == '__len__':
            return lambda ctx: SInt(self.n)
        return super().getattr(ctx, name)


def fresh_idxvec(cx, name, n):
    a = z3.Array(cx.name(name), I, I)
    if nparr.BOUND is not None:
        w = 2 * nparr.BOUND + 2
        cx.assume(z3.And(n <= nparr.BOUND + 1, fa(1, lambda i: z3.And(z3.Select(a, i) >= -w, z3.Select(a, i) <= w))))
    return IdxVec('int', n, lambda i: z3.Select(a, i), name)


class Arr2(Sym):
    """2-D int array: shape (n0, n1), `one[d]` says that axis d has the literal length 1 (created by `None` in an index, so
    it broadcasts), sel(i, j).  Only what `(index1[:, None] * n + index2[None, :]).ravel()` needs."""

    def __init__(self, shape, one, sel):
        self.shape, self.one, self.sel = tuple(shape), tuple(one), sel

    def binop(self, ctx, op, other, reflected):
        f = {'+': lambda x, y: x + y, '-': lambda x, y: x - y, '*': lambda x, y: x * y}.get(op)
        if f is None:
            return NotImplemented
        if is_intlike(other):
            c, s = zint(other), self.sel
            return Arr2(self.shape, self.one, (lambda i, j: f(c, s(i, j))) if reflected else (lambda i, j: f(s(i, j), c)))
        if isinstance(other, Arr2):
            a, b = (other, self) if reflected else (self, other)
            shape, one, pa, pb = [], [], [], []
            for d in range(2):
                if a.one[d]:
                    shape.append(b.shape[d])
                elif b.one[d]:
                    shape.append(a.shape[d])
                elif z3.eq(a.shape[d], b.shape[d]):
                    shape.append(a.shape[d])
                else:
                    raise Unsupported('broadcast of two symbolic lengths')
                one.append(a.one[d] and b.one[d])
                pa.append(a.one[d])
                pb.append(b.one[d])
            z = z3.IntVal(0)
            return Arr2(shape, one, lambda i, j: f(a.sel(z if pa[0] else i, z if pa[1] else j), b.sel(z if pb[0] else i, z if pb[1] else j)))
        return NotImplemented

    def getattr(self, ctx, name):
        if name == 'ravel':
            n0, n1, s = self.shape[0], self.shape[1], self.sel
            # C order: flat position i*n1 + j holds element (i, j); for 0 <= q < n0*n1 that is (q div n1, q mod n1)
            return lambda ctx: IdxVec('int', z3.simplify(n0 * n1), lambda q: s(q / n1, q % n1), 'ravel')
        if name == 'shape':
            return (SInt(self.shape[0]), SInt(self.shape[1]))
        raise Unsupported('2-d array attribute ' + name)


def np_arange(ctx, *a):
    if len(a) == 1:
        start, stop = z3.IntVal(0), zint(a[0])
    elif len(a) == 2:
        start, stop = zint(a[0]), zint(a[1])
    else:
        raise Unsupported('numpy.arange with a step')
    return IdxVec('int', z3.If(stop > start, stop - start, 0), lambda i: start + i, 'arange')


def np_take(ctx, a, ind, **kw):
    if kw:
        raise Unsupported('numpy.take with axis/mode')
    if isinstance(a, Vec) and is_intlike(ind):
        return a.getitem(ctx, ind)
    if not (isinstance(a, Vec) and isinstance(ind, Vec) and ind.kind == 'int'):
        raise Unsupported('numpy.take of %r' % (a,))
    r = Vec.getitem(a, ctx, ind)  # out[k] = a[ind[k]]; IndexError unless every -len <= ind[k] < len
    return IdxVec(r.kind, r.n, r._sel, r.name)


def np_asarray(ctx, x, dtype=None):
    if isinstance(x, Vec):
        return x
    raise Unsupported('numpy.asarray of %r' % (x,))


def numpy_model():
    return Numpy(extra={'arange': np_arange, 'take': np_take, 'asarray': np_asarray})


class TypesStub:
    """nutils.types.frozenarray / arraydata keep the values of the array they wrap."""

    def sym_getattr(self, ctx, name):
        if name == 'frozenarray':
            return lambda ctx, x, copy=True, dtype=None: x
        if name == 'arraydata':
            return ClassRef('arraydata', construct=lambda ctx, x: x)
        raise Unsupported('types.' + name)


# ---- abstract operand ---------------------------------------------------------------------------------------------------

class PSample(SObj):
    """An abstract Sample: nelems, npoints, cnt(e) = len(getindex(e)), idx(e, k) = getindex(e)[k], with PART assumed."""

    def __init__(self, cx, name, part=True):
        self.pname = name
        ne, np_ = cx.int(name + '.nelems'), cx.int(name + '.npoints')
        cnt = z3.Function(name + '.cnt', I, I)
        idx = z3.Function(name + '.idx', I, I, I)
        EO = z3.Function(name + '.elem_of', I, I)
        LO = z3.Function(name + '.loc_of', I, I)
        self.ne, self.np, self.cnt, self.idx, self.EO, self.LO = ne, np_, cnt, idx, EO, LO
        cx.assume(z3.And(ne >= 0, np_ >= 0))
        b = nparr.BOUND
        if b is not None:
            cx.assume(z3.And(ne <= b + 1, np_ <= b + 1))
        cx.assume(fa(1, lambda e: z3.And(cnt(e) >= 0, cnt(e) <= b + 1) if b is not None else cnt(e) >= 0, lambda e: [cnt(e)]))
        if part:
            ax = 'PART(%s): getindex of the operand partitions range(npoints) (modular induction hypothesis, ghost inverses elem_of/loc_of)' % name
            cx.assume(fa(2, lambda e, k: z3.Implies(z3.And(0 <= e, e < ne, 0 <= k, k < cnt(e)),
                                                    z3.And(0 <= idx(e, k), idx(e, k) < np_, EO(idx(e, k)) == e, LO(idx(e, k)) == k)),
                         lambda e, k: [idx(e, k)]), axiom=ax)
            cx.assume(fa(1, lambda p: z3.Implies(z3.And(0 <= p, p < np_),
                                                 z3.And(0 <= EO(p), EO(p) < ne, 0 <= LO(p), LO(p) < cnt(EO(p)), idx(EO(p), LO(p)) == p)),
                         lambda p: [EO(p), LO(p)]))
        super().__init__('Sample', attrs=dict(nelems=SInt(ne), npoints=SInt(np_), spaces=('X' + name,), ndims=SInt(cx.int(name + '.ndims', report=False))), classes=('Sample',))
        self.methods['getindex'] = PSample._getindex

    def _getindex(ctx, self, e):
        if not is_intlike(e):
            raise Unsupported('operand getindex(%r)' % (e,))
        e = zint(e)
        # callee precondition (Sample.index calls getindex for range(nelems) only)
        ctx.oblige(ctx.name('pre:%s-element-in-range' % self.pname), z3.And(0 <= e, e < self.ne), kind='lemma')
        cnt, idx = self.cnt, self.idx
        return IdxVec('int', cnt(e), lambda k: idx(e, k), self.pname + '.getindex')


# ---- the generic PART contract ---------------------------------------------------------------------------------------

class Part(Contract):
    prop = PROP
    cls = None
    order_name = None
    method = 'getindex'

    def __init__(self, scenario):
        self.scenario = scenario
        self.fn = 'sample:%s.%s' % (self.cls, self.method)
        self.label = scenario

    def build(self, cx, S):
        """set S.me (the symbolic self), S.ne, S.np, S.cnt(e), S.EO(p), S.LO(p) and S.globals"""
        raise NotImplementedError

    def order(self, cx, S, e, k):
        return None

    def setup(self, cx):
        S = State()
        S.globals = {'numpy': numpy_model(), 'types': TypesStub()}
        self.build(cx, S)
        if self.scenario == 'element':
            e, k = cx.int('ielem'), cx.int('k')
            cx.assume(z3.And(0 <= e, e < S.ne))
            S.e, S.k = e, k
        elif self.scenario == 'cover':
            p = cx.int('p')
            cx.assume(z3.And(0 <= p, p < S.np))
            S.p, S.e = p, S.EO(p)
        else:
            raise ValueError(self.scenario)
        S.args = (S.me, SInt(S.e))
        return S

    def hints(self, cx, S, r):
        """[(name, formula)]: arithmetic facts that are emitted as obligations of their own (clause `arith:<name>`) AND
        offered as premises to the main clauses -- instantiation hints for nonlinear div/mod reasoning."""
        return []

    def ensures(self, cx, S, r):
        if not (isinstance(r, Vec) and r.kind == 'int'):
            raise Unsupported('getindex returned %r' % (r,))
        hs = self.hints(cx, S, r)
        h = [f for _, f in hs]
        imp = (lambda g: z3.Implies(z3.And(*h), g)) if h else (lambda g: g)
        pre = [('arith:' + nm, f) for nm, f in hs]
        if self.scenario == 'element':
            k, e = S.k, S.e
            inr = z3.And(0 <= k, k < r.n)
            v = r.sel(k)
            out = pre + [('length-is-point-count-of-element', imp(r.n == S.cnt(e)))]
            exp = self.order(cx, S, e, k)
            if exp is not None:
                out.append((self.order_name, imp(z3.Implies(inr, v == exp))))
            out.append(('index-in-range', imp(z3.Implies(inr, z3.And(0 <= v, v < S.np)))))
            out.append(('elem_of-loc_of-invert-index', imp(z3.Implies(inr, z3.And(S.EO(v) == e, S.LO(v) == k)))))
            return out
        l = S.LO(S.p)
        return pre + [('elem_of-in-range', imp(z3.And(0 <= S.e, S.e < S.ne))),
                ('every-point-is-covered', imp(z3.And(0 <= l, l < r.n, r.sel(l) == S.p)))]

    replay_kind = None

    def replay(self, ob):
        kind = self.replay_kind or self.cls
        return "import sys; sys.path.insert(0, %r)\nfrom native import c09\nc09.part(%r, %r)\n" % (HERE, kind, ob.clause)


def cumsum_invariant(cx, off, ne, cnt):
    """offsets = numpy.cumsum([0] + counts): off[0] = 0, off[e+1] = off[e] + cnt(e), cnt >= 0 (established by the contracts
    on `_DefaultIndex.offsets` / `_TakeElements._offsets`); L-MONO and L-ROW instances for it."""
    cx.assume(off.sel(z3.IntVal(0)) == 0)
    cx.assume(fa(1, lambda e: z3.Implies(z3.And(0 <= e, e < ne), z3.And(cnt(e) >= 0, off.sel(e + 1) == off.sel(e) + cnt(e)))),
              axiom='class invariant: offsets = numpy.cumsum([0] + [number of points of element e]) (proved by the contract on the offsets property)')
    lemmas.mono(cx, off)
    return lemmas.row_of(cx, off, tag=off.name)


# ---- _DefaultIndex ------------------------------------------------------------------------------------------------------

class DefaultIndexGet(Part):
    """_DefaultIndex.getindex(e) = arange(offsets[e], offsets[e+1]): contiguous blocks in element order ("strictly
    increasing", Sample.new docstring); PART with elem_of = the block a position falls in (L-ROW)."""
    cls = '_DefaultIndex'
    order_name = 'index-is-offset-plus-position'

    def build(self, cx, S):
        ne = cx.int('nelems')
        cx.assume(ne >= 0)
        cnt = z3.Function('cnt', I, I)
        off = fresh_idxvec(cx, 'offsets', ne + 1)
        row = cumsum_invariant(cx, off, ne, cnt)
        S.off, S.ne, S.np, S.cnt = off, ne, off.sel(ne), cnt
        S.EO = lambda p: row(p)
        S.LO = lambda p: p - off.sel(row(p))
        # class invariant of _TransformChainsSample.__init__: nelems = len(points), npoints = points.npoints = sum of the counts
        S.me = SObj('_DefaultIndex', attrs=dict(nelems=SInt(ne), npoints=SInt(S.np), offsets=off))

    def order(self, cx, S, e, k):
        return S.off.sel(e) + k


class OutOfRange(Contract):
    """getindex(ielem) for ielem outside range(nelems) raises IndexError (and never returns an array)."""
    prop = PROP
    expect_return = False
    allow_raises = {'IndexError': True}

    def __init__(self, base):
        self.base = base
        self.fn = base.fn
        self.label = 'out-of-range'

    def setup(self, cx):
        S = State()
        S.globals = {'numpy': numpy_model(), 'types': TypesStub()}
        self.base.build(cx, S)
        e = cx.int('ielem')
        cx.assume(z3.Or(e < 0, e >= S.ne))
        S.e = e
        S.args = (S.me, SInt(e))
        return S

    def ensures(self, cx, S, r):
        return [('out-of-range-element-raises-IndexError', z3.BoolVal(False))]

    def replay(self, ob):
        return "import sys; sys.path.insert(0, %r)\nfrom native import c09\nc09.part(%r, %r)\n" % (HERE, self.base.replay_kind or self.base.cls, 'out-of-range')


class PointsSeq(Sym):
    """self.points: a PointsSequence of symbolic length whose e-th item has cnt(e) points."""

    def __init__(self, n, cnt):
        self.n, self.cnt = n, cnt

    def seq_len(self, ctx):
        return self.n

    def seq_at(self, ctx, i):
        return SObj('Points', attrs=dict(npoints=SInt(self.cnt(i))))

    def length(self, ctx):
        return SInt(self.n)

    def iterate(self, ctx):
        raise Unsupported('iteration over a points sequence of symbolic length')


class Offsets(Contract):
    """offsets = cumsum([0] + [points of element e ...]): length nelems + 1, offsets[0] = 0, offsets[e+1] = offsets[e] + cnt(e)."""
    prop = PROP

    def __init__(self, cls, attr):
        self.cls, self.attr = cls, attr
        self.fn = 'sample:%s.%s' % (cls, attr)

    def setup(self, cx):
        S = State()
        S.globals = {'numpy': numpy_model(), 'types': TypesStub()}
        e = cx.int('e')
        S.e = e
        if self.cls == '_DefaultIndex':
            ne = cx.int('nelems')
            cx.assume(ne >= 0)
            if nparr.BOUND is not None:
                cx.assume(ne <= nparr.BOUND)
            cnt = z3.Function('cnt', I, I)
            S.ne, S.cnt = ne, (lambda i: cnt(i))
            S.me = SObj('_DefaultIndex', attrs=dict(points=PointsSeq(ne, cnt)))
        else:
            par = PSample(cx, 'parent', part=False)
            ne = cx.int('len(indices)')
            cx.assume(ne >= 0)
            if nparr.BOUND is not None:
                cx.assume(ne <= nparr.BOUND)
            ind = fresh_idxvec(cx, 'indices', ne)
            cx.assume(fa(1, lambda i: z3.Implies(z3.And(0 <= i, i < ne), z3.And(0 <= ind.sel(i), ind.sel(i) < par.ne))),
                      axiom='class invariant of _TakeElements: every entry of _indices is an element number of the parent (callers: Sample.take_elements)')
            S.ne, S.cnt = ne, (lambda i: par.cnt(ind.sel(i)))
            S.me = SObj('_TakeElements', attrs=dict(_parent=par, _indices=ind))
        S.args = (S.me,)
        return S

    def ensures(self, cx, S, r):
        if not (isinstance(r, Vec) and r.kind == 'int'):
            raise Unsupported('offsets returned %r' % (r,))
        e = S.e
        return [('length-is-nelems-plus-1', r.n == S.ne + 1),
                ('starts-at-0', r.sel(z3.IntVal(0)) == 0),
                ('step-is-point-count-of-element', z3.Implies(z3.And(0 <= e, e < S.ne), r.sel(e + 1) == r.sel(e) + S.cnt(e)))]

    def replay(self, ob):
        return "import sys; sys.path.insert(0, %r)\nfrom native import c09\nc09.part(%r, %r)\n" % (HERE, self.cls, 'offsets')


# ---- _TakeElements ------------------------------------------------------------------------------------------------------

class TakeElementsGet(Part):
    """_TakeElements.getindex(e) = arange(_offsets[e], _offsets[e+1]) with _offsets the cumulative point counts of the
    selected parent elements: contiguous blocks; number of points of element e = that of parent element _indices[e]."""
    cls = '_TakeElements'
    order_name = 'index-is-offset-plus-position'

    def build(self, cx, S):
        par = PSample(cx, 'parent', part=False)
        ne = cx.int('nelems')
        cx.assume(ne >= 1)  # constructor assert: indices.shape[0] > 0
        ind = fresh_idxvec(cx, 'indices', ne)
        cnt = lambda e: par.cnt(ind.sel(e))
        off = fresh_idxvec(cx, '_offsets', ne + 1)
        row = cumsum_invariant(cx, off, ne, cnt)
        S.off, S.ne, S.np, S.cnt = off, ne, off.sel(ne), cnt
        S.EO = lambda p: row(p)
        S.LO = lambda p: p - off.sel(row(p))
        # constructor: nelems = _indices.shape[0], npoints = _offsets[-1]  (checked by the constructor contract)
        S.me = SObj('_TakeElements', attrs=dict(nelems=SInt(ne), npoints=SInt(S.np), _offsets=off, _indices=ind, _parent=par))

    def order(self, cx, S, e, k):
        return S.off.sel(e) + k


# ---- _CustomIndex -------------------------------------------------------------------------------------------------------

class CustomIndexGet(Part):
    """_CustomIndex.getindex(e) = take(_index, parent.getindex(e)).  The constructor asserts only the SHAPE of _index
    (parent.npoints,); PART needs _index to be a permutation of range(npoints) -- the documented meaning of the `index`
    argument of Sample.new, unchecked by the code, assumed here with a ghost inverse."""
    cls = '_CustomIndex'
    order_name = 'index-is-custom-index-of-parent-index'

    def build(self, cx, S):
        par = PSample(cx, 'parent')
        index = fresh_idxvec(cx, '_index', par.np)  # constructor assert: index.shape == (parent.npoints,)
        inv = z3.Function('index.inverse', I, I)
        cx.assume(fa(1, lambda p: z3.Implies(z3.And(0 <= p, p < par.np), z3.And(0 <= index.sel(p), index.sel(p) < par.np, inv(index.sel(p)) == p)), lambda p: [index.sel(p)]),
                  axiom='precondition of Sample.new(index=...): the custom index is a permutation of range(npoints) (not checked by the constructor; ghost inverse)')
        cx.assume(fa(1, lambda q: z3.Implies(z3.And(0 <= q, q < par.np), z3.And(0 <= inv(q), inv(q) < par.np, index.sel(inv(q)) == q)), lambda q: [inv(q)]))
        S.par, S.index = par, index
        S.ne, S.np, S.cnt = par.ne, par.np, par.cnt
        S.EO = lambda q: par.EO(inv(q))
        S.LO = lambda q: par.LO(inv(q))
        S.me = SObj('_CustomIndex', attrs=dict(nelems=SInt(par.ne), npoints=SInt(par.np), _parent=par, _index=index))

    def order(self, cx, S, e, k):
        return S.index.sel(S.par.idx(e, k))


# ---- _Add -------------------------------------------------------------------------------------------------------------------

class AddGet(Part):
    """_Add.getindex: elements of sample1 first (unchanged), then those of sample2 with every index shifted by sample1.npoints."""
    cls = '_Add'
    order_name = 'index-of-operand-shifted-by-npoints1'

    def build(self, cx, S):
        s1, s2 = PSample(cx, 's1'), PSample(cx, 's2')
        S.s1, S.s2 = s1, s2
        S.ne, S.np = s1.ne + s2.ne, s1.np + s2.np
        S.cnt = lambda e: z3.If(e < s1.ne, s1.cnt(e), s2.cnt(e - s1.ne))
        S.EO = lambda p: z3.If(p < s1.np, s1.EO(p), s1.ne + s2.EO(p - s1.np))
        S.LO = lambda p: z3.If(p < s1.np, s1.LO(p), s2.LO(p - s1.np))
        S.me = SObj('_Add', attrs=dict(nelems=SInt(S.ne), npoints=SInt(S.np), _sample1=s1, _sample2=s2))

    def order(self, cx, S, e, k):
        s1, s2 = S.s1, S.s2
        return z3.If(e < s1.ne, s1.idx(e, k), s2.idx(e - s1.ne, k) + s1.np)


# ---- _Mul -------------------------------------------------------------------------------------------------------------------

class MulGet(Part):
    """_Mul.getindex: element e = e1*nelems2 + e2; its points are the pairs (k1, k2) in row-major order and pair
    (p1, p2) of operand point indices has the index p1*npoints2 + p2."""
    cls = '_Mul'
    order_name = 'index-is-p1*npoints2+p2-row-major'

    def build(self, cx, S):
        s1, s2 = PSample(cx, 's1'), PSample(cx, 's2')
        S.s1, S.s2 = s1, s2
        S.ne, S.np = s1.ne * s2.ne, s1.np * s2.np
        S.e1 = lambda e: e / s2.ne
        S.e2 = lambda e: e % s2.ne
        S.cnt = lambda e: s1.cnt(S.e1(e)) * s2.cnt(S.e2(e))
        S.EO = lambda q: s1.EO(q / s2.np) * s2.ne + s2.EO(q % s2.np)
        S.LO = lambda q: s1.LO(q / s2.np) * s2.cnt(s2.EO(q % s2.np)) + s2.LO(q % s2.np)
        S.me = SObj('_Mul', attrs=dict(nelems=SInt(S.ne), npoints=SInt(S.np), _sample1=s1, _sample2=s2))

    def order(self, cx, S, e, k):
        s1, s2 = S.s1, S.s2
        c2 = s2.cnt(S.e2(e))
        return s1.idx(S.e1(e), k / c2) * s2.np + s2.idx(S.e2(e), k % c2)

    def hints(self, cx, S, r):
        s1, s2 = S.s1, S.s2

        def divmod_of(a, b, n):  # L-DIVMOD instance: divmod(a*n + b, n) = (a, b) for 0 <= b < n
            return z3.Implies(z3.And(0 <= b, b < n), z3.And((a * n + b) / n == a, (a * n + b) % n == b))

        def decode(q, m, n):  # 0 <= q < m*n with m >= 0: q = (q div n)*n + q mod n with q div n < m
            return z3.Implies(z3.And(0 <= q, q < m * n, m >= 0, n >= 0), z3.And(n > 0, 0 <= q / n, q / n < m, 0 <= q % n, q % n < n, q == (q / n) * n + q % n))

        def encode(a, b, m, n):  # 0 <= a < m, 0 <= b < n: 0 <= a*n + b < m*n
            return z3.Implies(z3.And(0 <= a, a < m, 0 <= b, b < n), z3.And(0 <= a * n + b, a * n + b < m * n))
        if self.scenario == 'element':
            e, k = S.e, S.k
            E1, E2 = S.e1(e), S.e2(e)
            c1, c2 = s1.cnt(E1), s2.cnt(E2)
            a, b = s1.idx(E1, k / c2), s2.idx(E2, k % c2)
            return [('element-number-decodes', decode(e, s1.ne, s2.ne)),
                    ('position-decodes', decode(k, c1, c2)),
                    ('point-index-divmod', divmod_of(a, b, s2.np)),
                    ('point-index-in-range', encode(a, b, s1.np, s2.np)),
                    ('element-number-divmod', divmod_of(E1, E2, s2.ne)),
                    ('position-divmod', divmod_of(k / c2, k % c2, c2))]
        p = S.p
        p1, p2 = p / s2.np, p % s2.np
        E1, E2 = s1.EO(p1), s2.EO(p2)
        c1, c2 = s1.cnt(E1), s2.cnt(E2)
        return [('point-index-decodes', decode(p, s1.np, s2.np)),
                ('element-number-divmod', divmod_of(E1, E2, s2.ne)),
                ('element-number-in-range', encode(E1, E2, s1.ne, s2.ne)),
                ('position-divmod', divmod_of(s1.LO(p1), s2.LO(p2), c2)),
                ('position-in-range', encode(s1.LO(p1), s2.LO(p2), c1, c2))]


# ---- _Zip -------------------------------------------------------------------------------------------------------------------

class ZipGet(Part):
    """_Zip.getindex(e) = _indices[_offsets[e]:_offsets[e+1]], given the class invariant the constructor establishes with
    numpy.unique/argsort (ASSUMED, the constructor is not under contract): _offsets = cumsum([0, *sizes]) with
    _offsets[-1] = npoints, and _indices is a permutation of range(npoints)."""
    cls = '_Zip'
    order_name = 'index-is-slice-of-indices'

    def build(self, cx, S):
        ne, np_ = cx.int('nelems'), cx.int('npoints')
        cx.assume(z3.And(ne >= 0, np_ >= 0))
        sizes = z3.Function('sizes', I, I)
        off = fresh_idxvec(cx, '_offsets', ne + 1)
        row = cumsum_invariant(cx, off, ne, sizes)
        cx.assume(off.sel(ne) == np_, axiom='class invariant of _Zip (constructor, numpy.unique return_counts): the sizes add up to npoints')
        ind = fresh_idxvec(cx, '_indices', np_)
        inv = z3.Function('indices.inverse', I, I)
        cx.assume(fa(1, lambda p: z3.Implies(z3.And(0 <= p, p < np_), z3.And(0 <= ind.sel(p), ind.sel(p) < np_, inv(ind.sel(p)) == p)), lambda p: [ind.sel(p)]),
                  axiom='class invariant of _Zip (constructor, numpy.argsort): _indices is a permutation of range(npoints) (ghost inverse)')
        cx.assume(fa(1, lambda q: z3.Implies(z3.And(0 <= q, q < np_), z3.And(0 <= inv(q), inv(q) < np_, ind.sel(inv(q)) == q)), lambda q: [inv(q)]))
        S.off, S.ind, S.ne, S.np = off, ind, ne, np_
        S.cnt = lambda e: sizes(e)
        S.EO = lambda q: row(inv(q))
        S.LO = lambda q: inv(q) - off.sel(row(inv(q)))
        S.me = SObj('_Zip', attrs=dict(nelems=SInt(ne), npoints=SInt(np_), _offsets=off, _indices=ind))

    def order(self, cx, S, e, k):
        return S.ind.sel(S.off.sel(e) + k)


# ---- _Empty -----------------------------------------------------------------------------------------------------------------

class EmptyGet(Contract):
    """_Empty has no elements and no points: PART holds vacuously; getindex raises IndexError for every argument."""
    prop = PROP
    fn = 'sample:_Empty.getindex'
    expect_return = False
    allow_raises = {'IndexError': True}

    def setup(self, cx):
        S = State()
        S.globals = {'numpy': numpy_model(), 'types': TypesStub()}
        S.args = (SObj('_Empty', attrs=dict(nelems=SInt(0), npoints=SInt(0))), SInt(cx.int('ielem')))
        return S

    def ensures(self, cx, S, r):
        return [('no-element-exists:getindex-must-raise-IndexError', z3.BoolVal(False))]

    def replay(self, ob):
        return "import sys; sys.path.insert(0, %r)\nfrom native import c09\nc09.part('_Empty', 'getindex')\n" % HERE


def contracts():
    from contracts import samplector, sampleeval, sampleeval2
    return _contracts() + samplector.contracts() + sampleeval.contracts() + sampleeval2.contracts()


def _contracts():
    cs = []
    for cls in (DefaultIndexGet, TakeElementsGet, CustomIndexGet, AddGet, MulGet, ZipGet):
        cs += [cls('element'), cls('cover')]
    cs += [OutOfRange(DefaultIndexGet('element')), OutOfRange(TakeElementsGet('element')), EmptyGet()]
    cs += [Offsets('_DefaultIndex', 'offsets'), Offsets('_TakeElements', '_offsets')]
    return cs
