"""C04 (kernel) -- every entry of a Pointwise `deriv` table is the derivative of the operation's numpy meaning.

For each class C in evaluable.py with a `deriv` table and numpy meaning f (read from C._compile_expression), and each
argument k, a Lean 4 / Mathlib theorem is GENERATED from the current source:

    theorem deriv_C_k (x [y] : R) (domain hypotheses) : HasDerivAt (fun t => f(.. t ..)) ([[deriv_k]](x[,y])) x_k

where [[.]] translates the lambda's AST (Sin(x) -> Real.sin x, E ** astype(k, .) -> E ^ k, reciprocal -> inverse, sqrt,
Sign -> numpy's sign, +,-,*,/) mechanically.  The proof scripts are fixed text keyed by (class, argument); a changed
rule changes the statement and the script no longer proves it.  Lean gives no counterexample: on a failed proof a
failing input is searched natively (central differences against the real derivative expression).
"""
import ast, os, re, subprocess, time, json, shutil
import z3
from pyvc import extract
from pyvc.contract import Contract, ContractResult
from pyvc.core import Obligation

PROP = 'C04'
LEVEL = 'proof'
HERE = os.path.dirname(os.path.dirname(os.path.abspath(__file__)))

NUMPY_TO_LEAN = {'cos': 'Real.cos', 'sin': 'Real.sin', 'tan': 'Real.tan', 'arcsin': 'Real.arcsin', 'arccos': 'Real.arccos', 'arctan': 'Real.arctan',
                 'cosh': 'Real.cosh', 'sinh': 'Real.sinh', 'tanh': 'Real.tanh', 'exp': 'Real.exp', 'log': 'Real.log', 'minimum': 'min', 'maximum': 'max',
                 'arctanh': 'Real.artanh', 'arctan2': 'nparctan2'}

# domain of differentiability (hypothesis text) per class -- the property's "where the expression is differentiable"
DOMAIN = {'Tan': '(h : Real.cos x ≠ 0)', 'ArcSin': '(h1 : x ≠ -1) (h2 : x ≠ 1)', 'ArcCos': '(h1 : x ≠ -1) (h2 : x ≠ 1)', 'Log': '(h : 0 < x)',
          'Minimum': '(h : x ≠ y)', 'Maximum': '(h : x ≠ y)', 'ArcTanH': '(h1 : -1 < x) (h2 : x < 1)',
          'ArcTan2': '(hy : 0 < y)'}  # ArcTan2: the half plane y > 0 only (numpy.arctan2(x, y) = arctan(x / y) there); the other half planes are not proved

PRELUDE = '''import Mathlib
open Real
/-- numpy.sign on reals -/
noncomputable def npsign (t : ℝ) : ℝ := if 0 < t then 1 else if t < 0 then -1 else 0
theorem npsign_neg {t : ℝ} (h : t < 0) : npsign t = -1 := by
  have h2 : ¬ (0 < t) := by linarith
  simp [npsign, h, h2]
theorem npsign_pos {t : ℝ} (h : 0 < t) : npsign t = 1 := by simp [npsign, h]
/-- numpy.arctan2 on reals: the angle of the point (y, x) -/
noncomputable def nparctan2 (x y : ℝ) : ℝ :=
  if 0 < y then Real.arctan (x / y) else if 0 < x then π / 2 - Real.arctan (y / x)
  else if x < 0 then -(π / 2) - Real.arctan (y / x) else if y < 0 then π else 0
'''


def minmax_proof(fn, var, left_is_id):
    """fn in {min,max}; var 0: t ↦ fn t y at x; var 1: t ↦ fn x t at y.  left_is_id: on the branch x<y the function is the identity in t."""
    other = 'y' if var == 0 else 'x'
    at = 'x' if var == 0 else 'y'
    body = 'fn t y' if var == 0 else 'fn x t'
    body = body.replace('fn', fn)
    eq_lt = {('min', 0): 'min_eq_left ht.le', ('min', 1): 'min_eq_left ht.le', ('max', 0): 'max_eq_right ht.le', ('max', 1): 'max_eq_right ht.le'}[(fn, var)]
    eq_gt = {('min', 0): 'min_eq_right ht.le', ('min', 1): 'min_eq_right ht.le', ('max', 0): 'max_eq_left ht.le', ('max', 1): 'max_eq_left ht.le'}[(fn, var)]
    # case x < y
    if var == 0:
        nh_lt, nh_gt = 'gt_mem_nhds hlt', 'lt_mem_nhds hgt'
    else:
        nh_lt, nh_gt = 'lt_mem_nhds hlt', 'gt_mem_nhds hgt'
    # on x<y: min(t,y)=t (var0) ; min(x,t)=x (var1) ; max(t,y)=y (var0) ; max(x,t)=t (var1)
    id_on_lt = (fn == 'min' and var == 0) or (fn == 'max' and var == 1)
    lt_fun, lt_val, lt_der = ('(fun t => t)', '1', 'hasDerivAt_id %s' % at) if id_on_lt else ('(fun _ => %s)' % other, '0', 'hasDerivAt_const %s %s' % (at, other))
    gt_fun, gt_val, gt_der = ('(fun _ => %s)' % other, '0', 'hasDerivAt_const %s %s' % (at, other)) if id_on_lt else ('(fun t => t)', '1', 'hasDerivAt_id %s' % at)
    return '''  rcases lt_or_gt_of_ne h with hlt | hgt
  · have hs : npsign (x - y) = -1 := npsign_neg (by linarith)
    have hv : (DERIV) = %s := by rw [hs]; norm_num
    rw [hv]
    have ev : (fun t => %s) =ᶠ[nhds %s] %s := by
      filter_upwards [%s] with t ht using %s
    exact (%s).congr_of_eventuallyEq ev
  · have hs : npsign (x - y) = 1 := npsign_pos (by linarith)
    have hv : (DERIV) = %s := by rw [hs]; norm_num
    rw [hv]
    have ev : (fun t => %s) =ᶠ[nhds %s] %s := by
      filter_upwards [%s] with t ht using %s
    exact (%s).congr_of_eventuallyEq ev
''' % (lt_val, body, at, lt_fun, nh_lt, eq_lt, lt_der, gt_val, body, at, gt_fun, nh_gt, eq_gt, gt_der)


PROOFS = {
    ('Cos', 0): '  simpa using Real.hasDerivAt_cos x\n',
    ('Sin', 0): '  simpa using Real.hasDerivAt_sin x\n',
    ('Tan', 0): '  have := Real.hasDerivAt_tan h\n  convert this using 1\n  try field_simp\n  try ring\n',
    ('ArcSin', 0): '  have := Real.hasDerivAt_arcsin h1 h2\n  convert this using 1\n  simp\n',
    ('ArcCos', 0): '  have := Real.hasDerivAt_arccos h1 h2\n  convert this using 1\n  simp\n',
    ('ArcTan', 0): "  simpa using Real.hasDerivAt_arctan' x\n",
    ('CosH', 0): '  simpa using Real.hasDerivAt_cosh x\n',
    ('SinH', 0): '  simpa using Real.hasDerivAt_sinh x\n',
    ('TanH', 0): '''  have hc : Real.cosh x ≠ 0 := (Real.cosh_pos x).ne'
  have h : HasDerivAt (fun t => Real.sinh t / Real.cosh t) ((Real.cosh x * Real.cosh x - Real.sinh x * Real.sinh x) / (Real.cosh x)^2) x :=
    (Real.hasDerivAt_sinh x).div (Real.hasDerivAt_cosh x) hc
  have e : (fun t => Real.tanh t) = (fun t => Real.sinh t / Real.cosh t) := by
    funext t; exact Real.tanh_eq_sinh_div_cosh t
  rw [e]
  convert h using 1
  rw [Real.tanh_eq_sinh_div_cosh]
  try field_simp
  try ring
''',
    ('Exp', 0): '  simpa using Real.hasDerivAt_exp x\n',
    ('Log', 0): "  simpa using Real.hasDerivAt_log h.ne'\n",
    ('ArcTanH', 0): '''  have hpos1 : 0 < 1 + x := by linarith
  have hpos2 : 0 < 1 - x := by linarith
  have hq : HasDerivAt (fun t : ℝ => (1 + t) / (1 - t)) (((1:ℝ) * (1 - x) - (1 + x) * (-1)) / (1 - x)^2) x := by
    have a : HasDerivAt (fun t : ℝ => 1 + t) 1 x := by simpa using (hasDerivAt_id x).const_add 1
    have b : HasDerivAt (fun t : ℝ => 1 - t) (-1) x := by simpa using (hasDerivAt_id x).const_sub 1
    exact a.div b hpos2.ne'
  have hl : HasDerivAt (fun t : ℝ => (1/2:ℝ) * Real.log ((1 + t) / (1 - t))) ((1/2:ℝ) * ((((1:ℝ) * (1 - x) - (1 + x) * (-1)) / (1 - x)^2) / ((1 + x) / (1 - x)))) x :=
    (hq.log (div_pos hpos1 hpos2).ne').const_mul (1/2:ℝ)
  have ev : (fun t => Real.artanh t) =ᶠ[nhds x] (fun t : ℝ => (1/2:ℝ) * Real.log ((1 + t) / (1 - t))) := by
    filter_upwards [Ioo_mem_nhds h1 h2] with t ht
    exact Real.artanh_eq_half_log ⟨ht.1.le, ht.2.le⟩
  have hne : (1:ℝ) - x ^ (2:ℕ) ≠ 0 := by nlinarith
  have e : (DERIV) = (1/2:ℝ) * ((((1:ℝ) * (1 - x) - (1 + x) * (-1)) / (1 - x)^2) / ((1 + x) / (1 - x))) := by
    have a := hpos1.ne'
    have b := hpos2.ne'
    try field_simp
    try ring
  rw [e]
  exact hl.congr_of_eventuallyEq ev
''',
    ('ArcTan2', 0): '''  have ef : (fun t => nparctan2 t y) = (fun t => Real.arctan (t / y)) := by
    funext t; simp [nparctan2, hy]
  rw [ef]
  have hq : HasDerivAt (fun t : ℝ => t / y) (1 / y) x := by simpa using (hasDerivAt_id x).div_const y
  have hl := hq.arctan
  have hne : (x ^ (2:ℕ) + y ^ (2:ℕ)) ≠ 0 := by positivity
  have e : (DERIV) = (1 / (1 + (x / y) ^ 2)) * (1 / y) := by
    have b := hy.ne'
    try field_simp
    try ring
  rw [e]
  exact hl
''',
    ('ArcTan2', 1): '''  have ev : (fun t => nparctan2 x t) =ᶠ[nhds y] (fun t => Real.arctan (x / t)) := by
    filter_upwards [lt_mem_nhds hy] with t ht
    simp [nparctan2, ht]
  have hq : HasDerivAt (fun t : ℝ => x / t) (-x / y ^ 2) y := by
    have := (hasDerivAt_inv hy.ne').const_mul x
    simpa [div_eq_mul_inv, mul_comm, neg_div] using this
  have hl := hq.arctan
  have hne : (x ^ (2:ℕ) + y ^ (2:ℕ)) ≠ 0 := by positivity
  have e : (DERIV) = (1 / (1 + (x / y) ^ 2)) * (-x / y ^ 2) := by
    have b := hy.ne'
    try field_simp
    try ring
  rw [e]
  exact hl.congr_of_eventuallyEq ev
''',
    ('Minimum', 0): minmax_proof('min', 0, True), ('Minimum', 1): minmax_proof('min', 1, True),
    ('Maximum', 0): minmax_proof('max', 0, True), ('Maximum', 1): minmax_proof('max', 1, True),
}
CLASSES = ['Cos', 'Sin', 'Tan', 'ArcSin', 'ArcCos', 'ArcTan', 'CosH', 'SinH', 'TanH', 'ArcTanH', 'Exp', 'Log', 'ArcTan2', 'Minimum', 'Maximum']


class Untranslatable(Exception):
    pass


def numpy_name(cls):
    """numpy function a node class compiles to (from its _compile_expression)."""
    fn = extract.get('evaluable:%s._compile_expression' % cls)
    ret = [n for n in ast.walk(fn.node) if isinstance(n, ast.Return)][-1].value
    txt = ast.unparse(ret)
    m = re.match(r"_pyast\.Variable\('numpy'\)\.get_attr\('(\w+)'\)\.call\((\w+)(?:, (\w+))?\)$", txt)
    if not m:
        raise Untranslatable('%s compiles to %s' % (cls, txt))
    return m.group(1)


def lean_of(n, params):
    """Lean term of a deriv-lambda body."""
    if isinstance(n, ast.Name):
        if n.id in params:
            return n.id
        raise Untranslatable('name ' + n.id)
    if isinstance(n, ast.Constant) and isinstance(n.value, (int, float)):
        return '(%s:ℝ)' % repr(n.value)
    if isinstance(n, ast.UnaryOp) and isinstance(n.op, ast.USub):
        return '(-(%s))' % lean_of(n.operand, params)
    if isinstance(n, ast.BinOp):
        if isinstance(n.op, ast.Pow):
            e = n.right
            if isinstance(e, ast.Call) and ast.unparse(e.func) == 'astype' and isinstance(e.args[0], (ast.Constant, ast.UnaryOp)):
                k = ast.literal_eval(e.args[0])
                if isinstance(k, int):
                    return '((%s) ^ (%d:%s))' % (lean_of(n.left, params), k, 'ℕ' if k >= 0 else 'ℤ')
            raise Untranslatable('power ' + ast.unparse(n))
        op = {ast.Add: '+', ast.Sub: '-', ast.Mult: '*', ast.Div: '/'}.get(type(n.op))
        if op is None:
            raise Untranslatable(ast.unparse(n))
        return '(%s %s %s)' % (lean_of(n.left, params), op, lean_of(n.right, params))
    if isinstance(n, ast.Call):
        f = ast.unparse(n.func)
        if f == 'astype' and isinstance(n.args[0], (ast.Constant, ast.UnaryOp)):
            return '(%s:ℝ)' % ast.literal_eval(n.args[0])
        if f == 'reciprocal':
            return '(%s)⁻¹' % lean_of(n.args[0], params)
        if f == 'sqrt':
            return '(Real.sqrt %s)' % lean_of(n.args[0], params)
        if f == 'Sign':
            return '(npsign %s)' % lean_of(n.args[0], params)
        if f in CLASSES:
            try:
                lf = NUMPY_TO_LEAN[numpy_name(f)]
            except KeyError:
                raise Untranslatable('no Lean counterpart of ' + f)
            return '(%s %s)' % (lf, ' '.join(lean_of(a, params) for a in n.args))
    raise Untranslatable(ast.unparse(n))


def theorems():
    out = []
    for cls in CLASSES:
        try:
            tbl = extract.class_assign('evaluable', cls, 'deriv')
            f = NUMPY_TO_LEAN[numpy_name(cls)]
        except (extract.NotFound, Untranslatable, KeyError) as e:
            out.append(dict(cls=cls, k=0, error='cannot read the rule: %s' % e))
            continue
        if not isinstance(tbl, ast.Tuple):
            out.append(dict(cls=cls, k=0, error='deriv is not a tuple'))
            continue
        nargs = len(tbl.elts)
        params = ['x', 'y'][:nargs]
        for k, entry in enumerate(tbl.elts):
            try:
                if isinstance(entry, ast.Lambda):
                    ps = [a.arg for a in entry.args.args]
                    ren = dict(zip(ps, params))
                    body = ast.parse(ast.unparse(entry.body)).body[0].value
                    for node in ast.walk(body):
                        if isinstance(node, ast.Name) and node.id in ren:
                            node.id = ren[node.id]
                    d = lean_of(body, params)
                elif isinstance(entry, ast.Name):
                    d = '(%s %s)' % (NUMPY_TO_LEAN[numpy_name(entry.id)], ' '.join(params))
                else:
                    raise Untranslatable(ast.unparse(entry))
            except (Untranslatable, KeyError, extract.NotFound) as e:
                out.append(dict(cls=cls, k=k, error='cannot translate %s: %s' % (ast.unparse(entry), e)))
                continue
            args = ['t' if i == k else params[i] for i in range(nargs)]
            stmt = 'theorem deriv_%s_%d (%s : ℝ) %s : HasDerivAt (fun t => %s %s) (%s) %s := by\n' % (
                cls, k, ' '.join(params), DOMAIN.get(cls, ''), f, ' '.join(args), d, params[k])
            out.append(dict(cls=cls, k=k, stmt=stmt, deriv=d, rule=ast.unparse(entry), proof=PROOFS.get((cls, k), '  sorry\n').replace('DERIV', d)))
    return out


def run_lean(thms):
    build = os.path.join(HERE, 'build', 'lean-%d' % os.getpid())  # per-process: concurrent checks must not share the file
    os.makedirs(build, exist_ok=True)
    path = os.path.join(build, 'Deriv.lean')
    lines = PRELUDE.split('\n')
    spans = []
    for t in thms:
        if 'stmt' not in t:
            continue
        start = len(lines) + 1
        lines += (t['stmt'] + t['proof']).split('\n')
        spans.append((start, len(lines), t))
    open(path, 'w').write('\n'.join(lines) + '\n')
    t0 = time.time()
    try:
        p = subprocess.run(['lean', path], capture_output=True, text=True, timeout=1500, cwd=build)
        out = p.stdout + p.stderr
    except subprocess.TimeoutExpired:
        shutil.rmtree(build, ignore_errors=True)
        return None, 'lean timed out', time.time() - t0
    finally:
        pass
    shutil.rmtree(build, ignore_errors=True)
    errs = {}
    for m in re.finditer(r'Deriv\.lean:(\d+):(\d+): (error|warning): (.*)', out):
        ln, kind, msg = int(m.group(1)), m.group(3), m.group(4)
        if kind == 'error' or 'sorry' in msg:
            for a, b, t in spans:
                if a <= ln <= b:
                    errs.setdefault((t['cls'], t['k']), []).append('line %d: %s' % (ln - a + 1, msg[:200]))
            if ln < (spans[0][0] if spans else 0):
                errs.setdefault('prelude', []).append(msg[:200])
    return errs, out[-3000:], time.time() - t0


class DerivTable(Contract):
    prop = PROP
    fn = 'evaluable:Pointwise._derivative'
    label = 'deriv-tables'

    def decide(self):
        cr = ContractResult(self)
        cr.fn = extract.get(self.fn)
        thms = theorems()
        errs, out, secs = run_lean(thms)
        cr.seconds = secs
        cr.paths = len(thms)
        if errs is None or 'prelude' in (errs or {}):
            cr.status, cr.reason = 'undecided', 'Lean did not run: %s' % out[-500:]
            return cr
        nth = max(1, len(thms))
        for t in thms:
            key = 'evaluable:%s.deriv[%d]' % (t['cls'], t['k'])
            ob = Obligation('C04/%s/lean/HasDerivAt' % key, [], z3.BoolVal(True), 'lean', fn=key, clause='HasDerivAt', info={'rule': t.get('rule'), 'statement': t.get('stmt')})
            ob.contract = self
            ob.decided = True
            ob.seconds = secs / nth
            ob.backend = 'Lean 4.33 + Mathlib'
            if 'error' in t:
                ob.status, ob.output = 'unknown', t['error']
            elif (t['cls'], t['k']) in errs:
                ob.status = 'unknown'
                ob.output = 'Lean rejects the proof of the generated statement: ' + '; '.join(errs[(t['cls'], t['k'])])[:600]
                ob.lean_failed = True
            else:
                ob.status, ob.output = 'proved', ''
            ob.replay_script = "import sys; sys.path.insert(0, %r)\nfrom native import c04\nc04.check(%r, %d)\n" % (HERE, t['cls'], t['k'])
            ob.smt2 = lambda t=t: (t.get('stmt', '') + t.get('proof', ''))
            cr.obligations.append(ob)
        # a failed Lean proof is undecided unless a failing input is found natively
        from pyvc.report import run_native
        for ob in cr.obligations:
            if getattr(ob, 'lean_failed', False):
                rc, o, e = run_native(ob.replay_script, timeout=300)
                if 'REPLAY: VIOLATION-CONFIRMED' in o:
                    ob.status = 'refuted'
                    ob.model = {'native': o.strip().split('\n')[-2][:300] if len(o.strip().split('\n')) > 1 else o[:300]}
                    ob.output += ' | native finite-difference check: ' + o.strip()[-300:]
        return cr


def contracts():
    from contracts import C04b
    return [DerivTable()] + C04b.contracts()


TRUSTED = ['Lean 4.33 kernel + Mathlib (HasDerivAt lemmas for the elementary functions); the generated statement is the AST of the deriv lambda translated by contracts/C04.py',
           'numpy elementary functions equal their real counterparts on the reals; floats are reals; numpy.sign as defined in the prelude',
           'the chain rule plumbing of Pointwise._derivative (einsum of deriv_k with the derivative of argument k) is NOT proved']
ASSUMPTIONS = ['domains of differentiability per class as listed in contracts/C04.py (cos x != 0, x != +-1, x > 0, x != y)',
               'ArcTan2 only on the half plane y > 0; Sinc, Power, and all array-level _derivative methods are not covered']
NOT_COVERED = ['the chain rule through arrays (einsum plumbing), Multiply/Inverse/Determinant/Product/Polyval/LoopSum/Inflate/Take _derivative, WithDerivative targets, function._Derivative',
               'shape of the derivative, repeated differentiation, integer/boolean zero rule']
