"""C19 -- `_Substring.partition_scope` (strings of any length): `_find` by contract, the two lambda matchers by their MEANING.

The meaning of a matcher passed to `_find` is obtained by executing the real lambda on a generic non-empty tail (fresh position): the resulting term
is its definition M(position, end) (`tail[0] in ('(', '[', '{', '<')` becomes `If(is_open(base[p]), 1, 0)`); `_find`'s contract (class Find in
c19_substring) is then instantiated with these defined matchers.

Post: the five pieces tile the input; `open` is empty or one opening bracket, found at bracket level 0 with no level-0 opening bracket before it; `close` is
empty or one closing bracket, the first one that returns to level 0 counted from the opening bracket; without an opening bracket everything after the head is
empty; without a closing bracket the tail is empty.  (This is the contract parse_item / parse_power rely on.)
"""
import z3
from pyvc.contract import Contract, State
from pyvc.values import SInt, SBool, Unsupported, zint, zbool
from contracts.c19_text import Text, Sub, World, is_open, is_close, MOD
from contracts.c19_substring import Lang, tiles, native, PROP


class DefLang(Lang):
    """Lang whose matchers are defined functions (python callables (p, e) -> z3 Int) and whose depth function is shared"""

    def __init__(self, base, D, Ms):
        self.base, self.D, self.M = base, D, list(Ms)
        self.matchers = ()


def meaning_of(ctx, base, matcher, memo):
    """execute the matcher on a generic non-empty tail base[p:p+n] and return (p', e') -> z3 Int"""
    if id(matcher) in memo:
        return memo[id(matcher)]
    p, n = ctx.int('generic-tail.position', report=False), ctx.int('generic-tail.length', report=False)
    ctx.assume(z3.And(n >= 1, p >= 0), axiom='_find calls a matcher only on a non-empty tail (offset < len)')
    tail = Text(n, lambda i: base.sel(p + i), 'generic-tail', root=base, off=p)
    ctx.pure += 1
    ctx.pure_extra.append(z3.BoolVal(True))
    try:
        r = ctx.interp.call(matcher, [tail], {})
    finally:
        ctx.pure -= 1
        ctx.pure_extra.pop()
    if isinstance(r, bool):
        term = z3.IntVal(int(r))
    elif isinstance(r, SBool):
        term = z3.If(r.b, 1, 0)
    elif isinstance(r, (int, SInt)):
        term = zint(r)
    else:
        raise Unsupported('matcher returned %r' % (r,))
    f = lambda pp, ee: z3.substitute(term, (p, pp), (n, ee - pp))
    memo[id(matcher)] = f
    return f


def defined_find(S):
    def _find(ctx, s, *matchers):
        Ms = [meaning_of(ctx, S.W.base, m, S.memo) for m in matchers]
        lang = DefLang(S.W.base, S.D, Ms)
        S.langs.append((lang, s.a, s.b))
        im, off, ln = ctx.int('find.imatcher', report=False), ctx.int('find.offset', report=False), ctx.int('find.length', report=False)
        a, b = s.a, s.b
        lang.base_case(ctx, a)
        nf, f = lang.find_post(a, b, im, off, ln)
        ctx.assume(z3.Or(nf, z3.And(f, lang.matcher_range(a, b, off, ln))), axiom='contract of _Substring._find (class Find)')
        return (SInt(im), SInt(off), SInt(ln))
    return _find


class PartitionScope(Contract):
    prop = PROP
    fn = MOD + ':_Substring.partition_scope'

    def setup(self, cx):
        W = World(cx)
        me = W.sub(cx, 'self')
        S = State(W=W, me=me, a=me.a, b=me.b, args=(me,), globals=W.globals, memo={}, langs=[])
        S.D = z3.Function(cx.name('D'), z3.IntSort(), z3.IntSort(), z3.IntSort())
        W.overrides['_find'] = defined_find(S)
        return S

    def ensures(self, cx, S, r):
        h, o, sc, cl, t = r
        base = S.W.base
        if len(S.langs) != 2:
            raise Unsupported('expected two _find calls, saw %d' % len(S.langs))
        (L1, a1, b1), (L2, a2, b2) = S.langs
        i = o.a - S.a
        has_o, has_c = o.b > o.a, cl.b > cl.a
        no_open_before = lambda k: z3.Implies(z3.And(0 <= k, k < i), z3.Not(z3.And(L1.T(S.a, k) == 0, is_open(base.sel(S.a + k)))))
        from pyvc.nparr import qforall
        j = cl.a - o.a
        no_close_before = lambda k: z3.Implies(z3.And(0 <= k, k < j), z3.Not(z3.And(L2.T(o.a, k) == 0, is_close(base.sel(o.a + k)))))
        return [('pieces-tile-the-input', tiles(S, [h, o, sc, cl, t])),
                ('open-is-empty-or-one-opening-bracket', z3.Or(z3.Not(has_o), z3.And(o.b == o.a + 1, is_open(base.sel(o.a))))),
                ('close-is-empty-or-one-closing-bracket', z3.Or(z3.Not(has_c), z3.And(cl.b == cl.a + 1, is_close(base.sel(cl.a))))),
                ('without-opening-bracket-the-rest-is-empty', z3.Implies(z3.Not(has_o), z3.And(h.b == S.b, sc.a == sc.b, z3.Not(has_c), t.a == t.b))),
                ('without-closing-bracket-the-tail-is-empty', z3.Implies(z3.Not(has_c), t.a == t.b)),
                ('closing-bracket-only-after-an-opening-one', z3.Implies(has_c, has_o)),
                ('opening-bracket-is-the-first-at-level-0', z3.And(z3.Implies(has_o, L1.T(S.a, i) == 0), qforall(1, no_open_before))),
                ('closing-bracket-is-the-first-that-returns-to-level-0', z3.Implies(has_o, z3.And(z3.Implies(has_c, L2.T(o.a, j) == 0), qforall(1, no_close_before))))]

    def replay(self, ob):
        return native('partition_scope()')


def contracts():
    return [PartitionScope()]


TRUSTED = ['the meaning of a lambda matcher is the term obtained by executing it on a generic non-empty tail (partition_scope)']
ASSUMPTIONS = []
NOT_COVERED = []
