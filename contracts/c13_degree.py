"""C13 extension, part 4 -- `argument_degree` is an UPPER BOUND of the true polynomial degree (or the node declines).

Semantics (docstring of Evaluable.argument_degree): for a node x and an argument a, x is either polynomial in (the entries
of) a with a true degree tdeg(x) >= 0, or not polynomial.  x.argument_degree(a) returns n only if x is polynomial and
tdeg(x) <= n; otherwise it raises NotPolynomal.  A node that does not depend on a is constant in it: polynomial, degree 0.

One contract per `_argument_degree` rule of evaluable.py (the list is read from the source: a rule of a class without a
recorded meaning is UNDECIDED, never skipped):

  requires  every child c answers c.argument_degree(a) according to the wrapper contract (proved below for
            Evaluable.argument_degree): returns n >= 0 with  polynomial(c) and tdeg(c) <= n,  0 if c is independent of a,
            or raises NotPolynomal
  MEANING   the numpy meaning of the node as a fact about degrees (AXIOM per class, cross-checked numerically in
            native/axioms.py):   Multiply: deg(f g) <= deg f + deg g;  Add: deg(f + g) <= max;  Power with a constant scalar
            non-negative integer exponent p: deg(f^p) <= p deg f;  Argument: deg = 1;  Monomial: deg <= deg(values) + sum
            deg(args);  every other listed node is LINEAR in `func` as long as its other Array operands (indices, lengths,
            offsets -- read mechanically from the class's `Array`-annotated fields, plus the loop length) are independent
            of a:  deg(node) <= deg(func).  When such an operand depends on a nothing is known (the node may be
            non-polynomial).
  ensures   the rule returns None (the wrapper then raises), or an int n >= 0 with  polynomial(node) and tdeg(node) <= n
  raises    only NotPolynomal (propagated from a child)

Evaluable.argument_degree (the wrapper): returns 0 for an independent node, else what the rule returned, and raises
NotPolynomal exactly when the rule declined; with the rule contract this gives the wrapper contract used above
(structural induction over the DAG: meta-argument, as in C06).
"""
import ast
import z3
from pyvc.contract import Contract, State
from pyvc.values import SObj, SOpaque, SInt, SBool, SReal, Sym, Unsupported, PyRaise, zint
from pyvc.ops import ClassRef, Builtin
from pyvc import ops, extract
from contracts.C13 import PROP, _script

MODULE = 'evaluable'

# class -> kind of MEANING (the trusted table)
KIND = {
    'InsertAxis': 'linear', 'Transpose': 'linear', 'Sum': 'linear', 'TakeDiag': 'linear', 'Take': 'linear', 'Inflate': 'linear', 'Diagonalize': 'linear',
    'Ravel': 'linear', 'Unravel': 'linear', 'LoopSum': 'linear', 'LoopConcatenate': 'linear',
    'Multiply': 'product', 'Add': 'sum', 'Power': 'power', 'Argument': 'argument', 'Monomial': 'monomial', 'Evaluable': 'base',
}


def array_fields(clsname):
    """names of the fields annotated exactly `Array` of the class and of its bases in evaluable.py (mechanical)"""
    out = []
    seen = set()
    while clsname and clsname not in seen and clsname not in ('Array', 'Evaluable'):
        seen.add(clsname)
        try:
            c = extract.get_class(MODULE, clsname)
        except extract.NotFound:
            break
        out += [n.target.id for n in c.body if isinstance(n, ast.AnnAssign) and isinstance(n.target, ast.Name) and ast.unparse(n.annotation) == 'Array']
        clsname = next((b.id for b in c.bases if isinstance(b, ast.Name)), None)
    return out


class ArgSet(Sym):
    """x.arguments, observed only through `argument in x.arguments`"""

    def __init__(self, arg, dep):
        self.arg, self.dep = arg, dep

    def contains(self, ctx, item):
        if item is not self.arg:
            raise Unsupported('membership of another object in .arguments')
        return SBool(self.dep)


class Child:
    def __init__(self, cx, nm, arg, is_array=True):
        self.nm = nm
        self.dep = cx.bool(nm + '.depends-on-a')
        self.poly = cx.bool(nm + '.polynomial')
        self.t = cx.int(nm + '.true-degree')
        self.d = cx.int(nm + '.announced')
        self.returns = cx.bool(nm + '.argument_degree-returns')
        cx.assume(self.t >= 0)
        cx.assume(z3.Implies(z3.Not(self.dep), z3.And(self.poly, self.t == 0)), axiom='a node that does not depend on the argument is constant in it: polynomial of degree 0')
        self.arg = arg
        self.obj = SObj('Array', attrs={'arguments': ArgSet(arg, self.dep)}, classes=('Array',), methods={'argument_degree': self.argument_degree})

    def argument_degree(self, ctx, o, argument):
        if argument is not self.arg:
            raise Unsupported('argument_degree of another argument')
        # contract of Evaluable.argument_degree
        if not ctx.branch(self.returns):
            raise PyRaise('NotPolynomal', note=self.nm)
        ctx.assume(z3.And(self.poly, self.t <= self.d, self.d >= 0, z3.Implies(z3.Not(self.dep), self.d == 0)))
        return SInt(self.d)


class PVal(SReal):
    """the value of a scalar Constant"""

    def sym_int(self, ctx):
        return SInt(z3.ToInt(self.v))  # int() truncates; equal to floor for the non-negative values the rule has already selected

    def getattr(self, ctx, name):
        raise Unsupported('attribute %s of a constant value' % name)


class BuiltinsStub:
    def sym_getattr(self, ctx, name):
        return Builtin(name)


class Rule(Contract):
    prop = PROP
    bounded = None

    def __init__(self, clsname, variant=None):
        self.clsname = clsname
        self.fn = '%s:%s._argument_degree' % (MODULE, clsname)
        self.variant = variant
        self.label = variant
        self.kind = KIND.get(clsname)
        if self.kind == 'power':
            self.bounded = 'the simplified exponent is a Constant, a Cast of a Constant, or neither (at most one Cast)'
        if self.kind == 'monomial':
            self.bounded = 'a Monomial with %s args' % variant

    def raises(self, cx, S, e):
        return e.exc == 'NotPolynomal'

    def setup(self, cx):
        if self.kind is None:
            raise Unsupported('no degree meaning is recorded for class %s (contracts/c13_degree.py KIND)' % self.clsname)
        arg = SObj('Argument', attrs={}, classes=('Argument', 'Array'))
        poly, t = cx.bool('node.polynomial'), cx.int('node.true-degree')
        cx.assume(t >= 0)
        S = State(arg=arg, poly=poly, t=t)
        S.globals = {'builtins': BuiltinsStub()}
        attrs = {}
        kind = self.kind
        if kind == 'linear':
            fields = array_fields(self.clsname)
            if 'func' not in fields:
                raise Unsupported('class %s has no Array field `func`' % self.clsname)
            f = Child(cx, 'func', arg)
            aux = [Child(cx, n, arg) for n in fields if n != 'func']
            attrs = {'func': f.obj}
            attrs.update({c.nm: c.obj for c in aux})
            if self.clsname == 'LoopConcatenate':
                # call-site invariant (evaluable.loop_concatenate, the only constructor call): concat_length is computed from the loop length
                d = {c.nm: c for c in aux}
                cx.assume(z3.Implies(d['length'].dep, d['concat_length'].dep))
            cx.assume(z3.Implies(z3.And(f.poly, *[z3.Not(c.dep) for c in aux]), z3.And(poly, t <= f.t)),
                      axiom='%s is linear in func when its other Array operands (%s) do not depend on the argument: deg <= deg(func)' % (self.clsname, ', '.join(c.nm for c in aux) or 'none'))
        elif kind in ('product', 'sum'):
            f1, f2 = Child(cx, 'func1', arg), Child(cx, 'func2', arg)
            attrs = {'funcs': (f1.obj, f2.obj)}
            bound = f1.t + f2.t if kind == 'product' else z3.If(f1.t >= f2.t, f1.t, f2.t)
            cx.assume(z3.Implies(z3.And(f1.poly, f2.poly), z3.And(poly, t <= bound)),
                      axiom='deg(f g) <= deg f + deg g' if kind == 'product' else 'deg(f + g) <= max(deg f, deg g)')
        elif kind == 'power':
            f, p = Child(cx, 'func', arg), Child(cx, 'power', arg)
            pval = cx.real('exponent.value')
            nd = cx.int('exponent.ndim')
            cx.assume(nd >= 0)
            const = SObj('Constant', attrs={'value': PVal(pval), 'ndim': SInt(nd)}, classes=('Constant', 'Array'))
            if self.variant == 'constant':
                p2 = const
            elif self.variant == 'cast-of-constant':
                p2 = SObj('Cast', attrs={'arg': const, 'ndim': SInt(nd)}, classes=('Cast', 'Array'))
            else:
                p2 = SObj('Array', attrs={'ndim': SInt(nd)}, classes=('Array',))
            p.obj.attrs['simplified'] = SObj('Array', attrs={}, classes=('Array',))
            def unalign(ctx, x):
                if x is not p.obj.attrs['simplified']:
                    raise Unsupported('unalign of something else than self.power.simplified')
                return (p2, SOpaque('axes'))
            S.globals.update({'unalign': unalign, 'Cast': ClassRef('Cast'), 'Constant': ClassRef('Constant')})
            attrs = {'func': f.obj, 'power': p.obj}
            if self.variant in ('constant', 'cast-of-constant'):
                # AXIOM: .simplified, unalign and Cast keep the value: the exponent array is the scalar constant `pval` broadcast
                pi = z3.ToInt(pval)
                cx.assume(z3.Implies(z3.And(f.poly, z3.Not(p.dep), nd == 0, pval >= 0, z3.ToReal(pi) == pval), z3.And(poly, t <= pi * f.t)),
                          axiom='deg(f ** p) <= p deg f for a constant scalar non-negative integer exponent p (simplified/unalign/Cast preserve the value of the exponent)')
        elif kind == 'argument':
            cx.assume(z3.And(poly, t == 1), axiom='an Argument is the identity function of itself: degree 1')
            S.args = (arg, arg)
            return S
        elif kind == 'monomial':
            n = int(self.variant)
            v = Child(cx, 'values', arg)
            args = [Child(cx, 'args%d' % i, arg) for i in range(n)]
            attrs = {'values': v.obj, 'args': tuple(a.obj for a in args)}
            # call-site invariant: the index arrays of a Monomial are constants (evaluable.factor, Monomial._derivative)
            total = v.t
            for a in args:
                total = total + a.t
            cx.assume(z3.Implies(z3.And(v.poly, *[a.poly for a in args]), z3.And(poly, t <= total)),
                      axiom='Monomial = values times the gathered args (constant index arrays): deg <= deg(values) + sum of deg(args)')
        elif kind == 'base':
            S.args = (SObj('Evaluable', attrs={}), arg)
            return S
        me = SObj(self.clsname, attrs=attrs, classes=(self.clsname, 'Array'))
        S.args = (me, arg)
        return S

    def ensures(self, cx, S, result):
        if result is None:
            return [('declines-or-announces-an-upper-bound-of-the-true-degree', z3.BoolVal(True)), ('declines-only-with-cause', self.may_decline(cx, S))]
        if self.kind == 'base':
            return [('declines-or-announces-an-upper-bound-of-the-true-degree', z3.BoolVal(False))]
        if not isinstance(result, (int, SInt)) or isinstance(result, bool):
            raise Unsupported('rule returned %r' % (result,))
        n = zint(result)
        return [('declines-or-announces-an-upper-bound-of-the-true-degree', z3.And(S.poly, S.t <= n, n >= 0))]

    def may_decline(self, cx, S):
        return z3.BoolVal(True)

    def replay(self, ob):
        return _script('argument_degree_rules(%r)' % (self.clsname,))


class Wrapper(Contract):
    """Evaluable.argument_degree on top of a rule that satisfies the rule contract"""
    prop = PROP
    fn = 'evaluable:Evaluable.argument_degree'

    def setup(self, cx):
        arg = SObj('Argument', attrs={}, classes=('Argument', 'Array'))
        dep, poly, t = cx.bool('self.depends-on-a'), cx.bool('self.polynomial'), cx.int('self.true-degree')
        cx.assume(t >= 0)
        cx.assume(z3.Implies(z3.Not(dep), z3.And(poly, t == 0)), axiom='a node that does not depend on the argument is constant in it: polynomial of degree 0')
        declines, n = cx.bool('rule.declines'), cx.int('rule.result')
        S = State(dep=dep, poly=poly, t=t, declines=declines, n=n, called=[])

        def rule(ctx, o, argument):
            if argument is not arg:
                raise Unsupported('another argument')
            S.called.append(1)
            if ctx.branch(declines):
                return None
            ctx.assume(z3.And(poly, t <= n, n >= 0))  # the rule contract
            return SInt(n)
        me = SObj('Array', attrs={'arguments': ArgSet(arg, dep)}, classes=('Array',), methods={'_argument_degree': rule})
        S.args = (me, arg)
        return S

    def raises(self, cx, S, e):
        if e.exc == 'NotPolynomal':
            return z3.And(S.dep, S.declines, z3.BoolVal(len(S.called) == 1))
        return False

    def ensures(self, cx, S, result):
        if not isinstance(result, (int, SInt)) or isinstance(result, bool):
            raise Unsupported('argument_degree returned %r' % (result,))
        r = zint(result)
        return [('returned-degree-bounds-the-true-degree', z3.And(S.poly, S.t <= r, r >= 0)),
                ('zero-for-an-independent-node', z3.Implies(z3.Not(S.dep), r == 0)),
                ('passes-the-rule-result-on', z3.Implies(S.dep, z3.And(z3.Not(S.declines), r == S.n)))]

    def replay(self, ob):
        return _script('argument_degree_rules(None)')


def contracts():
    cs = [Wrapper()]
    for clsname, f in extract.classes_defining(MODULE, '_argument_degree'):
        kind = KIND.get(clsname)
        if kind == 'power':
            cs += [Rule(clsname, v) for v in ('constant', 'cast-of-constant', 'other')]
        elif kind == 'monomial':
            cs += [Rule(clsname, str(n)) for n in (0, 1, 2, 3)]
        else:
            cs.append(Rule(clsname))
    return cs
