"""Shared: row-major ravel arithmetic on integer IR nodes (ghost value of one fixed element)."""
import z3
from pyvc.values import zint
from contracts.C01 import IR


def ir(cx, name, lo=None):
    v = cx.int(name)
    if lo is not None:
        cx.assume(v >= lo)
    return IR(cx, name, v)


def rowmajor(idx_vals, len_vals):
    """sum_i idx_i * prod_{j>i} len_j  and  prod_j len_j"""
    flat = z3.IntVal(0)
    for i, x in enumerate(idx_vals):
        stride = z3.IntVal(1)
        for l in len_vals[i + 1:]:
            stride = stride * l
        flat = flat + x * stride
    size = z3.IntVal(1)
    for l in len_vals:
        size = size * l
    return flat, size
