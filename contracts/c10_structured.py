"""C10 -- StructuredTopology: integer bookkeeping on the axes (bounded: <= 3 axes, symbolic ranges incl. periodic).

The REAL bodies of topology.StructuredTopology.connectivity / boundary / interfaces / refined / slice_unchecked /
__init__ / periodic / __len__, Topology.slice, TransformChainsTopology.__init__, Topology.__init__,
DisjointUnionTopology.__init__ / refined, disjoint_union_topology and of transformseq.DimAxis / IntAxis / Axis
(intaxis, boundaries, refined, opposite, getitem, map, __len__) and StructuredTransforms.__len__ are executed on
axis objects whose i, j, mod, isperiodic are symbolic.  The NUMBER of axes and which of them are dimension axes is
fixed per contract (labels D, DD, DDD, ID, DI, DID: D = DimAxis, I = IntAxis) -- that is the bound.

connectivity   for every element e = (e_0..e_{n-1}) (row-major index ravel(e)) and every axis k:
                 connectivity[ravel(e)][2k]   = ravel(e + unit_k)  if e_k + 1 < n_k, else (periodic_k ? ravel(e with e_k = 0) : -1)
                 connectivity[ravel(e)][2k+1] = ravel(e - unit_k)  if e_k > 0,       else (periodic_k ? ravel(e with e_k = n_k-1) : -1)
               and it is symmetric: the row of the neighbour lists e at the opposite edge.
boundary       exactly two sides per non-periodic dimension axis (none for a periodic one), in axis order, the low side
               (IntAxis [i, i+1), side False) named first, the high side ([j-1, j), side True) second, all other axes
               untouched; names pair up with sides; the opposite transforms of a side are shifted one element OUT of the domain.
interfaces     one interface topology per dimension axis k; its transforms replace axis k by an IntAxis T (side True),
               its opposites by F (side False) with len T = len F = n_k - 1 + periodic_k and map_F(m) = map_T(m) + 1 (mod period):
               element e is paired with e + unit_k; every such pair is listed exactly once (m -> map_T(m) is a bijection onto
               the elements that have a neighbour); the count is sum_k (n_k - 1 + periodic_k) prod_{l != k} n_l.
refined        every axis doubled, nrefine + 1; boundary(refined(T)) = refined(boundary(T)) axis by axis, name by name.
slice          T.slice(start:stop, d): dimension axis d becomes [i+start, i+stop), never periodic; everything else untouched.
"""
import z3
from pyvc.contract import Contract, State
from pyvc.values import SInt, SBool, SObj, SOpaque, Sym, Unsupported, PyRaise, zint, zbool, pymod
from pyvc.ops import ClassRef
from pyvc import ops
from pyvc.interp import get_attribute
from contracts.c10_real import RObj, NdInt, Merged, NumpyNd, Stub, ALSO, run_real, ravel, product

PROP = 'C10'
BOUND = 'at most 3 axes (which of them are dimension axes is fixed per contract); ranges, periods, periodicity flags symbolic'

MRO = {
    'DimAxis': [('transformseq', 'DimAxis'), ('transformseq', 'Axis')],
    'IntAxis': [('transformseq', 'IntAxis'), ('transformseq', 'Axis')],
    'StructuredTransforms': [('transformseq', 'StructuredTransforms'), ('transformseq', 'Transforms')],
    'StructuredTopology': [('topology', 'StructuredTopology'), ('topology', 'TransformChainsTopology'), ('topology', 'Topology')],
    'TransformChainsTopology': [('topology', 'TransformChainsTopology'), ('topology', 'Topology')],
    'DisjointUnionTopology': [('topology', 'DisjointUnionTopology'), ('topology', 'TransformChainsTopology'), ('topology', 'Topology')],
    'EmptyTopology': [('topology', 'EmptyTopology'), ('topology', 'TransformChainsTopology'), ('topology', 'Topology')],
}


def z(x):
    if isinstance(x, SBool):
        return z3.If(x.b, 1, 0)
    if isinstance(x, bool):
        return z3.IntVal(int(x))
    return zint(x)


class Ref(Sym):
    """element.Reference reduced to its dimension (tensor product adds dimensions)"""

    def __init__(self, ndims):
        self.ndims = ndims

    def getattr(self, ctx, name):
        if name == 'ndims':
            return self.ndims
        raise Unsupported('Reference.' + name)

    def binop(self, ctx, op, other, reflected):
        if op == '*' and isinstance(other, Ref):
            return Ref(self.ndims + other.ndims)
        return NotImplemented

    def isinstance_(self, ctx, types):
        return any(getattr(t, '__name__', None) == 'Reference' for t in types)


class Refs(SObj):
    """elementseq.References reduced to (ndims, length)"""

    def __init__(self, ndims, n):
        SObj.__init__(self, 'References', attrs=dict(ndims=ndims), classes=('References',))
        self.n = n

    def length(self, ctx):
        return self.n

    def binop(self, ctx, op, other, reflected):
        if op == '+' and isinstance(other, Refs):
            return Refs(self.attrs['ndims'], ops.binop(ctx, '+', other.n if reflected else self.n, self.n if reflected else other.n))
        return NotImplemented


def _fold(op):
    def f(ctx, it):
        xs = ops.iterate(ctx, it)
        if not xs:
            raise PyRaise('TypeError', note='reduce() of empty iterable with no initial value')
        r = xs[0]
        for x in xs[1:]:
            r = ops.binop(ctx, op, r, x)
        return r
    return f


def _st_init(ctx, self, root, axes, nrefine):
    # stands in for StructuredTransforms.__init__ (child/edge transform tables are not modelled): the object IS its arguments
    self.attrs.update(_root=root, _axes=tuple(axes), _nrefine=nrefine, todims=get_attribute(ctx, root, 'todims'),
                      fromdims=sum(1 for a in axes if a.getattr(ctx, 'isdim')))


class Chain(SObj):
    def __init__(self, parts, todims, fromdims):
        SObj.__init__(self, 'ChainedTransforms', attrs=dict(todims=todims, fromdims=fromdims, _items=tuple(parts)), classes=('ChainedTransforms', 'Transforms'))

    def length(self, ctx):
        r = 0
        for p in self.attrs['_items']:
            r = ops.binop(ctx, '+', r, ops.length(ctx, p))
        return r


def make_globals(ctx):
    def cls(name, **kw):
        return ClassRef(name, construct=lambda ctx, *a, **k: RObj.construct(ctx, name, MRO[name], a, k, **kw))
    st_models = {('StructuredTransforms', '__init__'): _st_init}
    g = {
        'numpy': NumpyNd(),
        'types': Stub('types', frozenarray=lambda ctx, x, copy=True, dtype=None: x),
        'Integral': int, 'Sequence': (tuple, list),
        'map': lambda ctx, f, it: [ctx.interp.call(f, [x], {}) for x in ops.iterate(ctx, it)],
        'DimAxis': cls('DimAxis', closed=True), 'IntAxis': cls('IntAxis', closed=True),
        'StructuredTopology': cls('StructuredTopology'),
        'TransformChainsTopology': cls('TransformChainsTopology'),
        'DisjointUnionTopology': cls('DisjointUnionTopology'),
        'EmptyTopology': ClassRef('EmptyTopology', construct=lambda ctx, space, todims, fromdims: SObj('EmptyTopology', attrs=dict(space=space, ndims=fromdims, todims=todims), classes=('EmptyTopology', 'Topology'))),
        'Topology': ClassRef('Topology'),
        'References': ClassRef('References', attrs=dict(uniform=lambda ctx, ref, n: Refs(get_attribute(ctx, ref, 'ndims'), n))),
        'element': Stub('element', getsimplex=lambda ctx, n: Ref(n), Reference=ClassRef('Reference')),
        'util': Stub('util', product=_fold('*'), sum=_fold('+')),
        'disjoint_union_topology': lambda ctx, *a, **k: run_real(ctx, 'topology:disjoint_union_topology', a, k),
    }
    g['transformseq'] = Stub('transformseq', StructuredTransforms=ClassRef('StructuredTransforms', construct=lambda ctx, *a, **k: RObj.construct(ctx, 'StructuredTransforms', MRO['StructuredTransforms'], a, k, models=st_models)),
                             Axis=ClassRef('Axis'), Transforms=ClassRef('Transforms'),
                             chain=lambda ctx, items, todims, fromdims: Chain(ops.iterate(ctx, items), todims, fromdims))
    g['transform'] = Stub('transform', TransformItem=ClassRef('TransformItem'))
    return g


def mk_dim(i, j, mod, per):
    return RObj('DimAxis', MRO['DimAxis'], attrs=dict(i=SInt(i), j=SInt(j), mod=SInt(mod), isperiodic=SBool(per)), closed=True)


def mk_int(i, j, mod, ibound, side):
    return RObj('IntAxis', MRO['IntAxis'], attrs=dict(i=SInt(i), j=SInt(j), mod=SInt(mod), ibound=ibound, side=SBool(side) if not isinstance(side, bool) else side), closed=True)


class Axes:
    """symbolic axes of one configuration ('DID' ...): class invariants of DimAxis / IntAxis as StructuredTopology builds them"""

    def __init__(self, cx, config):
        self.config = config
        self.axes, self.i, self.j, self.mod, self.per, self.side, self.ibound = [], [], [], [], [], [], []
        nint = 0
        for k, c in enumerate(config):
            i, j, mod = cx.int('i%d' % k), cx.int('j%d' % k), cx.int('mod%d' % k)
            cx.assume(z3.And(0 <= i, i < j, z3.Or(mod == 0, j - i <= mod)))  # non-empty, and an axis does not wrap onto itself
            if c == 'D':
                per = cx.bool('isperiodic%d' % k)
                cx.assume(z3.If(per, z3.And(mod == j - i, i == 0), mod >= 0))  # a periodic axis spans exactly one period
                ax = mk_dim(i, j, mod, per)
                side, ib = None, None
            else:
                per = z3.BoolVal(False)
                side = cx.bool('side%d' % k)
                cx.assume(z3.And(mod >= 0, j == i + 1))  # a boundary side is one element thick
                ib = nint
                nint += 1
                ax = mk_int(i, j, mod, ib, side)
            self.axes.append(ax)
            self.i.append(i); self.j.append(j); self.mod.append(mod); self.per.append(per); self.side.append(side); self.ibound.append(ib)
        self.nint = nint
        self.dims = [k for k, c in enumerate(config) if c == 'D']
        self.n = [self.j[k] - self.i[k] for k in range(len(config))]


BNAMES = (('left', 'right'), ('bottom', 'top'), ('front', 'back'))


def mk_topo(cx, A, nrefine=None):
    """a StructuredTopology as its own __init__ leaves it (the real __init__ is executed)"""
    root = SObj('TransformItem', attrs=dict(todims=SInt(cx.int('todims'))), classes=('TransformItem',))
    nref = SInt(cx.int('nrefine')) if nrefine is None else nrefine
    if nrefine is None:
        cx.assume(zint(nref) >= 0)
    return root, nref


class _Base(Contract):
    prop = PROP
    bounded = BOUND
    max_paths = 400

    def __init__(self, config):
        self.config = config
        self.label = config

    def world(self, cx):
        A = Axes(cx, self.config)
        g = make_globals(cx)
        root, nref = mk_topo(cx, A)
        return State(A=A, root=root, nref=nref, globals=g)

    def topo(self, cx, S):
        """the real StructuredTopology.__init__ runs as part of the path (its assertions are obligations)"""
        return RObj.construct(cx, 'StructuredTopology', MRO['StructuredTopology'], ('X', S.root, tuple(S.A.axes), S.nref), dict(bnames=BNAMES))


def _axis_eq(a, i, j, mod, side=None, ibound=None, per=None):
    cs = [z(a.attrs['i']) == i, z(a.attrs['j']) == j, z(a.attrs['mod']) == mod]
    if side is not None:
        cs.append(z(a.attrs['side']) == side)
    if ibound is not None:
        cs.append(z(a.attrs['ibound']) == ibound)
    if per is not None:
        cs.append(z(a.attrs['isperiodic']) == per)
    return z3.And(*cs)


def _same_axis(a, b):
    if a is b:
        return z3.BoolVal(True)
    if a.clsname != b.clsname:
        return z3.BoolVal(False)
    keys = ('i', 'j', 'mod', 'isperiodic') if a.clsname == 'DimAxis' else ('i', 'j', 'mod', 'side', 'ibound')
    return z3.And(*[z(a.attrs[k]) == z(b.attrs[k]) for k in keys])


# ------------------------------------------------------------------------------------------------------ connectivity --

class Connectivity(_Base):
    fn = 'topology:StructuredTopology.connectivity'

    def setup(self, cx):
        S = self.world(cx)
        A = S.A
        S.e = [cx.int('e%d' % k) for k in range(len(A.dims))]
        for k, d in enumerate(A.dims):
            cx.assume(z3.And(0 <= S.e[k], S.e[k] < A.n[d]))
        return S

    def body(self, cx, S, call):
        S.topo = self.topo(cx, S)
        return call(self.fn, S.topo)

    def ensures(self, cx, S, r):
        A = S.A
        nd = len(A.dims)
        if not isinstance(r, Merged) or len(r.shape) != 2 or len(r.groups[0]) != nd or len(r.groups[1]) != 2:
            raise Unsupported('connectivity returned %r' % (r,))
        n = [A.n[d] for d in A.dims]
        per = [A.per[d] for d in A.dims]
        e = S.e
        N = product(n)
        out = [('shape', z3.And(r.shape[0] == N, r.shape[1] == 2 * nd))]
        right, left, sym = [], [], []
        col = lambda c: [z3.IntVal(c // 2), z3.IntVal(c % 2)]  # column c of the (N, 2n) table is entry (c // 2, c % 2) of the merged (n, 2) axes
        for k in range(nd):
            up = [e[l] + 1 if l == k else e[l] for l in range(nd)]
            wrap0 = [z3.IntVal(0) if l == k else e[l] for l in range(nd)]
            dn = [e[l] - 1 if l == k else e[l] for l in range(nd)]
            wrapn = [n[k] - 1 if l == k else e[l] for l in range(nd)]
            has_up, has_dn = e[k] + 1 < n[k], e[k] > 0
            nb_up = [z3.If(has_up, a, b) for a, b in zip(up, wrap0)]   # the neighbour's multi-index where it exists
            nb_dn = [z3.If(has_dn, a, b) for a, b in zip(dn, wrapn)]
            c_up = r.sel_multi(e, col(2 * k))
            c_dn = r.sel_multi(e, col(2 * k + 1))
            ex_up, ex_dn = z3.Or(has_up, per[k]), z3.Or(has_dn, per[k])
            right.append(c_up == z3.If(ex_up, ravel(nb_up, n), -1))
            left.append(c_dn == z3.If(ex_dn, ravel(nb_dn, n), -1))
            # the neighbour's row lists e at the opposite edge
            sym.append(z3.Implies(ex_up, r.sel_multi(nb_up, col(2 * k + 1)) == ravel(e, n)))
            sym.append(z3.Implies(ex_dn, r.sel_multi(nb_dn, col(2 * k)) == ravel(e, n)))
        out += [('neighbour-at-edge-2k', z3.And(*right)), ('neighbour-at-edge-2k+1', z3.And(*left)), ('symmetric', z3.And(*sym))]
        return out

    def replay(self, ob):
        return _replay('connectivity(%r, %r)' % (self.config, ob.model))


# ---------------------------------------------------------------------------------------------------------- boundary --

def _parts(topo):
    """(sub-topologies, names) of what boundary / interfaces return"""
    if isinstance(topo, RObj) and topo.clsname == 'DisjointUnionTopology':
        return list(topo.attrs['_topos']), list(topo.attrs['_names'])
    if isinstance(topo, SObj) and topo.clsname == 'EmptyTopology':
        return [], []
    if isinstance(topo, RObj):
        return [topo], [None]
    raise Unsupported('returned %r' % (topo,))


def _st_axes(tr):
    if not (isinstance(tr, RObj) and tr.clsname == 'StructuredTransforms'):
        raise Unsupported('transforms are %r' % (tr,))
    return list(tr.attrs['_axes'])


class Boundary(_Base):
    fn = 'topology:StructuredTopology.boundary'

    def setup(self, cx):
        return self.world(cx)

    def body(self, cx, S, call):
        S.topo = self.topo(cx, S)
        return call(self.fn, S.topo)

    def ensures(self, cx, S, r):
        A = S.A
        parts, names = _parts(r)
        # which dimension axes are periodic is decided on this path (the comprehension filters fork): read it back
        nonper = [k for k in A.dims if cx.entails(z3.Not(A.per[k]))]
        if any(not cx.entails(A.per[k]) for k in A.dims if k not in nonper):
            raise Unsupported('periodicity not decided on this path')
        out = [('two-sides-per-non-periodic-axis', z3.BoolVal(len(parts) == 2 * len(nonper)))]
        if len(parts) != 2 * len(nonper):
            return out
        sides, others, meta, opp, nm = [], [], [], [], []
        for q, k in enumerate(nonper):
            for s in (0, 1):
                t = parts[2 * q + s]
                if not (isinstance(t, RObj) and t.clsname == 'StructuredTopology'):
                    raise Unsupported('boundary part %r' % (t,))
                ax = list(t.attrs['axes'])
                if len(ax) != len(A.axes) or ax[k].clsname != 'IntAxis':
                    sides.append(z3.BoolVal(False))
                    continue
                lo, hi = (A.i[k], A.i[k] + 1) if s == 0 else (A.j[k] - 1, A.j[k])
                sides.append(_axis_eq(ax[k], lo, hi, A.mod[k], side=s, ibound=A.nint))
                others.append(z3.And(*[_same_axis(ax[l], A.axes[l]) for l in range(len(ax)) if l != k]))
                meta.append(z3.And(z(t.attrs['nrefine']) == zint(S.nref), z3.BoolVal(t.attrs['root'] is S.root), z3.BoolVal(t.attrs['_bnames'] == BNAMES and t.attrs['space'] == 'X')))
                # the opposite transforms of a boundary side: the same axes with the NEW side shifted one element out of the domain
                oax = _st_axes(t.attrs['opposites'])
                olo, ohi = (lo - 1, hi - 1) if s == 0 else (lo + 1, hi + 1)
                opp.append(z3.And(_axis_eq(oax[k], olo, ohi, A.mod[k], side=1 - s, ibound=A.nint), *[_same_axis(oax[l], _st_axes(t.attrs['transforms'])[l]) for l in range(len(oax)) if l != k],
                                  *[_same_axis(a, b) for a, b in zip(_st_axes(t.attrs['transforms']), ax)]))
                nm.append(z3.BoolVal(2 * q + s < len(names) and names[2 * q + s] == BNAMES[k][s]))
        out += [('side-low-then-high-at-the-ends', z3.And(*sides)), ('other-axes-untouched', z3.And(*others)), ('root-nrefine-names-kept', z3.And(*meta)),
                ('opposite-is-outside', z3.And(*opp)), ('names-pair-with-sides', z3.And(*nm, z3.BoolVal(len(names) == len(parts))))]
        return out

    def replay(self, ob):
        return _replay('boundary(%r, %r)' % (self.config, ob.model))


# -------------------------------------------------------------------------------------------------------- interfaces --

def mp(a, k, mod):
    """Axis.map: position k of axis a is the element (a.i + k) mod period (period 0 = no wrap); proved for the real body in C11"""
    v = z(a.attrs['i']) + k
    return z3.If(mod != 0, pymod(v, z3.If(mod == 0, 1, mod)), v)


def congruent(x, y, mod):
    return z3.If(mod != 0, pymod(x - y, z3.If(mod == 0, 1, mod)) == 0, x == y)


class Interfaces(_Base):
    fn = 'topology:StructuredTopology.interfaces'

    def setup(self, cx):
        S = self.world(cx)
        A = S.A
        S.m, S.m2, S.p = {}, {}, {}
        for k in A.dims:
            S.m[k], S.m2[k], S.p[k] = cx.int('m%d' % k), cx.int('mm%d' % k), cx.int('p%d' % k)
        cx.format_hook = lambda fmt, a, k: fmt.format(*a, **k) if not ops.has_sym(a) and not k else SOpaque('str')
        return S

    def body(self, cx, S, call):
        S.topo = self.topo(cx, S)
        return call(self.fn, S.topo)

    def ensures(self, cx, S, r):
        A = S.A
        parts, names = _parts(r)
        nd = len(A.dims)
        out = [('one-interface-topology-per-dimension-axis', z3.BoolVal(len(parts) == nd and names == ['dir%d' % q for q in range(nd)]))]
        if len(parts) != nd:
            return out
        repl, lens, nbr, once, cnt = [], [], [], [], []
        total = z3.IntVal(0)
        for q, k in enumerate(A.dims):
            t = parts[q]
            if not (isinstance(t, RObj) and t.clsname == 'TransformChainsTopology'):
                raise Unsupported('interface part %r' % (t,))
            tax, oax = _st_axes(t.attrs['transforms']), _st_axes(t.attrs['opposites'])
            if len(tax) != len(A.axes) or len(oax) != len(A.axes) or tax[k].clsname != 'IntAxis' or oax[k].clsname != 'IntAxis':
                repl.append(z3.BoolVal(False))
                continue
            T, F = tax[k], oax[k]
            mod, per = A.mod[k], z3.If(A.per[k], 1, 0)
            repl.append(z3.And(z(T.attrs['side']) == 1, z(F.attrs['side']) == 0, z(T.attrs['ibound']) == A.nint, z(F.attrs['ibound']) == A.nint,
                               z(T.attrs['mod']) == mod, z(F.attrs['mod']) == mod,
                               *[z3.BoolVal(tax[l] is A.axes[l] and oax[l] is A.axes[l]) for l in range(len(tax)) if l != k],
                               z3.BoolVal(t.attrs['transforms'].attrs['_root'] is S.root and t.attrs['opposites'].attrs['_root'] is S.root),
                               z(t.attrs['transforms'].attrs['_nrefine']) == zint(S.nref), z(t.attrs['opposites'].attrs['_nrefine']) == zint(S.nref)))
            lt, lf = z(T.attrs['j']) - z(T.attrs['i']), z(F.attrs['j']) - z(F.attrs['i'])
            lens.append(z3.And(lt == lf, lt == A.n[k] - 1 + per))
            m, m2, p = S.m[k], S.m2[k], S.p[k]
            inr = lambda v: z3.And(0 <= v, v < lt)
            # the m-th interface in direction k lies between element map_T(m) and its neighbour map_T(m) + 1
            once.append(('pairs-element-with-neighbour-axis%d' % k, z3.Implies(inr(m), congruent(mp(F, m, mod), mp(T, m, mod) + 1, mod))))
            # m -> map_T(m) is one-to-one, and onto the positions p of axis k that have a neighbour at p + 1
            has = z3.And(0 <= p, p < A.n[k], z3.Or(p + 1 < A.n[k], A.per[k]))
            w = z3.If(A.per[k], z3.If(p + 1 < A.n[k], p + 1, 0), p)  # the witness: which interface that is
            once.append(('no-pair-twice-axis%d' % k, z3.Implies(z3.And(inr(m), inr(m2), mp(T, m, mod) == mp(T, m2, mod)), m == m2)))
            once.append(('every-pair-listed-axis%d' % k, z3.Implies(has, z3.And(inr(w), congruent(mp(T, w, mod), A.i[k] + p, mod)))))
            others = product([A.n[l] for l in range(len(A.axes)) if l != k])
            cnt.append(zint(t.attrs['references'].n) == (A.n[k] - 1 + per) * others)
            total = total + (A.n[k] - 1 + per) * others
        cnt.append(zint(r.attrs['references'].n) == total)
        out += [('axis-k-replaced-by-interface-axes', z3.And(*repl)), ('equal-lengths', z3.And(*lens)),
                ('count', z3.And(*cnt))] + once
        return out

    def replay(self, ob):
        return _replay('interfaces(%r, %r)' % (self.config, ob.model))


# ----------------------------------------------------------------------------------------------------------- refined --

def _topo_axes(t):
    if not (isinstance(t, RObj) and t.clsname == 'StructuredTopology'):
        raise Unsupported('not a StructuredTopology: %r' % (t,))
    return list(t.attrs['axes'])


class Refined(_Base):
    fn = 'topology:StructuredTopology.refined'

    def setup(self, cx):
        return self.world(cx)

    def body(self, cx, S, call):
        S.topo = self.topo(cx, S)
        return call(self.fn, S.topo)

    def ensures(self, cx, S, r):
        A = S.A
        ax = _topo_axes(r)
        if len(ax) != len(A.axes):
            return [('every-axis-doubled', z3.BoolVal(False))]
        dbl, kinds = [], []
        for k, a in enumerate(ax):
            kinds.append(z3.BoolVal(a.clsname == A.axes[k].clsname))
            if a.clsname != A.axes[k].clsname:
                continue
            if a.clsname == 'DimAxis':
                # element p of the coarse axis is refined into elements 2p, 2p+1: the range [i, j) becomes [2i, 2j)
                dbl.append(_axis_eq(a, 2 * A.i[k], 2 * A.j[k], 2 * A.mod[k], per=z3.If(A.per[k], 1, 0)))
            else:
                # a boundary/interface side keeps its side: the low side [i, i+1) of [i, j) is the low side [2i, 2i+1) of [2i, 2j), the high side [j-1, j) becomes [2j-1, 2j)
                sd = z3.If(A.side[k], 1, 0)
                dbl.append(_axis_eq(a, 2 * A.i[k] + sd, 2 * A.i[k] + sd + 1, 2 * A.mod[k], side=sd, ibound=A.ibound[k]))
        shape = [zint(x) for x in r.attrs['shape']]
        return [('every-axis-doubled', z3.And(*kinds, *dbl)), ('nrefine-incremented', z(r.attrs['nrefine']) == zint(S.nref) + 1),
                ('root-space-names-kept', z3.BoolVal(r.attrs['root'] is S.root and r.attrs['space'] == 'X' and r.attrs['_bnames'] == BNAMES)),
                ('shape-doubled', z3.And(z3.BoolVal(len(shape) == len(A.dims)), *[sh == 2 * A.n[k] for sh, k in zip(shape, A.dims)]))]

    def replay(self, ob):
        return _replay('refined(%r, %r)' % (self.config, ob.model))


class RefinedBoundary(_Base):
    """boundary(refined(T)) == refined(boundary(T)): the same sides, with the same axes, under the same names"""
    fn = 'topology:StructuredTopology.refined'
    label_suffix = 'commutes-with-boundary'

    def __init__(self, config):
        _Base.__init__(self, config)
        self.label = config + ',commutes-with-boundary'

    def setup(self, cx):
        return self.world(cx)

    def body(self, cx, S, call):
        S.topo = self.topo(cx, S)
        fine = call('topology:StructuredTopology.refined', S.topo)
        b_fine = call('topology:StructuredTopology.boundary', fine)
        b_coarse = call('topology:StructuredTopology.boundary', S.topo)
        if isinstance(b_coarse, RObj) and b_coarse.clsname == 'DisjointUnionTopology':
            ref = call('topology:DisjointUnionTopology.refined', b_coarse)
        elif isinstance(b_coarse, RObj) and b_coarse.clsname == 'StructuredTopology':
            ref = call('topology:StructuredTopology.refined', b_coarse)
        else:
            ref = b_coarse  # empty
        return b_fine, ref

    def ensures(self, cx, S, result):
        b_fine, ref = result
        p1, n1 = _parts(b_fine)
        p2, n2 = _parts(ref)
        out = [('same-sides-same-names', z3.BoolVal(len(p1) == len(p2) and n1 == n2))]
        if len(p1) != len(p2):
            return out
        same = []
        for a, b in zip(p1, p2):
            xa, xb = _topo_axes(a), _topo_axes(b)
            same.append(z3.And(z3.BoolVal(len(xa) == len(xb)), *[_same_axis(u, v) for u, v in zip(xa, xb)], z(a.attrs['nrefine']) == z(b.attrs['nrefine'])))
            oa, ob = _st_axes(a.attrs['opposites']), _st_axes(b.attrs['opposites'])
            same.append(z3.And(*[_same_axis(u, v) for u, v in zip(oa, ob)]))
        return out + [('sides-coincide-axis-by-axis', z3.And(*same))]

    def replay(self, ob):
        return _replay('refined_boundary(%r, %r)' % (self.config, ob.model))


# ------------------------------------------------------------------------------------------------------------- slice --

class Slice(_Base):
    """T.slice(slice(start, stop), d) (= T[:, start:stop] ...) through Topology.slice -> StructuredTopology.slice_unchecked -> DimAxis.getitem"""
    fn = 'topology:StructuredTopology.slice_unchecked'

    def __init__(self, config, idim):
        _Base.__init__(self, config)
        self.idim = idim
        self.label = '%s,dim=%d' % (config, idim)

    def setup(self, cx):
        S = self.world(cx)
        A = S.A
        k = A.dims[self.idim]
        S.k = k
        S.a, S.b = cx.int('start'), cx.int('stop')
        cx.assume(z3.And(0 <= S.a, S.a < S.b, S.b <= A.n[k]))
        return S

    def body(self, cx, S, call):
        S.topo = self.topo(cx, S)
        return call('topology:Topology.slice', S.topo, slice(SInt(S.a), SInt(S.b)), self.idim)

    def ensures(self, cx, S, r):
        A = S.A
        ax = _topo_axes(r)
        k = S.k
        if len(ax) != len(A.axes) or ax[k].clsname != 'DimAxis':
            return [('sliced-axis-is-the-subrange', z3.BoolVal(False))]
        shape = [zint(x) for x in r.attrs['shape']]
        return [('sliced-axis-is-the-subrange', _axis_eq(ax[k], A.i[k] + S.a, A.i[k] + S.b, A.mod[k], per=0)),
                ('other-axes-untouched', z3.And(*[z3.BoolVal(ax[l] is A.axes[l]) for l in range(len(ax)) if l != k])),
                ('root-nrefine-names-kept', z3.And(z3.BoolVal(r.attrs['root'] is S.root and r.attrs['space'] == 'X' and r.attrs['_bnames'] == BNAMES), z(r.attrs['nrefine']) == zint(S.nref))),
                ('shape', z3.And(z3.BoolVal(len(shape) == len(A.dims)), *[sh == (S.b - S.a if d == k else A.n[d]) for sh, d in zip(shape, A.dims)]))]

    def replay(self, ob):
        return _replay('slice_(%r, %d, %r)' % (self.config, self.idim, ob.model))


def _replay(call):
    import os
    here = os.path.dirname(os.path.dirname(os.path.abspath(__file__)))
    return "import sys; sys.path.insert(0, %r)\nfrom native import c10\nc10.%s\n" % (here, call)


def contracts():
    cs = []
    for cfg in ('D', 'DD', 'DDD'):
        cs.append(Connectivity(cfg))
    for cfg in ('D', 'DD', 'DDD', 'ID', 'DI'):
        cs.append(Boundary(cfg))
    for cfg in ('D', 'DD', 'DDD', 'ID', 'DID'):
        cs.append(Interfaces(cfg))
    for cfg in ('D', 'DD', 'DDD', 'ID', 'DID'):
        cs.append(Refined(cfg))
    for cfg in ('D', 'DD', 'DDD', 'ID'):
        cs.append(RefinedBoundary(cfg))
    for cfg, idim in (('D', 0), ('DD', 0), ('DD', 1), ('DDD', 1), ('DDD', 2), ('ID', 0), ('DID', 1)):
        cs.append(Slice(cfg, idim))
    return cs
