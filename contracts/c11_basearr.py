"""C11: the integer-ARRAY form of the base class `Transforms.__getitem__` (transformseq.py, `elif numeric.isintarray(index):` branch) -- UNBOUNDED:
`index` is an int array of symbolic length and symbolic entries, `self` an abstract sequence of symbolic length.  The real body is executed, including
its recursive call `self[index[s]]` for unsorted arrays (one level: the argument of the recursive call is sorted).

  accepted  =>  the result has len(index) items and item k of the result is self[index[k]] for EVERY k  (`length`, `item-k-is-self[index[k]]`);
                the indices are in range and pairwise distinct (`accepted-indices-are-in-range-and-distinct`);
                the produced object satisfies the class invariant its own lookup contract assumes (`result-class-invariant`):
                MaskedTransforms: strictly increasing indices into the parent; ReorderedTransforms: indices a permutation of range(len(parent));
  IndexError only if some index is out of range;  ValueError only if two positions hold the same index.

Meaning of the produced objects (proved for their integer `__getitem__` by the LOOKUP harnesses of this property): self -> k;
MaskedTransforms(parent, v)[k] = parent[v[k]];  ReorderedTransforms(parent, r)[k] = parent[r[k]];  len(Reordered) = len(parent);  EmptyTransforms: no element.

numpy externals (axioms, cross-checked in native/axioms_c11b.py): any/all over comparison results (exists / forall), diff (d[i] = a[i+1]-a[i]), fancy indexing a[s],
argsort(a) = a permutation s of range(len(a)) (with inverse, L-PERM) such that a[s] is non-decreasing; argsort of a permutation is its inverse.
Inductive lemmas, offered for every array that reaches numpy.diff:  L-MONO (strict): all adjacent differences > 0 => strictly increasing;  L-PROG: a[0] == 0 and all adjacent
differences == 1 => a[k] == k;  L-MONO-GAP: strictly increasing integers satisfy a[j] - a[i] >= j - i (so n of them within range(n) are 0..n-1).
"""
import z3
from pyvc.contract import Contract, State
from pyvc.values import SInt, SBool, SObj, Sym, Unsupported, PyRaise, zint, is_intlike
from pyvc.nparr import Vec, Numpy, qforall, qexists
from pyvc.ops import ClassRef
from contracts.C13 import InlineFn

PROP = 'C11'


def inrange(k, n):
    return z3.And(0 <= k, k < n)


class BaseSeq(SObj):
    """abstract Transforms object whose array / slice indexing is the REAL base-class body"""

    def __init__(self, cx):
        self.n = cx.int('len(self)')
        cx.assume(self.n >= 0)
        self.depth = 0
        self.mode = 'general'
        super().__init__('Transforms', attrs=dict(todims=SInt(cx.int('todims')), fromdims=SInt(cx.int('fromdims'))), classes=('Transforms',))

    def length(self, ctx):
        return SInt(self.n)

    def getitem(self, ctx, idx):
        if isinstance(idx, Vec):
            if self.depth >= 1 or self.mode == 'sorted':
                raise PyRaise('RecursionError', note='recursive call of Transforms.__getitem__ where none is expected (sorted argument)')
            # the recursive call self[index[s]]: replaced by the CONTRACT of the sorted case (proved with the real body as `int-array,sorted`):
            # requires a non-decreasing argument within range; raises ValueError iff two adjacent entries are equal; otherwise returns a sequence R
            # with len(R) == len(argument), R[k] == self[argument[k]] for every k, satisfying its class invariant
            n = self.n
            ctx.lemma('recursive-call-argument-is-sorted-and-in-range',
                      z3.And(qforall(2, lambda i, j: z3.Implies(z3.And(0 <= i, i < j, j < idx.n), idx.sel(i) <= idx.sel(j))),
                             qforall(1, lambda k: z3.Implies(inrange(k, idx.n), inrange(idx.sel(k), n)))))
            ctx.used_axioms.add('callee contract of the recursive call self[index[s]] (sorted argument): the postcondition proved as Transforms.__getitem__#int-array,sorted')
            dup = qexists(1, lambda i: z3.And(0 <= i, i + 1 < idx.n, idx.sel(i) == idx.sel(i + 1)))
            if ctx.branch(dup):
                raise PyRaise('ValueError', note='repeating an element is not allowed (recursive call)')
            # ... and an accepted argument has pairwise distinct entries (clause `accepted-indices-are-in-range-and-distinct` of the sorted contract)
            ctx.assume(qforall(2, lambda a, b: z3.Implies(z3.And(inrange(a, idx.n), inrange(b, idx.n), a != b), idx.sel(a) != idx.sel(b))),
                       axiom='callee contract of the recursive call: an accepted sorted argument has pairwise distinct entries')
            return SortedResult(idx)
        raise Unsupported('abstract sequence subscript %r' % (idx,))


class SortedResult(Sym):
    """the sequence returned by the recursive call on a sorted argument v: len == len(v), item k is self[v[k]] (callee contract)"""

    def __init__(self, v):
        self.v = v

    def truth(self, ctx):
        return True

    def isinstance_(self, ctx, types):
        return any(getattr(t, '__name__', None) == 'Transforms' for t in types)


class AVec(Vec):
    """Vec that answers isinstance(., slice) (False) and keeps that ability through fancy indexing"""

    @staticmethod
    def of(v):
        a = AVec(v.kind, v.n, v._sel, v.name, v.base)
        return a

    def isinstance_(self, ctx, types):
        if all(t in (slice, int, float, str, tuple, list, dict, bool) for t in types):
            return False
        raise Unsupported('isinstance of an array against %r' % (types,))

    def getitem(self, ctx, idx):
        if isinstance(idx, Vec) and getattr(idx, 'perm_inverse', None) is not None and idx.perm_of is self:
            # a[s] for s = argsort(a): every s[k] lies in range(len(a)) (argsort axiom), so numpy's wrap-around of negative indices never applies
            me = self
            return AVec('int', idx.n, lambda k: me.sel(idx.sel(k)), '%s[%s]' % (self.name, idx.name))
        r = Vec.getitem(self, ctx, idx)
        return AVec.of(r) if isinstance(r, Vec) and not isinstance(r, AVec) else r


def lemmas_for(ctx, v):
    n = v.n
    adjpos = qforall(1, lambda i: z3.Implies(z3.And(0 <= i, i + 1 < n), v.sel(i + 1) - v.sel(i) > 0))
    strict = qforall(2, lambda i, j: z3.Implies(z3.And(0 <= i, i < j, j < n), v.sel(i) < v.sel(j)))
    ctx.assume(z3.Implies(adjpos, strict), axiom='L-MONO (strict): all adjacent differences > 0 => strictly increasing (lemmas/LMono.lean)')
    gap = qforall(2, lambda i, j: z3.Implies(z3.And(0 <= i, i <= j, j < n), v.sel(j) - v.sel(i) >= j - i))
    ctx.assume(z3.Implies(adjpos, gap), axiom='L-MONO-GAP: strictly increasing integers: a[j] - a[i] >= j - i (lemmas/LMono.lean)')
    adjone = qforall(1, lambda i: z3.Implies(z3.And(0 <= i, i + 1 < n), v.sel(i + 1) - v.sel(i) == 1))
    prog = qforall(1, lambda k: z3.Implies(inrange(k, n), v.sel(k) == v.sel(z3.IntVal(0)) + k))
    ctx.assume(z3.Implies(adjone, prog), axiom='L-PROG: all adjacent differences == 1 => a[k] == a[0] + k (induction on k)')


def np_diff(ctx, a):
    if not (isinstance(a, Vec) and a.kind == 'int'):
        raise Unsupported('numpy.diff of %r' % (a,))
    ctx.used_axioms.add('numpy.diff(a)[i] == a[i+1] - a[i], length max(len(a) - 1, 0)')
    return Vec('int', z3.If(a.n > 0, a.n - 1, 0), lambda i: a.sel(i + 1) - a.sel(i), 'diff(%s)' % a.name)


def _cmp(op, text):
    def f(ctx, a, b):
        if not (isinstance(a, Vec) and a.kind == 'int' and is_intlike(b)):
            raise Unsupported('numpy.%s(%r, %r)' % (text, a, b))
        zb = zint(b)
        return Vec('bool', a.n, lambda i: op(a.sel(i), zb), '%s(%s)' % (text, a.name))
    return f


np_less = _cmp(lambda x, y: x < y, 'less')
np_greater = _cmp(lambda x, y: x > y, 'greater')
np_greater_equal = _cmp(lambda x, y: x >= y, 'greater_equal')
np_equal = _cmp(lambda x, y: x == y, 'equal')


def np_any(ctx, a):
    return a._any(ctx)


def np_all(ctx, a):
    return a._all(ctx)


def np_argsort(ctx, a):
    if not (isinstance(a, Vec) and a.kind == 'int'):
        raise Unsupported('numpy.argsort of %r' % (a,))
    inv_of = getattr(a, 'perm_inverse', None)
    if inv_of is not None:
        ctx.used_axioms.add('L-PERM: numpy.argsort of a permutation of range(n) is its inverse permutation (lemmas/LPerm.lean)')
        return inv_of
    n = a.n
    s = Vec.fresh(ctx, 'argsort(%s)' % a.name, 'int', n=n, report=False)
    r = Vec.fresh(ctx, 'inverse(argsort(%s))' % a.name, 'int', n=n, report=False)
    ax = 'numpy.argsort(a): a permutation s of range(len(a)) (bijective: it has an inverse r, s[r[k]] == k == r[s[k]]) such that a[s] is non-decreasing'
    from pyvc import nparr
    if nparr.BOUND is None:
        k = z3.Int('k!argsort')
        i, j = z3.Int('i!argsort'), z3.Int('j!argsort')
        # one small quantifier per fact, with explicit E-matching patterns: every position k at which a, s or r is read
        ctx.assume(z3.ForAll([k], z3.Implies(inrange(k, n), z3.And(inrange(s.sel(k), n), r.sel(s.sel(k)) == k)), patterns=[s.sel(k)]), axiom=ax)
        ctx.assume(z3.ForAll([k], z3.Implies(inrange(k, n), z3.And(inrange(r.sel(k), n), s.sel(r.sel(k)) == k)), patterns=[r.sel(k)]), axiom=ax)
        ctx.assume(z3.ForAll([k], z3.Implies(inrange(k, n), z3.And(inrange(r.sel(k), n), s.sel(r.sel(k)) == k)), patterns=[a.sel(k)]), axiom=ax)
        ctx.assume(z3.ForAll([i, j], z3.Implies(z3.And(0 <= i, i < j, j < n), a.sel(s.sel(i)) <= a.sel(s.sel(j))), patterns=[z3.MultiPattern(s.sel(i), s.sel(j))]), axiom=ax)
    else:
        ctx.assume(z3.And(qforall(1, lambda k: z3.Implies(inrange(k, n), z3.And(inrange(s.sel(k), n), inrange(r.sel(k), n), r.sel(s.sel(k)) == k, s.sel(r.sel(k)) == k))),
                          qforall(2, lambda i, j: z3.Implies(z3.And(0 <= i, i < j, j < n), a.sel(s.sel(i)) <= a.sel(s.sel(j))))), axiom=ax)
    s, r = AVec.of(s), AVec.of(r)
    s.perm_inverse, r.perm_inverse = r, s
    s.perm_of, r.perm_of = a, None
    return s


class NumericArr:
    def sym_getattr(self, ctx, name):
        if name == 'isint':
            return lambda ctx, x: is_intlike(x) and not isinstance(x, (bool, SBool))
        if name == 'isintarray':
            return lambda ctx, x: isinstance(x, Vec) and x.kind == 'int'
        if name == 'isboolarray':
            return lambda ctx, x: isinstance(x, Vec) and x.kind == 'bool'
        raise Unsupported('numeric.' + name)


class TypesModel:
    def sym_getattr(self, ctx, name):
        if name == 'arraydata':
            return lambda ctx, x: x
        raise Unsupported('types.' + name)


def mk(cls, *names):
    def construct(ctx, *args):
        return SObj(cls, attrs=dict(zip(names, args)), classes=(cls, 'Transforms'))
    return ClassRef(cls, construct=construct)


class BaseArray(Contract):
    prop = PROP
    fn = 'transformseq:Transforms.__getitem__'
    split_conjunctions = True
    ematching_first = True

    def __init__(self, mode):
        self.mode = mode
        self.label = 'int-array,' + mode

    def setup(self, cx):
        o = BaseSeq(cx)
        o.mode = self.mode
        index = AVec.of(Vec.fresh(cx, 'index', 'int'))
        lemmas_for(cx, index)
        if self.mode == 'sorted':
            cx.assume(qforall(2, lambda i, j: z3.Implies(z3.And(0 <= i, i < j, j < index.n), index.sel(i) <= index.sel(j))))
        S = State(args=(o, index), o=o, index=index)
        S.globals = {'numeric': NumericArr(), 'types': TypesModel(),
                     'numpy': Numpy(extra={'any': np_any, 'all': np_all, 'diff': np_diff, 'argsort': np_argsort, 'less': np_less, 'greater': np_greater, 'greater_equal': np_greater_equal, 'equal': np_equal}),
                     'MaskedTransforms': mk('MaskedTransforms', '_parent', '_indices'), 'ReorderedTransforms': mk('ReorderedTransforms', '_parent', '_indices'),
                     'EmptyTransforms': mk('EmptyTransforms', 'todims', 'fromdims')}
        return S

    # --- meaning of a produced sequence
    def length_of(self, S, r):
        if r is S.o:
            return S.o.n
        if isinstance(r, SObj) and r.clsname == 'MaskedTransforms':
            return r.attrs['_indices'].n
        if isinstance(r, SObj) and r.clsname == 'ReorderedTransforms':
            return self.length_of(S, r.attrs['_parent'])
        if isinstance(r, SObj) and r.clsname == 'EmptyTransforms':
            return z3.IntVal(0)
        if isinstance(r, SortedResult):
            return r.v.n
        raise Unsupported('result %r' % (r,))

    def elem(self, S, r, k):
        """number of the element of `self` that is item k of r"""
        if r is S.o:
            return k
        if isinstance(r, SortedResult):
            return r.v.sel(k)
        if isinstance(r, SObj) and r.clsname == 'MaskedTransforms':
            return self.elem(S, r.attrs['_parent'], r.attrs['_indices'].sel(k))
        if isinstance(r, SObj) and r.clsname == 'ReorderedTransforms':
            return self.elem(S, r.attrs['_parent'], r.attrs['_indices'].sel(k))
        raise Unsupported('element of %r' % (r,))

    def invariant(self, S, r):
        if r is S.o or isinstance(r, SortedResult):
            return z3.BoolVal(True)
        if isinstance(r, SObj) and r.clsname == 'EmptyTransforms':
            return z3.And(zint(r.attrs['todims']) == zint(S.o.attrs['todims']), zint(r.attrs['fromdims']) == zint(S.o.attrs['fromdims']))
        p, v = r.attrs['_parent'], r.attrs['_indices']
        np_ = self.length_of(S, p)
        if r.clsname == 'MaskedTransforms':
            return z3.And(self.invariant(S, p), qforall(1, lambda k: z3.Implies(inrange(k, v.n), inrange(v.sel(k), np_))),
                          qforall(2, lambda a, b: z3.Implies(z3.And(0 <= a, a < b, b < v.n), v.sel(a) < v.sel(b))))
        if r.clsname == 'ReorderedTransforms':
            return z3.And(self.invariant(S, p), v.n == np_, qforall(1, lambda k: z3.Implies(inrange(k, v.n), inrange(v.sel(k), np_))),
                          qforall(2, lambda a, b: z3.Implies(z3.And(0 <= a, a < b, b < v.n), v.sel(a) != v.sel(b))))
        raise Unsupported('result %r' % (r,))

    def ensures(self, cx, S, result):
        ix, n = S.index, S.o.n
        out = [('length', self.length_of(S, result) == ix.n),
               ('accepted-indices-are-in-range-and-distinct', z3.And(qforall(1, lambda k: z3.Implies(inrange(k, ix.n), inrange(ix.sel(k), n))),
                                                                     qforall(2, lambda a, b: z3.Implies(z3.And(0 <= a, a < b, b < ix.n), ix.sel(a) != ix.sel(b))))),
               ('result-class-invariant', self.invariant(S, result))]
        if isinstance(result, SObj) and result.clsname == 'EmptyTransforms':
            out.append(('item-k-is-self[index[k]]', ix.n == 0))
        else:
            out.append(('item-k-is-self[index[k]]', qforall(1, lambda k: z3.Implies(inrange(k, ix.n), self.elem(S, result, k) == ix.sel(k)))))
        return out

    def raises(self, cx, S, e):
        ix, n = S.index, S.o.n
        if e.exc == 'IndexError':
            return qexists(1, lambda k: z3.And(inrange(k, ix.n), z3.Not(inrange(ix.sel(k), n))))
        if e.exc == 'ValueError':
            return qexists(2, lambda a, b: z3.And(inrange(a, ix.n), inrange(b, ix.n), a != b, ix.sel(a) == ix.sel(b)))
        return False

    def replay(self, ob):
        import os
        here = os.path.dirname(os.path.dirname(os.path.abspath(__file__)))
        return "import sys; sys.path.insert(0, %r)\nfrom native import c11b\nc11b.base_array_forms()\n" % here


def contracts():
    return [BaseArray('sorted'), BaseArray('general')]
